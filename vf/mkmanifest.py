#!/usr/bin/env python3
"""Regenerates /verif/MANIFEST.json from the claims table below + the contract units on disk."""
import glob
import json
import os
import sys

HERE = os.path.dirname(os.path.abspath(__file__))
VERIF = os.path.dirname(HERE)
sys.path.insert(0, HERE)

# per property: (level text, level_note (assumed / not decided), design ref)
CLAIMS = json.load(open(os.path.join(HERE, "claims.json")))
NOT_APPLICABLE = json.load(open(os.path.join(HERE, "not_applicable.json")))


def main():
    props = [json.loads(l) for l in open(os.path.join(VERIF, "properties.jsonl"))]
    checks = []
    na = []
    for p in props:
        pid = p["id"]
        has_units = bool(glob.glob(os.path.join(VERIF, "contracts", pid, "*.py")))
        if pid in CLAIMS and has_units:
            c = CLAIMS[pid]
            checks.append({
                "property_id": pid,
                "quick_cmd": "./check %s --tier quick" % pid,
                "thorough_cmd": "./check %s --tier thorough" % pid,
                "evidence_file": "/verif/evidence/%s.json" % pid,
                "replay_cmd_template": "./check %s --replay {path}" % pid,
                "engine": "cbmc-contracts",
                "level_claimed": {"category": "proof", "text": c["text"], "design_ref": c.get("design_ref", "DESIGN.md section 4 " + pid)},
                "level_note": c["note"],
                "technique": c.get("technique", "contract-based deductive verification: CBMC 6.11 code contracts (goto-instrument --dfcc: "
                                   "enforce/replace function contracts, loop contracts) on C text extracted mechanically from /repo on every run"),
            })
        else:
            na.append({"property_id": pid, "reason": NOT_APPLICABLE.get(pid, "no contract unit built yet for this property (see DESIGN.md section 8)")})
    man = {
        "version": 1,
        "setup_cmd": "python3 vf/selftest.py",
        "hooks": {"guard": "DATASKETCHES_VERIF",
                  "enable": "none needed: the checks extract function text from /repo headers; no instrumentation is compiled into the library (replay drivers pass -DDATASKETCHES_VERIF, which currently guards nothing)",
                  "baseline_off_cmd": "cmake --build /repo/_build -j16 && ctest --test-dir /repo/_build -j8 --timeout 900",
                  "source_commits": [], "add_only": True},
        "engines": [{"name": "cbmc-contracts", "path": "vf/run.py", "serves_properties": [c["property_id"] for c in checks],
                     "kind_free_text": "vf/extract.py cuts the functions under contract out of /repo's current tree into C, contracts/<Cnn>/*.py hold the "
                                       "contracts, vf/run.py drives goto-cc / goto-instrument --dfcc / cbmc (kissat back end), checks vacuity canaries, "
                                       "maps failures to VIOLATION with replay on the real C++ headers under ASan/UBSan"}],
        "checks": checks,
        "not_applicable": na,
        "notes": "Exit codes of ./check: 0 all obligations discharged; 1 VIOLATION (a named obligation failed; replay file carries the counterexample and "
                 "its replay on the real code); 2 undecided (timeout, extraction broken, vacuity canary not reachable) - never reported as a violation. "
                 "Bounded stand-ins are labelled per job in the evidence and not counted as discharged proof obligations.",
    }
    with open(os.path.join(VERIF, "MANIFEST.json"), "w") as f:
        json.dump(man, f, indent=1)
    print("MANIFEST.json: %d checks, %d not_applicable" % (len(checks), len(na)))


if __name__ == "__main__":
    main()
