#include <iostream>
#include <sstream>
#include <cstring>
#include "hll.hpp"
using namespace datasketches;
int main(int argc, char** argv) {
  int which = atoi(argv[1]);
  hll_sketch s(12, HLL_4);
  for (int i = 0; i < 32768; i++) s.update(i);
  auto img = s.serialize_updatable();
  uint32_t aux; memcpy(&aux, &img[36], 4);
  std::cout << "aux count " << aux << " lgAuxArr " << (int)img[4] << " size " << img.size() << "\n";
  if (aux == 0) return 0;
  if (which == 1) { // wrong aux count, stream path: explicit delete + unique_ptr => double free
    uint32_t bad = aux + 1; memcpy(&img[36], &bad, 4);
    std::stringstream ss(std::string((char*)img.data(), img.size()));
    try { auto r = hll_sketch::deserialize(ss); std::cout << "accepted\n"; } catch (std::exception& e) { std::cout << "rejected: " << e.what() << "\n"; }
  }
  if (which == 2) { // wrong aux count, bytes path
    uint32_t bad = aux + 1; memcpy(&img[36], &bad, 4);
    try { auto r = hll_sketch::deserialize(img.data(), img.size()); std::cout << "accepted\n"; } catch (std::exception& e) { std::cout << "rejected: " << e.what() << "\n"; }
  }
  if (which == 3) { // corrupted lg size of the aux array
    img[4] = 40;
    try { auto r = hll_sketch::deserialize(img.data(), img.size()); std::cout << "accepted\n"; } catch (std::exception& e) { std::cout << "rejected: " << e.what() << "\n"; }
  }
  if (which == 4) { // duplicate slot in the aux array: mustAdd throws, map must not leak (LeakSanitizer)
    size_t off = 40 + (1u << 11); uint32_t first = 0; size_t fi = 0;
    for (size_t i = off; i + 4 <= img.size(); i += 4) { uint32_t p; memcpy(&p, &img[i], 4); if (p) { if (!first) { first = p; fi = i; } else { memcpy(&img[i], &first, 4); break; } } }
    try { auto r = hll_sketch::deserialize(img.data(), img.size()); std::cout << "accepted\n"; } catch (std::exception& e) { std::cout << "rejected: " << e.what() << "\n"; }
  }
  return 0;
}
