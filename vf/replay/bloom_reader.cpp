#include <bloom_filter.hpp>
#include <cstdio>
#include <cstdlib>
#include <cstring>
using namespace datasketches;
int main() {
  const unsigned char bytes[] = { @BYTES@ };
  const size_t size = @SIZE@;
  if (size > sizeof(bytes)) { printf("replay input incomplete\n"); return 0; }
  unsigned char* img = (unsigned char*)malloc(size ? size : 1);
  memcpy(img, bytes, size);
  try { auto f = bloom_filter::deserialize(img, size); printf("deserialize accepted: capacity=%llu\n", (unsigned long long)f.get_capacity()); }
  catch (const std::exception& e) { printf("deserialize rejected: %s\n", e.what()); }
  try { auto f = bloom_filter::wrap(img, size); printf("wrap accepted: capacity=%llu\n", (unsigned long long)f.get_capacity()); (void)f.query((uint64_t)1); (void)f.query((uint64_t)2); (void)f.query((uint64_t)3); }
  catch (const std::exception& e) { printf("wrap rejected: %s\n", e.what()); }
  free(img);
  return 0;
}
