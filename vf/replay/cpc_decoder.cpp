#include <cpc_sketch.hpp>
#include <cstdio>
#include <cstdlib>
#include <cstring>
using namespace datasketches;
// replay for unit cpc_decoder: a valid sparse image whose coupon count is raised: the decoder must refuse it instead of reading past the compressed words
int main() {
  cpc_sketch sk(10);
  for (int i = 0; i < 40; i++) sk.update(i);
  auto bytes = sk.serialize();
  printf("image %zu bytes, coupons=%u\n", bytes.size(), *(uint32_t*)(bytes.data() + 8));
  unsigned char* img = (unsigned char*)malloc(bytes.size()); memcpy(img, bytes.data(), bytes.size());
  uint32_t c = 90; memcpy(img + 8, &c, 4);   // claim more coupons than the compressed table holds (still SPARSE: 90 < 3k/32 = 96)
  try { auto r = cpc_sketch::deserialize(img, bytes.size()); printf("accepted: estimate=%f\n", r.get_estimate()); }
  catch (const std::exception& e) { printf("rejected: %s\n", e.what()); }
  free(img);
  return 0;
}
