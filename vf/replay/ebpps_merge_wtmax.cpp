// replay for unit ebpps_sketch / internal_merge: observable consequence of the merged maximum weight on the real class:
// after merging a sketch that saw a heavier item, c must stay min(k, cumulative weight / maximum weight) under further updates.
#include <ebpps_sketch.hpp>
#include <cstdio>
#include <cmath>
using namespace datasketches;
int main() {
  ebpps_sketch<int> a(100), b(100);
  for (int i = 0; i < 10; i++) a.update(i, 1.0);
  b.update(1000, 5.0);
  a.merge(b);
  printf("after merge: n=%llu cum=%g c=%g (min(k, 15/5) = 3)\n", (unsigned long long)a.get_n(), a.get_cumulative_weight(), a.get_c());
  int bad = std::fabs(a.get_c() - 3.0) > 1e-9 || a.get_n() != 11 || a.get_cumulative_weight() != 15.0;
  for (int i = 0; i < 10; i++) a.update(2000 + i, 1.0);
  const double expect = std::fmin(100.0, a.get_cumulative_weight() / 5.0);
  printf("after 10 more unit updates: cum=%g c=%g (min(k, 25/5) = %g)\n", a.get_cumulative_weight(), a.get_c(), expect);
  bad |= std::fabs(a.get_c() - expect) > 1e-9;
  // smaller k wins, also when the other sketch is the heavier one (swap path)
  ebpps_sketch<int> c(50), d(20);
  for (int i = 0; i < 200; i++) c.update(i, 1.0);
  for (int i = 0; i < 300; i++) d.update(i, 1.0);
  c.merge(d);
  printf("k after merge = %u (20), n = %llu (500), c = %g (<= 20)\n", c.get_k(), (unsigned long long)c.get_n(), c.get_c());
  bad |= c.get_k() != 20 || c.get_n() != 500 || c.get_c() > 20.0 + 1e-9;
  return bad;
}
