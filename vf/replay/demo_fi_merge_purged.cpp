#include <iostream>
#include "frequent_items_sketch.hpp"
using namespace datasketches;
int main() {
  frequent_items_sketch<uint64_t> a(3), b(3);
  for (uint64_t i = 0; i < 7; i++) b.update(i, 1);      // 7 distinct weight-1 items at lg 3: the purge removes every counter
  a.update(100, 5);
  std::cout << "b: total=" << b.get_total_weight() << " max_error=" << b.get_maximum_error() << " active=" << b.get_num_active_items() << " is_empty=" << b.is_empty() << "\n";
  a.merge(b);
  std::cout << "a after merge: total=" << a.get_total_weight() << " (expect 12) max_error=" << a.get_maximum_error() << " (expect 1) ub(0)=" << a.get_upper_bound(0) << " (true weight 1)\n";
  return (a.get_total_weight() == 12 && a.get_upper_bound(0) >= 1) ? 0 : 1;
}
