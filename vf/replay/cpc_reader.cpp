#include <cpc_sketch.hpp>
#include <cstdio>
#include <cstdlib>
#include <cstring>
using namespace datasketches;
int main() {
  const unsigned char bytes[] = { @BYTES@ };
  const size_t size = @SIZE@;
  if (size > sizeof(bytes)) { printf("replay input incomplete\n"); return 0; }
  unsigned char* img = (unsigned char*)malloc(size ? size : 1);
  memcpy(img, bytes, size);
  if (size >= 8) { const uint16_t h = compute_seed_hash(DEFAULT_SEED); memcpy(img + 6, &h, 2); }   // the verifier treats the seed hash as arbitrary
  try { auto sk = cpc_sketch::deserialize(img, size); printf("accepted: lg_k=%d estimate=%f\n", (int)sk.get_lg_k(), sk.get_estimate()); }
  catch (const std::bad_alloc&) { printf("allocation driven by the image failed (std::bad_alloc)\n"); free(img); return 1; }
  catch (const std::exception& e) { printf("rejected: %s\n", e.what()); }
  free(img);
  return 0;
}
