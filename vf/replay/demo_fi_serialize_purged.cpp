// replay for unit fi_serialize: a sketch whose counters were all purged still has total weight and maximum error; a serialize/deserialize round trip must keep them
#include <frequent_items_sketch.hpp>
#include <cstdio>
using namespace datasketches;
int main() {
  frequent_items_sketch<uint64_t> a(3);
  for (uint64_t i = 0; i < 7; i++) a.update(i, 1);      // 7 distinct weight-1 items at lg 3: the purge removes every counter
  printf("before: total=%llu max_error=%llu active=%u is_empty=%d\n", (unsigned long long)a.get_total_weight(), (unsigned long long)a.get_maximum_error(), a.get_num_active_items(), (int)a.is_empty());
  auto bytes = a.serialize();
  auto b = frequent_items_sketch<uint64_t>::deserialize(bytes.data(), bytes.size());
  printf("after round trip (%zu bytes): total=%llu max_error=%llu ub(0)=%llu (true weight of item 0 is 1)\n", bytes.size(), (unsigned long long)b.get_total_weight(), (unsigned long long)b.get_maximum_error(), (unsigned long long)b.get_upper_bound(0));
  return (b.get_total_weight() == a.get_total_weight() && b.get_maximum_error() == a.get_maximum_error()) ? 0 : 1;
}
