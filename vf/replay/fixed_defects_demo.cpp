#include <iostream>
#include <cstring>
#include <vector>
#include <cmath>
#include "hll.hpp"
#include "kll_sketch.hpp"
#include "req_sketch.hpp"
#include "bloom_filter.hpp"
#include "tdigest.hpp"
#include "density_sketch.hpp"
#include "theta_sketch.hpp"
using namespace datasketches;
int main(int argc, char** argv) {
  int which = atoi(argv[1]);
  int bad = 0;
  if (which == 1) { // C04
    hll_union u(10);
    hll_sketch a(12), b(10);
    for (int i = 0; i < 100000; i++) a.update(i);
    for (int i = 0; i < 1000; i++) b.update(1000000 + i);
    u.update(a); u.update(b);
    double e = u.get_composite_estimate();
    std::cout << "C04 union estimate " << e << " (expect ~101000)\n";
    bad = e < 50000;
  }
  if (which == 2) { // C07 KLL
    kll_sketch<float> s1(8), s2(8);
    for (int i = 0; i < 876; i++) s2.update(i);
    s1.merge(s2);
    uint64_t sum = 0; for (auto p : s1) sum += p.second;
    std::cout << "C07 kll weight sum " << sum << " n " << s1.get_n() << "\n";
    bad = sum != s1.get_n();
  }
  if (which == 3) { // C07 REQ empty
    req_sketch<float> r(12);
    size_t cnt = 0; for (auto it = r.begin(); it != r.end(); ++it) { ++cnt; if (cnt > 5) break; }
    std::cout << "C07 req empty iteration count " << cnt << "\n";
    bad = cnt != 0;
  }
  if (which == 4) { // C15
    size_t sz = bloom_filter::get_serialized_size_bytes(1024);
    std::vector<uint8_t> mem(sz);
    {
      bloom_filter f = bloom_filter::builder::initialize_by_size(mem.data(), mem.size(), 1024, 3, 123);
      f.update(std::string("hello"));
    }
    bloom_filter g = bloom_filter::wrap(mem.data(), mem.size());
    bool q = g.query(std::string("hello"));
    std::cout << "C15 re-wrap query " << q << "\n";
    bad = !q;
  }
  if (which == 5) { // C09 tdigest header
    tdigest_double t(100); for (int i = 0; i < 10; i++) t.update(i);
    auto bytes = t.serialize(16);
    auto bytes0 = t.serialize(0);
    std::cout << "C09 tdigest sizes " << bytes.size() << " vs " << bytes0.size() << "+16\n";
    bad = bytes.size() != bytes0.size() + 16;
  }
  if (which == 6) { // C09 density header
    density_sketch<double> d(10, 2); std::vector<double> p{1.0, 2.0}; d.update(p);
    try { auto b = d.serialize(8); auto b0 = d.serialize(0); bad = b.size() != b0.size() + 8; std::cout << "C09 density ok\n"; }
    catch (std::exception& e) { std::cout << "C09 density throws: " << e.what() << "\n"; bad = 1; }
  }
  if (which == 7) { // C11 theta parser: v3, pre_longs 2, 8 bytes only
    uint16_t sh = compute_seed_hash(DEFAULT_SEED);
    uint8_t* buf = new uint8_t[8]{2, 3, 3, 0, 0, 0, 0, 0};
    memcpy(buf + 6, &sh, 2);
    try { auto s = compact_theta_sketch::deserialize(buf, 8); std::cout << "accepted\n"; } catch (std::exception& e) { std::cout << "C11 rejected: " << e.what() << "\n"; }
    delete[] buf;
  }
  if (which == 8) { // C11 theta parser v4: entry_bits*num_entries 32-bit wrap
    uint16_t sh = compute_seed_hash(DEFAULT_SEED);
    // pre=1, ver 4, type 3, entry_bits=64, num_entries_bytes=4, flags, seedhash; data: num_entries = 2^26 => 64*2^26 = 2^32 wraps to 0
    uint8_t* buf = new uint8_t[12]{1, 4, 3, 64, 4, 0x1a, 0, 0, 0, 0, 0, 4};
    memcpy(buf + 6, &sh, 2);
    try { auto s = compact_theta_sketch::deserialize(buf, 12); std::cout << "accepted, n=" << s.get_num_retained() << "\n"; bad = 1; } catch (std::exception& e) { std::cout << "C11 rejected: " << e.what() << "\n"; }
    delete[] buf;
  }
  return bad;
}
