// replay of a verifier counterexample for compact_theta_sketch_parser::parse on the real headers.
// exit 0 = real code behaves as the contract says (rejects, or accepts and every read stays inside the buffer);
// ASan/UBSan abort or exit 1 = counterexample confirmed.
#include <cstdlib>
#include <cstring>
#include <iostream>
#include "theta_sketch.hpp"
using namespace datasketches;
int main() {
  const size_t size = @SIZE@;
  const uint8_t init[] = {@BYTES@ 0};
  uint8_t* buf = static_cast<uint8_t*>(malloc(size ? size : 1));
  memcpy(buf, init, size);
  // the proof leaves compute_seed_hash(seed) arbitrary: make the image's seed-hash field the real one
  const uint16_t sh = compute_seed_hash(DEFAULT_SEED);
  if (size >= 8) memcpy(buf + 6, &sh, 2);
  volatile uint64_t sink = 0;
  try {
    auto w = wrapped_compact_theta_sketch::wrap(buf, size);
    uint64_t n = 0;
    for (auto h : w) { sink ^= h; if (++n > 4096) break; }
    std::cout << "wrap accepted, iterated " << n << " entries\n";
  } catch (const std::exception& e) { std::cout << "wrap rejected: " << e.what() << "\n"; }
  try {
    auto s = compact_theta_sketch::deserialize(buf, size);
    std::cout << "deserialize accepted, " << s.get_num_retained() << " entries\n";
  } catch (const std::exception& e) { std::cout << "deserialize rejected: " << e.what() << "\n"; }
  free(buf);
  return 0;
}
