// replay for the bloom_filter method contracts: scenario battery on the real class (owned and caller-memory filters);
// each scenario is the object-level reading of one contract clause. exit 0 = all hold, 1 = a clause is violated (message says which).
#include <cstdint>
#include <cstring>
#include <iostream>
#include <vector>
#include <unistd.h>
#include "bloom_filter.hpp"
using namespace datasketches;
static int fail(const char* what) { std::cout << "VIOLATED: " << what << "\n"; return 1; }
static uint64_t popcnt(const std::vector<uint8_t>& img) { uint64_t c = 0; for (size_t i = 32; i < img.size(); i++) c += __builtin_popcount(img[i]); return c; }
int main() {
  alarm(60);
  const uint64_t nbits[] = {64, 100, 1024, 4096};
  const uint16_t nh[] = {1, 3, 7, 65535};
  for (uint64_t nb : nbits) for (uint16_t k : nh) {
    if (k == 65535 && nb != 64) continue;
    // owned
    bloom_filter f = bloom_filter::builder::create_by_size(nb, k, 7);
    for (uint64_t x = 0; x < 20; x++) { f.update(x); if (!f.query(x)) return fail("update then query (owned)"); }
    for (uint64_t x = 0; x < 20; x++) { if (!f.query_and_update(x)) return fail("query_and_update of an inserted item returns present"); if (!f.query(x)) return fail("query after update;query_and_update"); }
    if (f.is_empty()) return fail("filter with inserted items reports empty");
    { auto img = f.serialize(); std::vector<uint8_t> v(img.begin(), img.end()); bloom_filter g = bloom_filter::deserialize(v.data(), v.size());
      for (uint64_t x = 0; x < 20; x++) if (!g.query(x)) return fail("serialize/deserialize keeps inserted items");
      if (g.get_bits_used() != popcnt(v)) return fail("bits used == popcount of the image"); }
    // reset then reuse
    f.reset();
    if (!f.is_empty() || f.get_bits_used() != 0) return fail("reset leaves an empty filter");
    { auto img = f.serialize(); }
    for (uint64_t x = 100; x < 110; x++) { if (f.query_and_update(x) && nb >= 1024 && k <= 7) { /* may be a false positive only if bits are set */ }
      if (!f.query(x)) return fail("after reset: inserted item reported absent"); }
    { bloom_filter h = bloom_filter::builder::create_by_size(nb, k, 7); for (uint64_t x = 100; x < 110; x++) h.update(x);
      auto a = f.serialize(); auto b = h.serialize();
      if (a.size() != b.size() || memcmp(a.data() + 32, b.data() + 32, a.size() - 32)) return fail("after reset the bit array equals that of a fresh filter fed the same items"); }
    // caller memory
    size_t sz = bloom_filter::get_serialized_size_bytes(nb);
    std::vector<uint8_t> mem(sz);
    { bloom_filter w = bloom_filter::builder::initialize_by_size(mem.data(), mem.size(), nb, k, 7);
      for (uint64_t x = 0; x < 20; x++) w.update(x); }
    { bloom_filter r = bloom_filter::wrap(mem.data(), mem.size());
      for (uint64_t x = 0; x < 20; x++) if (!r.query(x)) return fail("fresh read-only wrap of memory updated through a writable wrap reports an inserted item absent");
      if (r.get_bits_used() != popcnt(mem)) return fail("wrap: bits used == popcount"); }
    { bloom_filter w2 = bloom_filter::writable_wrap(mem.data(), mem.size()); for (uint64_t x = 50; x < 60; x++) w2.query_and_update(x); }
    { bloom_filter r = bloom_filter::deserialize(mem.data(), mem.size());
      for (uint64_t x = 50; x < 60; x++) if (!r.query(x)) return fail("deserialize of wrapped memory after query_and_update");
      if (r.get_bits_used() != popcnt(mem)) return fail("deserialize: bits used == popcount"); }
    // read-only views refuse writes, memory untouched
    { std::vector<uint8_t> copy = mem; bloom_filter ro(bloom_filter::wrap(mem.data(), mem.size()));
      bloom_filter other = bloom_filter::builder::create_by_size(nb, k, 7); other.update((uint64_t)777);
      int refused = 0;
      try { ro.update((uint64_t)1); } catch (std::exception&) { refused++; }
      try { ro.query_and_update((uint64_t)1); } catch (std::exception&) { refused++; }
      try { ro.reset(); } catch (std::exception&) { refused++; }
      try { ro.union_with(other); } catch (std::exception&) { refused++; }
      try { ro.intersect(other); } catch (std::exception&) { refused++; }
      try { ro.invert(); } catch (std::exception&) { refused++; }
      if (refused != 6 || copy != mem) return fail("write through a read-only view is refused and stores nothing"); }
    // set algebra against the bit model
    { bloom_filter a = bloom_filter::builder::create_by_size(nb, k, 7), b = bloom_filter::builder::create_by_size(nb, k, 7);
      for (uint64_t x = 0; x < 9; x++) a.update(x); for (uint64_t x = 5; x < 14; x++) b.update(x);
      auto ia = a.serialize(), ib = b.serialize();
      bloom_filter u(a); u.union_with(b); bloom_filter n(a); n.intersect(b); bloom_filter v(a); v.invert();
      bloom_filter e = bloom_filter::builder::create_by_size(nb, k, 7); bloom_filter ue(a); ue.union_with(e);
      auto iu = u.serialize(), in = n.serialize(), iv = v.serialize(), iue = ue.serialize();
      uint64_t cu = 0, cn = 0, cv = 0;
      for (size_t i = 32; i < ia.size(); i++) {
        if (iu.size() == ia.size() && iu[i] != (ia[i] | ib[i])) return fail("union is bitwise OR");
        cu += __builtin_popcount(ia[i] | ib[i]); cn += __builtin_popcount(ia[i] & ib[i]); cv += __builtin_popcount((uint8_t)~ia[i]);
      }
      if (u.get_bits_used() != cu) return fail("union: exact count of set bits");
      if (n.get_bits_used() != cn) return fail("intersection: exact count of set bits");
      if (v.get_bits_used() != cv) return fail("inversion: exact count of set bits");
      if (ue.get_bits_used() != a.get_bits_used()) return fail("union with an empty filter keeps the count");
      for (uint64_t x = 0; x < 9; x++) if (!ue.query(x)) return fail("union with an empty filter keeps inserted items");
      for (uint64_t x = 0; x < 14; x++) if (!u.query(x)) return fail("union contains the items of both inputs"); }
  }
  std::cout << "all bloom scenarios hold\n";
  return 0;
}
