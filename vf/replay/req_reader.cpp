// replay: a req_sketch image whose single compactor section starts at byte 8 (num_levels = 1, not raw items) and is cut to the counterexample's compactor bytes
#include <req_sketch.hpp>
#include <cstdio>
#include <cstdlib>
#include <cstring>
using namespace datasketches;
int main() {
  const unsigned char comp[] = { @BYTES@ };
  const size_t comp_size = @SIZE@;
  if (comp_size > sizeof(comp)) { printf("replay input incomplete\n"); return 0; }
  const size_t size = 8 + comp_size;
  unsigned char* img = (unsigned char*)malloc(size);   // exact-size heap buffer: ASan reports any read past it
  img[0] = 2; img[1] = 1; img[2] = 17; img[3] = 0; img[4] = 12; img[5] = 0; img[6] = 1; img[7] = 0;   // preamble 2, serial 1, family 17, flags 0, k = 12, 1 level, 0 raw items
  memcpy(img + 8, comp, comp_size);
  try { auto sk = req_sketch<float>::deserialize(img, size); printf("accepted: n=%llu retained=%u\n", (unsigned long long)sk.get_n(), sk.get_num_retained()); }
  catch (const std::exception& e) { printf("rejected: %s\n", e.what()); }
  free(img);
  return 0;
}
