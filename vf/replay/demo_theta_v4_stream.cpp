#include <theta_sketch.hpp>
#include <sstream>
#include <cstdio>
using namespace datasketches;
int main() {
  std::string s;
  const uint16_t h = compute_seed_hash(DEFAULT_SEED);
  const unsigned char hdr[8] = {1, 4, 3, 10, 8, (1 << 3) | (1 << 4) | (1 << 1), (unsigned char)(h & 0xff), (unsigned char)(h >> 8)};   // entry_bits 10, num_entries_bytes 8
  s.append((const char*)hdr, 8);
  for (int i = 0; i < 8; i++) s.push_back(i == 0 ? 1 : 1);   // 8 count bytes
  for (int i = 0; i < 16; i++) s.push_back(0);
  std::istringstream is(s);
  try { auto sk = compact_theta_sketch::deserialize(is); printf("accepted: retained=%u\n", sk.get_num_retained()); }
  catch (const std::exception& e) { printf("rejected: %s\n", e.what()); }
  return 0;
}
