#include <var_opt_sketch.hpp>
#include <cstdio>
#include <cstdlib>
#include <cstring>
#include <vector>
using namespace datasketches;
int main() {
  std::vector<unsigned char> v;
  auto put = [&](const void* p, size_t n) { const unsigned char* c = (const unsigned char*)p; v.insert(v.end(), c, c + n); };
  unsigned char hdr[4] = {4, 2, 13, 0}; put(hdr, 4); uint32_t k = 1; put(&k, 4);
  uint64_t n = 10; put(&n, 8); uint32_t h = 5, r = 0xfffffffcu; put(&h, 4); put(&r, 4);   // h + r wraps to 1 == k
  double twr = 1.0; put(&twr, 8);
  for (int i = 0; i < 5; i++) { double w = 2.0; put(&w, 8); }
  for (int i = 0; i < 8; i++) { uint64_t it = i; put(&it, 8); }
  unsigned char* img = (unsigned char*)malloc(v.size()); memcpy(img, v.data(), v.size());
  try { auto sk = var_opt_sketch<uint64_t>::deserialize(img, v.size()); printf("accepted n=%llu\n", (unsigned long long)sk.get_n()); }
  catch (const std::exception& e) { printf("rejected: %s\n", e.what()); }
  free(img);
  return 0;
}
