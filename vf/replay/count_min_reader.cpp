// replay: count_min_sketch::deserialize(bytes, size) on an exact-size heap buffer under ASan.
// The first 64 bytes of the image are the verifier's counterexample, the rest is zero.
#include <cstdlib>
#include <cstring>
#include <iostream>
#include "count_min.hpp"
using namespace datasketches;
int main() {
  const size_t size = @SIZE@;
  static uint8_t img[65536 + 64] = {@BYTES@ 0};
  const uint16_t sh = compute_seed_hash(DEFAULT_SEED); memcpy(img + 13, &sh, 2);   // the proof leaves compute_seed_hash arbitrary
  uint8_t* buf = static_cast<uint8_t*>(malloc(size ? size : 1)); memcpy(buf, img, size);
  try { auto s = count_min_sketch<uint64_t>::deserialize(buf, size, DEFAULT_SEED); std::cout << "accepted, total weight " << s.get_total_weight() << "\n"; }
  catch (const std::exception& e) { std::cout << "rejected: " << e.what() << "\n"; }
  free(buf); return 0;
}
