// replay battery for the quantile-sketch contracts (KLL, REQ, classic): object-level reading of the contract clauses on the real classes.
// exit 0 = all hold, 1 = a clause is violated (message says which).
#include <cstdint>
#include <iostream>
#include <vector>
#include <algorithm>
#include "kll_sketch.hpp"
#include "req_sketch.hpp"
#include "quantiles_sketch.hpp"
using namespace datasketches;
static int fail(const char* what) { std::cout << "VIOLATED: " << what << "\n"; return 1; }
template<typename S> static bool weights_ok(const S& s) {
  uint64_t sum = 0, cnt = 0; for (auto p : s) { sum += p.second; ++cnt; }
  return sum == s.get_n() && cnt == s.get_num_retained();
}
template<typename S> static int check_merge(S a, const S& b, float lo_a, float hi_a, float lo_b, float hi_b, const char* fam) {
  const uint64_t na = a.get_n(), nb = b.get_n();
  if (na > 0) (void)a.get_rank(lo_a);          // a cached sorted view exists before the merge
  a.merge(b);
  if (a.get_n() != na + nb) { std::cout << fam; return fail(": n after merge == sum of n"); }
  if (na + nb == 0) return 0;
  const float lo = na == 0 ? lo_b : nb == 0 ? lo_a : std::min(lo_a, lo_b), hi = na == 0 ? hi_b : nb == 0 ? hi_a : std::max(hi_a, hi_b);
  if (a.get_min_item() != lo || a.get_max_item() != hi) { std::cout << fam; return fail(": min/max after merge are the extremes of both operands"); }
  if (!weights_ok(a)) { std::cout << fam; return fail(": iterator weights sum to n / count == num_retained after merge"); }
  // the sorted view answers for the merged content, not for a stale cached view: a fresh copy (no cached view) must answer identically
  S fresh(a);
  const float probes[] = {lo, hi, (lo + hi) / 2, lo_b, hi_b, (lo_b + hi_b) / 2};
  for (float x : probes) {
    if (a.get_rank(x) != fresh.get_rank(x)) { std::cout << fam; return fail(": rank after merge is answered from a stale cached sorted view"); }
  }
  if (a.get_rank(hi, true) != 1.0) { std::cout << fam; return fail(": inclusive rank of max is 1 after merge"); }
  return 0;
}
template<typename S> static S fill(S s, float lo, int n) { for (int i = 0; i < n; i++) s.update(lo + i); return s; }
int main() {
  // ranges: receiver [100, 100+na), operand encloses / is enclosed / disjoint on either side
  const int sizes[] = {0, 1, 7, 64, 876, 2048, 5000};
  const float los[] = {0.f, 100.f, 50000.f};
  for (int na : sizes) for (int nb : sizes) for (float lb : los) {
    const float la = 100.f; const float ha = la + std::max(na, 1) - 1, hb = lb + std::max(nb, 1) - 1;
    { kll_sketch<float> a(8), b(8); a = fill(a, la, na); b = fill(b, lb, nb); if (check_merge(a, b, la, ha, lb, hb, "kll(k=8)")) return 1; }
    { kll_sketch<float> a(200), b(20); a = fill(a, la, na); b = fill(b, lb, nb); if (check_merge(a, b, la, ha, lb, hb, "kll(k=200,20)")) return 1; }
    { req_sketch<float> a(12), b(12); a = fill(a, la, na); b = fill(b, lb, nb); if (check_merge(a, b, la, ha, lb, hb, "req(k=12)")) return 1; }
    { quantiles_sketch<float> a(16), b(16); a = fill(a, la, na); b = fill(b, lb, nb); if (check_merge(a, b, la, ha, lb, hb, "quantiles(k=16)")) return 1; }
    { quantiles_sketch<float> a(16), b(64); a = fill(a, la, na); b = fill(b, lb, nb); if (check_merge(a, b, la, ha, lb, hb, "quantiles(k=16<-64)")) return 1; }
    { quantiles_sketch<float> a(64), b(16); a = fill(a, la, na); b = fill(b, lb, nb); if (check_merge(a, b, la, ha, lb, hb, "quantiles(k=64<-16)")) return 1; }
  }
  // empty sketches iterate zero items
  { req_sketch<float> r(12); size_t c = 0; for (auto it = r.begin(); it != r.end(); ++it) if (++c > 3) break; if (c) return fail("empty REQ sketch iterates no items"); }
  { kll_sketch<float> k(8); size_t c = 0; for (auto p : k) { (void)p; ++c; } if (c) return fail("empty KLL sketch iterates no items"); }
  { quantiles_sketch<float> q(16); size_t c = 0; for (auto p : q) { (void)p; ++c; } if (c) return fail("empty classic sketch iterates no items"); }
  // plain streams: weights sum to n at every size
  for (int n = 1; n < 3000; n += 37) {
    kll_sketch<float> k(8); req_sketch<float> r(4); quantiles_sketch<float> q(2);
    for (int i = 0; i < n; i++) { k.update(i); r.update(i); q.update(i); }
    if (!weights_ok(k)) return fail("kll: weights sum to n"); if (!weights_ok(r)) return fail("req: weights sum to n"); if (!weights_ok(q)) return fail("classic: weights sum to n");
  }
  std::cout << "all quantile-sketch scenarios hold\n";
  return 0;
}
