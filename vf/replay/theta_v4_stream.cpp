// replay: the counterexample bytes follow the three bytes {preamble longs, serial version 4, sketch type 3} that compact_theta_sketch::deserialize(istream) reads itself
#include <theta_sketch.hpp>
#include <sstream>
#include <cstdio>
#include <string>
using namespace datasketches;
int main() {
  const unsigned char tail[] = { @BYTES@ };
  const size_t size = @SIZE@;
  if (size > sizeof(tail)) { printf("replay input incomplete\n"); return 0; }
  for (unsigned pre = 1; pre <= 2; pre++) {
    std::string s; s.push_back((char)pre); s.push_back(4); s.push_back(3); s.append((const char*)tail, size);
    if (s.size() >= 8) { const uint16_t h = compute_seed_hash(DEFAULT_SEED); s[6] = (char)(h & 0xff); s[7] = (char)(h >> 8); }   // the verifier treats the seed hash as arbitrary
    std::istringstream is(s);
    try { auto sk = compact_theta_sketch::deserialize(is); printf("pre=%u accepted: retained=%u good=%d\n", pre, sk.get_num_retained(), (int)is.good()); }
    catch (const std::exception& e) { printf("pre=%u rejected: %s\n", pre, e.what()); }
  }
  return 0;
}
