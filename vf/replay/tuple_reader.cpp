// replay: compact_tuple_sketch<float>::deserialize on the counterexample image in an exact-size heap buffer (any seed: the image is rejected or over-read before or regardless of the seed check)
#include <tuple_sketch.hpp>
#include <cstdio>
#include <cstdlib>
#include <cstring>
using namespace datasketches;
int main() {
  const unsigned char bytes[] = { @BYTES@ };
  const size_t size = @SIZE@;
  if (size > sizeof(bytes)) { printf("replay input incomplete\n"); return 0; }
  unsigned char* img = (unsigned char*)malloc(size ? size : 1);
  memcpy(img, bytes, size);
  // the verifier treats the seed hash as arbitrary: give the image the hash of the default seed so that the real reader gets past the seed check
  if (size >= 8) { const uint16_t h = compute_seed_hash(DEFAULT_SEED); memcpy(img + 6, &h, 2); }
  try { auto sk = compact_tuple_sketch<float>::deserialize(img, size); printf("accepted: retained=%u\n", sk.get_num_retained()); }
  catch (const std::exception& e) { printf("rejected: %s\n", e.what()); }
  free(img);
  return 0;
}
