// replay: real update_theta_sketch::update(T) must retain MurmurHash3(8-byte image of the sign-extended / canonicalised value) >> 1
#include <cmath>
#include <cstring>
#include <iostream>
#include "theta_sketch.hpp"
using namespace datasketches;
typedef @TYPE@ T;
static int64_t expected_image(T v) { return @EXPECT@; }
static int64_t canon(double d) { if (d == 0.0) return 0; if (std::isnan(d)) return 0x7ff8000000000000L; int64_t r; memcpy(&r, &d, 8); return r; }
int main() {
  uint64_t raw = @RAWBITS@ULL; T v; memcpy(&v, &raw, sizeof(T));
  auto s = update_theta_sketch::builder().build();
  s.update(v);
  const int64_t img = expected_image(v);
  const uint64_t h = compute_hash(&img, sizeof(img), DEFAULT_SEED);
  auto it = s.begin();
  if (it == s.end() || *it != h) { std::cout << "update(" << "@TYPE@" << ") retained a hash different from the hash of the canonical image\n"; return 1; }
  std::cout << "canonicalisation as specified\n";
  return 0;
}
