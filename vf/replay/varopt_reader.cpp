#include <var_opt_sketch.hpp>
#include <cstdio>
#include <cstdlib>
#include <cstring>
using namespace datasketches;
int main() {
  const unsigned char bytes[] = { @BYTES@ };
  const size_t size = @SIZE@;
  int rc = 0;
  if (size <= sizeof(bytes)) {
    unsigned char* img = (unsigned char*)malloc(size ? size : 1);
    memcpy(img, bytes, size);
    try { auto sk = var_opt_sketch<uint64_t>::deserialize(img, size); printf("accepted: n=%llu k=%u samples=%u\n", (unsigned long long)sk.get_n(), sk.get_k(), sk.get_num_samples());
          sk.update(12345, 1.0); printf("update after restore ok\n"); }
    catch (const std::invalid_argument& e) { printf("rejected: %s\n", e.what()); }
    catch (const std::out_of_range& e) { printf("rejected: %s\n", e.what()); }
    catch (const std::logic_error& e) { printf("restored sketch cannot be updated: %s\n", e.what()); rc = 1; }
    catch (const std::exception& e) { printf("rejected: %s\n", e.what()); }
    free(img);
  } else printf("replay input incomplete\n");
  // independent of the counterexample: a sketch serialized in estimation mode must accept updates after deserialization
  var_opt_sketch<uint64_t> a(16);
  for (uint64_t i = 0; i < 1000; i++) a.update(i, 1.0 + (i % 7));
  auto b = a.serialize();
  auto c = var_opt_sketch<uint64_t>::deserialize(b.data(), b.size());
  try { for (uint64_t i = 0; i < 100; i++) c.update(5000 + i, 2.0); printf("round trip then update ok: n=%llu\n", (unsigned long long)c.get_n()); }
  catch (const std::exception& e) { printf("round trip then update threw: %s\n", e.what()); rc = 1; }
  return rc;
}
