#include <iostream>
#include <vector>
#include <cstring>
#include <cstdlib>
#include "hll.hpp"
using namespace datasketches;
static void run(uint8_t* b, size_t n) { try { auto s = hll_sketch::deserialize(b, n); std::cout << "accepted lg_k=" << (int)s.get_lg_config_k() << "\n"; } catch (std::exception& e) { std::cout << "rejected: " << e.what() << "\n"; } }
int main(int argc, char** argv) {
  int which = atoi(argv[1]);
  if (which == 1) { // LIST image, compact flag, coupon count 200 (capacity of a list is 8)
    size_t n = 8 + 200 * 4; uint8_t* b = (uint8_t*)calloc(n, 1);
    b[0] = 2; b[1] = 1; b[2] = 7; b[3] = 12; b[4] = 3; b[5] = 8; b[6] = 200; b[7] = 0 | (2 << 2);
    run(b, n); free(b);
  }
  if (which == 2) { // HLL image with lg_k = 0
    size_t n = 40 + 64; uint8_t* b = (uint8_t*)calloc(n, 1);
    b[0] = 10; b[1] = 1; b[2] = 7; b[3] = 0; b[7] = 2 | (2 << 2);
    run(b, n); free(b);
  }
  if (which == 3) { // SET image, updatable, lg array size 32
    size_t n = 12 + 64; uint8_t* b = (uint8_t*)calloc(n, 1);
    b[0] = 3; b[1] = 1; b[2] = 7; b[3] = 12; b[4] = 32; b[5] = 0; b[7] = 1 | (2 << 2);
    run(b, n); free(b);
  }
  return 0;
}
