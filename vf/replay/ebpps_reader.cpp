// replay: an ebpps_sketch image = 40-byte preamble (k = 2^31-2... any valid k) + the counterexample's sample bytes
#include <ebpps_sketch.hpp>
#include <cstdio>
#include <cstdlib>
#include <cstring>
using namespace datasketches;
int main() {
  const unsigned char sample[] = { @BYTES@ };
  const size_t sample_size = @SIZE@;
  if (sample_size > sizeof(sample)) { printf("replay input incomplete\n"); return 0; }
  const size_t size = 40 + sample_size;
  unsigned char* img = (unsigned char*)malloc(size);
  memset(img, 0, 40);
  img[0] = 5; img[1] = 1; img[2] = 19; img[3] = (sample_size >= 8 ? 0 : 0);   // preamble longs 5, serial 1, family 19, flags set below
  const uint32_t k = 1000; memcpy(img + 4, &k, 4);
  const uint64_t n = 10; memcpy(img + 8, &n, 8);
  const double w = 10.0, wm = 1.0, rho = 1.0; memcpy(img + 16, &w, 8); memcpy(img + 24, &wm, 8); memcpy(img + 32, &rho, 8);
  memcpy(img + 40, sample, sample_size);
  for (int flags = 0; flags < 2; flags++) {   // without and with the HAS_PARTIAL_ITEM flag
    img[3] = flags ? 8 : 0;
    try { auto sk = ebpps_sketch<uint64_t>::deserialize(img, size); printf("accepted: c=%g\n", sk.get_c()); }
    catch (const std::bad_alloc&) { printf("allocation driven by the image failed (std::bad_alloc)\n"); free(img); return 1; }
    catch (const std::exception& e) { printf("rejected: %s\n", e.what()); }
  }
  free(img);
  return 0;
}
