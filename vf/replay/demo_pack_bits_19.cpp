#include <iostream>
#include <sstream>
#include <cstring>
#include <vector>
#include "theta_sketch.hpp"
using namespace datasketches;
int main() {
  // valid uncompressed (v3) ordered image with 16 hashes whose deltas need 19 bits
  const uint32_t n = 16;
  std::vector<uint8_t> img(24 + 8 * n, 0);
  img[0] = 3; img[1] = 3; img[2] = 3; img[5] = (1 << 1) | (1 << 3) | (1 << 4); // read-only, compact, ordered
  uint16_t sh = compute_seed_hash(DEFAULT_SEED); memcpy(&img[6], &sh, 2);
  memcpy(&img[8], &n, 4);
  uint64_t theta = 1ULL << 40; memcpy(&img[16], &theta, 8);
  uint64_t h = 0;
  for (uint32_t i = 0; i < n; i++) { h += (i < 8) ? 0x7ffff : 0x40000; memcpy(&img[24 + 8 * i], &h, 8); }
  auto s = compact_theta_sketch::deserialize(img.data(), img.size());
  auto bytes = s.serialize_compressed();
  std::stringstream ss; s.serialize_compressed(ss);
  std::string str = ss.str();
  bool same = str.size() == bytes.size() && memcmp(str.data(), bytes.data(), bytes.size()) == 0;
  std::cout << "entry bits " << (int)bytes[3] << " stream==bytes: " << same << "\n";
  std::stringstream in(str);
  auto s2 = compact_theta_sketch::deserialize(in);
  auto it2 = s2.begin(); bool eq = s2.get_num_retained() == s.get_num_retained();
  for (auto v : s) { if (it2 == s2.end() || *it2 != v) eq = false; if (it2 != s2.end()) ++it2; }
  std::cout << "stream round trip keeps entries: " << eq << "\n";
  return (same && eq) ? 0 : 1;
}
