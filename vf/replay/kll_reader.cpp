// replay: kll_sketch<float>::deserialize(bytes, size) on an exact-size heap buffer under ASan/UBSan; first 64 bytes from the counterexample, rest zero
#include <cstdlib>
#include <cstring>
#include <iostream>
#include "kll_sketch.hpp"
using namespace datasketches;
int main() {
  const size_t size = @SIZE@;
  static uint8_t img[65536 + 64] = {@BYTES@ 0};
  uint8_t* buf = static_cast<uint8_t*>(malloc(size ? size : 1)); memcpy(buf, img, size);
  try { auto s = kll_sketch<float>::deserialize(buf, size); std::cout << "accepted, n " << s.get_n() << "\n"; }
  catch (const std::exception& e) { std::cout << "rejected: " << e.what() << "\n"; }
  free(buf); return 0;
}
