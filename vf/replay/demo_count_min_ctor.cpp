#include <iostream>
#include "count_min.hpp"
using namespace datasketches;
int main() {
  // 128 hashes x 2^25 buckets = 2^32 cells: must be refused (>= 2^30)
  try {
    count_min_sketch<uint64_t> s(128, 1u << 25, 1);
    std::cout << "accepted: num_hashes=" << (int)s.get_num_hashes() << " num_buckets=" << s.get_num_buckets() << " cells=" << (s.end() - s.begin()) << "\n";
    return 1;
  } catch (std::exception& e) { std::cout << "refused: " << e.what() << "\n"; return 0; }
}
