// replay for unit hll_factory: deserializing a zero-length buffer must be refused, not read.
// The zero-length image is the empty tail of a 16-byte heap block, so the byte the reader looks at is the first byte past the block.
#include <hll.hpp>
#include <cstdio>
#include <cstdlib>
using namespace datasketches;
int main() {
  unsigned char* block = (unsigned char*)malloc(16);
  try { auto sk = hll_sketch::deserialize(block + 16, 0); printf("accepted\n"); }
  catch (const std::exception& e) { printf("rejected: %s\n", e.what()); }
  free(block);
  return 0;
}
