// replay for bit_array_ops: the real functions against the bitwise definition, exhaustively over all byte pairs (8-byte arrays)
#include <cstdint>
#include <cstring>
#include <bitset>
#include <iostream>
#include "bit_array_ops.hpp"
using namespace datasketches;
static uint64_t pc(const uint8_t* a, size_t n) { uint64_t c = 0; for (size_t i = 0; i < n; i++) c += __builtin_popcount(a[i]); return c; }
int main() {
  for (int t = 0; t < 256; t++) for (int s = 0; s < 256; s++) {
    uint8_t a[8], b[8], e[8];
    for (int i = 0; i < 8; i++) { a[i] = (uint8_t)(i % 2 ? t : ~t); b[i] = (uint8_t)(i % 3 ? s : 0); }
    uint8_t w[8]; uint64_t c;
    memcpy(w, a, 8); c = bit_array_ops::union_with(w, b, 8); for (int i = 0; i < 8; i++) e[i] = a[i] | b[i];
    if (memcmp(w, e, 8) || c != pc(e, 8)) { std::cout << "union_with wrong for tgt byte " << t << " src byte " << s << ": count " << c << " expected " << pc(e, 8) << "\n"; return 1; }
    memcpy(w, a, 8); c = bit_array_ops::intersect(w, b, 8); for (int i = 0; i < 8; i++) e[i] = a[i] & b[i];
    if (memcmp(w, e, 8) || c != pc(e, 8)) { std::cout << "intersect wrong for tgt byte " << t << " src byte " << s << "\n"; return 1; }
    memcpy(w, a, 8); c = bit_array_ops::invert(w, 8); for (int i = 0; i < 8; i++) e[i] = (uint8_t)~a[i];
    if (memcmp(w, e, 8) || c != pc(e, 8)) { std::cout << "invert wrong for byte " << t << "\n"; return 1; }
    memcpy(w, a, 8); c = bit_array_ops::count_num_bits_set(w, 8);
    if (c != pc(a, 8)) { std::cout << "count_num_bits_set wrong\n"; return 1; }
    for (uint64_t idx = 0; idx < 64; idx += 7) {
      memcpy(w, a, 8); bool was = (a[idx >> 3] >> (idx & 7)) & 1;
      bool r = bit_array_ops::get_and_set_bit(w, idx); memcpy(e, a, 8); e[idx >> 3] |= (uint8_t)(1 << (idx & 7));
      if (r != was || memcmp(w, e, 8)) { std::cout << "get_and_set_bit wrong at index " << idx << "\n"; return 1; }
      if (bit_array_ops::get_bit(w, idx) != true) { std::cout << "get_bit after set wrong\n"; return 1; }
      memcpy(w, a, 8); bit_array_ops::clear_bit(w, idx); memcpy(e, a, 8); e[idx >> 3] &= (uint8_t)~(1 << (idx & 7));
      if (memcmp(w, e, 8)) { std::cout << "clear_bit wrong\n"; return 1; }
    }
  }
  std::cout << "bit_array_ops agree with the bitwise definition on all byte pairs\n";
  return 0;
}
