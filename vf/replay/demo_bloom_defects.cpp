#include <iostream>
#include <unistd.h>
#include "bloom_filter.hpp"
using namespace datasketches;
int main(int argc, char** argv) {
  int which = atoi(argv[1]);
  if (which == 1) { // endless loop with num_hashes = 65535
    bloom_filter f = bloom_filter::builder::create_by_size(64, 65535, 1);
    alarm(5);
    f.update((uint64_t)1);
    std::cout << "update returned\n"; return 0;
  }
  if (which == 2) { // update then query_and_update of the same item -> false negative
    bloom_filter f = bloom_filter::builder::create_by_size(1024, 3, 1);
    f.update((uint64_t)42);
    bool was = f.query_and_update((uint64_t)42);
    bool q = f.query((uint64_t)42);
    std::cout << "query_and_update=" << was << " query=" << q << " is_empty=" << f.is_empty() << "\n";
    return (was && q) ? 0 : 1;
  }
  if (which == 3) { // non-const copy of a read-only wrap: union_with writes into the wrapped const memory
    bloom_filter a = bloom_filter::builder::create_by_size(1024, 3, 1); a.update((uint64_t)1);
    bloom_filter b = bloom_filter::builder::create_by_size(1024, 3, 1); b.update((uint64_t)2);
    auto img = a.serialize(); auto copy = img;
    bloom_filter ro(bloom_filter::wrap(img.data(), img.size()));
    bool threw = false;
    try { ro.union_with(b); } catch (std::exception&) { threw = true; }
    bool modified = img != copy;
    std::cout << "union_with on read-only view threw=" << threw << " memory modified=" << modified << "\n";
    return (threw && !modified) ? 0 : 1;
  }
  return 0;
}
