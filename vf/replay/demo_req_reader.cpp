#include <req_sketch.hpp>
#include <cstdio>
#include <cstdlib>
#include <cstring>
using namespace datasketches;
static void run(const char* what, const unsigned char* b, size_t n) {
  unsigned char* img = (unsigned char*)malloc(n); memcpy(img, b, n);
  printf("%s: ", what); fflush(stdout);
  try { auto sk = req_sketch<float>::deserialize(img, n); printf("accepted n=%llu retained=%u empty=%d\n", (unsigned long long)sk.get_n(), sk.get_num_retained(), (int)sk.is_empty());
        sk.update(1.0f); printf("  update ok, n=%llu\n", (unsigned long long)sk.get_n()); }
  catch (const std::exception& e) { printf("rejected: %s\n", e.what()); }
  free(img);
}
int main(int argc, char** argv) {
  // single compactor with zero items, sketch not flagged empty
  unsigned char a[28] = {2,1,17,0, 12,0, 1,0,  0,0,0,0,0,0,0,0, 0,0,64,65 /*12.0f*/, 0, 3, 0,0, 0,0,0,0};
  // num_levels = 0, not empty
  unsigned char b[8] = {2,1,17,0, 12,0, 0,0};
  if (argc > 1 && argv[1][0] == 'a') run("one compactor, 0 items", a, sizeof(a));
  else run("zero levels", b, sizeof(b));
  return 0;
}
