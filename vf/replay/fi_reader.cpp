#include <frequent_items_sketch.hpp>
#include <cstdio>
#include <cstdlib>
#include <cstring>
using namespace datasketches;
int main() {
  const unsigned char bytes[] = { @BYTES@ };
  const size_t size = @SIZE@;
  if (size > sizeof(bytes)) { printf("replay input incomplete\n"); return 0; }
  unsigned char* img = (unsigned char*)malloc(size ? size : 1);
  memcpy(img, bytes, size);
  try { auto sk = frequent_items_sketch<uint64_t>::deserialize(img, size); printf("accepted: active=%u\n", sk.get_num_active_items()); }
  catch (const std::exception& e) { printf("rejected: %s\n", e.what()); }
  free(img);
  return 0;
}
