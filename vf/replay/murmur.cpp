// replay: the real MurmurHash3_x64_128 of /repo vs the transcribed published definition (real multiplication) on the verifier's input
#include <cstdint>
#include <cstddef>
#include <cstring>
#include <iostream>
#include "MurmurHash3.h"
#define MUL(a, c) ((uint64_t)(a) * (uint64_t)(c))
#include "@SPEC@"
int main() {
  const uint8_t data[] = {@BYTES@ 0};
  const size_t len = @LEN@; const uint64_t seed = @SEED@ULL;
  if (sizeof(data) - 1 < len) { std::cout << "replay input incomplete\n"; return 0; }
  HashState out; uint64_t s1, s2;
  MurmurHash3_x64_128(data, len, seed, out);
  spec_murmur3_x64_128(data, len, seed, &s1, &s2);
  if (out.h1 != s1 || out.h2 != s2) { std::cout << "hash differs from the published definition for len=" << len << "\n"; return 1; }
  std::cout << "equal on this input\n"; return 0;
}
