#include <density_sketch.hpp>
#include <cstdio>
#include <cstdlib>
#include <cstring>
using namespace datasketches;
int main() {
  const unsigned char bytes[] = { @BYTES@ };
  const size_t size = @SIZE@;
  if (size > sizeof(bytes)) { printf("replay input incomplete\n"); return 0; }
  unsigned char* img = (unsigned char*)malloc(size ? size : 1);
  memcpy(img, bytes, size);
  try { auto sk = density_sketch<float>::deserialize(img, size); printf("accepted: n=%llu retained=%u\n", (unsigned long long)sk.get_n(), sk.get_num_retained()); }
  catch (const std::exception& e) { printf("rejected: %s\n", e.what()); }
  free(img);
  return 0;
}
