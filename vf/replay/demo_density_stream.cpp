#include <density_sketch.hpp>
#include <sstream>
#include <cstdio>
#include <vector>
using namespace datasketches;
// replay for unit density_stream_reader: a stream cut inside the image must be refused with the stream error, not by luck of an indeterminate level size
int main(int argc, char** argv) {
  density_sketch<float> sk(10, 2);
  for (int i = 0; i < 30; i++) sk.update(std::vector<float>{(float)i, (float)(i * 2)});
  std::stringstream ss; sk.serialize(ss);
  std::string s = ss.str();
  const size_t cut = argc > 1 ? atoi(argv[1]) : 24;
  std::istringstream is(s.substr(0, cut));   // the stream ends right after the preamble (24 bytes)
  printf("image %zu bytes, stream cut to %zu\n", s.size(), cut); fflush(stdout);
  try { auto r = density_sketch<float>::deserialize(is); printf("accepted: retained=%u\n", r.get_num_retained()); }
  catch (const std::runtime_error& e) { printf("rejected: %s\n", e.what()); return std::string(e.what()).find("istream") == std::string::npos; }
  catch (const std::exception& e) { printf("failed differently: %s\n", e.what()); return 1; }
  return 1;
}
