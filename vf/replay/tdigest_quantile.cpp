// replay for unit tdigest / get_quantile: the interpolation obligation has no single-call witness that can be rebuilt from a counterexample (the centroids are internal state),
// so the driver checks its observable consequence on the real class: quantiles of a sorted stream must not decrease with the rank.
#include <tdigest.hpp>
#include <cstdio>
using namespace datasketches;
int main() {
  int bad = 0;
  for (int k : {10, 100, 200}) {
    tdigest<double> t(k);
    for (int i = 0; i < 100000; i++) t.update((double)i);
    double prev = t.get_quantile(0);
    for (int i = 1; i <= 20000; i++) {
      const double r = i / 20000.0;
      const double q = t.get_quantile(r);
      if (q < prev) { if (bad < 5) printf("k=%d: get_quantile(%.5f)=%.4f < get_quantile(%.5f)=%.4f\n", k, r, q, (i - 1) / 20000.0, prev); bad++; }
      prev = q;
    }
  }
  printf("non-monotone steps: %d\n", bad);
  return bad ? 1 : 0;
}
