// replay: the real XXHash64::hash of /repo vs the transcribed published XXH64 (real multiplication) on the verifier's input
#include <cstdint>
#include <cstddef>
#include <cstring>
#include <iostream>
#include "xxhash64.h"
#define MUL(a, c) ((uint64_t)(a) * (uint64_t)(c))
#include "@SPEC@"
int main() {
  const uint8_t data[] = {@BYTES@ 0};
  const uint64_t len = @LEN@; const uint64_t seed = @SEED@ULL;
  if (sizeof(data) - 1 < len) { std::cout << "replay input incomplete\n"; return 0; }
  uint64_t r = XXHash64::hash(data, len, seed), s = spec_xxh64(data, len, seed);
  if (r != s) { std::cout << "hash differs from the published definition for len=" << len << "\n"; return 1; }
  std::cout << "equal on this input\n"; return 0;
}
