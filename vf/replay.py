#!/usr/bin/env python3
"""Replay of verifier counterexamples against the real C++ code (DESIGN.md 3.4)."""
import json
import os
import re
import subprocess
import time

HERE = os.path.dirname(os.path.abspath(__file__))
VERIF = os.path.dirname(HERE)
REPO = os.environ.get("VERIF_REPO", "/repo")
INCS = ["common", "theta", "tuple", "hll", "cpc", "kll", "req", "quantiles", "fi", "count", "sampling", "tdigest",
        "filters", "density"]


def make_replay(prop, unit, job, failures, geninfo):
    """failures: [(jobresult, failed-obligation)].  Writes /verif/replay/<prop>_<unit>_<job>.json and, when the unit
    names a replay driver, instantiates it with the counterexample and runs it against the real headers.
    Returns (path, confirmed)."""
    os.makedirs(os.path.join(VERIF, "replay"), exist_ok=True)
    safe = re.sub(r"[^\w.]", "_", "%s_%s_%s" % (prop, unit["id"], job["name"]))
    path = os.path.join(VERIF, "replay", safe + ".json")
    rec = {"property": prop, "unit": unit["id"], "job": job["name"], "time": time.strftime("%Y-%m-%dT%H:%M:%S"),
           "functions": [{"name": f["name"], "file": f["file"], "lines": f["lines"]} for f in geninfo["functions"]],
           "failed_obligations": [{"name": f["name"], "description": f["desc"], "where": f["loc"],
                                   "counterexample": f.get("trace")} for (_, f) in failures],
           "verifier_cmds": failures[0][0].get("cmds"), "replay": None}
    confirmed = False
    drv = (unit.get("replay") or {}).get(job["name"]) or (unit.get("replay") or {}).get("*")
    if drv:
        for (_, f) in failures:
            if not f.get("trace") and drv.get("vars"):
                continue
            try:
                ok, text = run_driver(drv, f.get("trace") or {}, safe, job)
            except Exception as e:  # replay machinery problem: never a confirmation
                ok, text = False, "replay driver error: %r" % (e,)
            rec["replay"] = {"driver": drv.get("template"), "obligation": f["name"], "confirmed": ok, "output": text[-4000:]}
            if ok:
                confirmed = True
                break
    else:
        rec["replay"] = {"confirmed": False, "output": "no replay driver for this unit: the failed obligation and the "
                         "verifier's counterexample values are recorded above (no-failing-input-found)"}
    with open(path, "w") as fh:
        json.dump(rec, fh, indent=1)
    return path, confirmed


def run_driver(drv, trace, safe, job):
    """drv: dict(template=<file under vf/replay>, vars={placeholder: python-expression over t (trace dict) and helper fns})"""
    tpl = open(os.path.join(HERE, "replay", drv["template"])).read()
    env = {"t": trace, "val": lambda name, d=0: _val(trace, name, d), "arr": lambda name, n=None: _arr(trace, name, n),
           "job": job, "bytes_of": lambda prefix, n: _bytes_of(trace, prefix, n), "rawbits": _rawbits}
    for ph, expr in drv["vars"].items():
        v = eval(expr, {}, env)
        tpl = tpl.replace("@" + ph + "@", str(v))
    work = os.path.join(os.environ.get("VERIF_SCRATCH", os.path.join(VERIF, ".scratch")), "replay_" + safe)
    os.makedirs(work, exist_ok=True)
    src = os.path.join(work, "replay.cpp")
    exe = os.path.join(work, "replay")
    open(src, "w").write(tpl)
    cmd = ["clang++", "-std=c++11", "-g", "-O0", "-fsanitize=address,undefined", "-fno-sanitize-recover=all",
           "-DDATASKETCHES_VERIF"] + ["-I%s/%s/include" % (REPO, d) for d in INCS] + [src, "-o", exe]
    p = subprocess.run(cmd, capture_output=True, text=True, timeout=300)
    if p.returncode != 0:
        return False, "replay driver did not compile:\n" + p.stderr[-3000:]
    p = subprocess.run([exe], capture_output=True, text=True, timeout=120,
                       env=dict(os.environ, ASAN_OPTIONS="detect_leaks=0"))
    out = (p.stdout + p.stderr)
    # convention: the driver exits 0 when the real code behaves as the contract says, non-zero (or sanitizer abort) otherwise
    return p.returncode != 0, "exit=%d\n%s" % (p.returncode, out)


def _rawbits(trace, name):
    """integer whose low bytes are the object representation of a scalar harness variable (ints directly, FP via struct)"""
    import struct
    v = trace.get(name)
    s = str(v)
    m = re.match(r"^(-?\d+)[uUlL]*$", s)
    if m:
        return int(m.group(1)) & 0xFFFFFFFFFFFFFFFF
    try:
        f = float(s.rstrip("fF"))
    except ValueError:
        f = float("nan") if "nan" in s.lower() else (float("inf") if "inf" in s.lower() else 0.0)
        if s.strip().startswith("-") and f == f:
            f = -f
    if s.rstrip().endswith(("f", "F")):
        return struct.unpack("<I", struct.pack("<f", f))[0]
    return struct.unpack("<Q", struct.pack("<d", f))[0]


def _num(s):
    if isinstance(s, (int, float)):
        return s
    s = str(s)
    m = re.match(r"^-?\d+$", s)
    if m:
        return int(s)
    if s in ("TRUE", "true"):
        return 1
    if s in ("FALSE", "false"):
        return 0
    m = re.match(r"^(-?\d+)[uUlL]*$", s)
    if m:
        return int(m.group(1))
    try:
        return float(s)
    except ValueError:
        return s


def _val(trace, name, default=0):
    for k in (name,):
        if k in trace:
            return _num(trace[k])
    return default


def _arr(trace, name, n=None):
    v = trace.get(name)
    base = [_num(x) for x in v] if isinstance(v, list) else None
    out = {}
    for k, x in trace.items():
        m = re.match(re.escape(name) + r"\[(\d+)[lLuU]*\]$", k)
        if m:
            out[int(m.group(1))] = _num(x)
    if base is not None:       # whole-array value (often the initial nondet one) overlaid with the element-wise assignments
        for i, x in out.items():
            if i < len(base):
                base[i] = x
        return base if n is None else (base + [0] * n)[:n]
    if not out and n is None:
        return []
    size = n if n is not None else max(out) + 1
    return [out.get(i, 0) for i in range(size)]


def _bytes_of(trace, prefix, n):
    """bytes of the first dynamic object whose name starts with prefix (is_fresh buffers)"""
    a = _arr(trace, prefix, n)
    return ",".join(str(int(x) & 255) for x in a) if a else ""


def replay_file(path):
    rec = json.load(open(path))
    print(json.dumps(rec.get("replay"), indent=1))
    print("failed obligations:")
    for f in rec["failed_obligations"]:
        print("  -", f["name"], "|", f["description"], "|", f["where"])
    return 1 if (rec.get("replay") or {}).get("confirmed") else 0
