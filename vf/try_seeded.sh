#!/bin/bash
# usage: try_seeded.sh <seeded-id e.g. C01-m1> [check args]  -- applies the seeded patch to /repo, runs the property's quick check, restores /repo
ID=$1; shift; P=${ID%%-*}
cd /verif
git -C /repo diff --quiet || { echo "/repo not clean"; exit 3; }
git -C /repo apply /verif/seeded/$ID/patch.diff || { echo "patch does not apply"; exit 3; }
./check $P --no-evidence "$@" > /tmp/try_$ID.log 2>&1; RC=$?
git -C /repo checkout -- .
grep -E "^(VIOLATION|UNDECIDED|KNOWN)" /tmp/try_$ID.log | cut -c1-400
echo "seeded $ID -> check exit $RC"
