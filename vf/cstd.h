/* vf/cstd.h - common prelude of every generated translation unit.
 * Nothing here is code of /repo; it is the (small, auditable) C rendering of the C++ runtime
 * facilities the extraction rewrites to.  Every item is listed in DESIGN.md 3.1 and in the
 * `assumptions` of each evidence file. */
#ifndef VF_CSTD_H
#define VF_CSTD_H
#include <stdint.h>
#include <stddef.h>
#include <stdbool.h>
#include <string.h>
#include <stdlib.h>
#include <math.h>
#include <limits.h>

/* exception model: throw = set flag + return; callers test the flag (VERIF_PROPAGATE) */
int verif_exc;
/* VERIF_UNWIND: what stack unwinding runs on the throwing path of the current function (destructors of RAII owners such as std::unique_ptr,
   rendered per function by the extraction rules; empty by default) */
#define VERIF_THROW do { verif_exc = 1; VERIF_UNWIND; return VERIF_RV; } while (0)
#define VERIF_PROPAGATE do { if (verif_exc) { VERIF_UNWIND; return VERIF_RV; } } while (0)
#define VERIF_RV
#define VERIF_UNWIND

/* vacuity canary: with -DVERIF_CANARY the end of every harness must be reachable */
#ifdef VERIF_CANARY
#define VERIF_CANARY_POINT __CPROVER_assert(0, "VERIF_CANARY end of harness reachable")
#else
#define VERIF_CANARY_POINT
/* mem-initializer 'a(expr)' of an extracted constructor -> self->a = CTOR_INIT(expr) */
#define CTOR_INIT(e) (e)

#endif

/* std::min / std::max on the integer and FP types used by the extracted code */
#define VMIN(a, b) ((b) < (a) ? (b) : (a))
#define VMAX(a, b) ((a) < (b) ? (b) : (a))

/* allocator model: allocate(n) never fails; deallocate(p, n) must name a live block of exactly
 * that size (C19 "matching sizes on release") */
static inline void *verif_alloc(size_t bytes) {
  void *p = malloc(bytes);
  __CPROVER_assume(p != NULL);
  return p;
}
static inline void verif_free(void *p, size_t bytes) {
  __CPROVER_assert(p != NULL, "VERIF deallocate: pointer is a live block");
  __CPROVER_assert(__CPROVER_POINTER_OFFSET(p) == 0, "VERIF deallocate: pointer is the block start");
  __CPROVER_assert(__CPROVER_OBJECT_SIZE(p) == bytes, "VERIF deallocate: size equals the allocated size");
  free(p);
}

/* nondeterministic sources */
uint64_t nondet_u64(void);
uint32_t nondet_u32(void);
uint8_t nondet_u8(void);
_Bool nondet_bool(void);
size_t nondet_size(void);
double nondet_double(void);

/* mem-initializer 'a(expr)' of an extracted constructor -> self->a = CTOR_INIT(expr) */
#define CTOR_INIT(e) (e)

#endif
