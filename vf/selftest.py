#!/usr/bin/env python3
"""setup_cmd: verifies that the offline tool chain the checks need is present and that the contract pipeline
works on a 10-line function (a proof must succeed, a broken twin must fail)."""
import os, shutil, subprocess, sys, tempfile
need = ["cbmc", "goto-cc", "goto-instrument", "kissat", "clang++", "python3"]
missing = [t for t in need if shutil.which(t) is None]
if missing:
    print("missing tools:", missing); sys.exit(1)
src = r'''
#include <stdint.h>
uint32_t f(uint32_t a) __CPROVER_requires(a < 100) __CPROVER_ensures(__CPROVER_return_value == a + 1 + BUG) __CPROVER_assigns() { return a + 1; }
void h(void) { uint32_t a; f(a); }
'''
d = tempfile.mkdtemp(prefix="vfself")
try:
    open(os.path.join(d, "t.c"), "w").write(src)
    def run(bug):
        subprocess.check_call(["goto-cc", "--function", "h", "-DBUG=%d" % bug, "t.c", "-o", "a.gb"], cwd=d, stdout=subprocess.DEVNULL, stderr=subprocess.DEVNULL)
        subprocess.check_call(["goto-instrument", "--dfcc", "h", "--enforce-contract", "f", "a.gb", "b.gb"], cwd=d, stdout=subprocess.DEVNULL, stderr=subprocess.DEVNULL)
        return subprocess.call(["cbmc", "b.gb", "--external-sat-solver", "kissat"], cwd=d, stdout=subprocess.DEVNULL, stderr=subprocess.DEVNULL)
    ok = run(0) == 0 and run(1) == 10
finally:
    shutil.rmtree(d, ignore_errors=True)
print("selftest", "ok" if ok else "FAILED")
sys.exit(0 if ok else 1)
