#!/bin/bash
# usage: confirm_seeded.sh <Cnn> <mK>   -- confirms a sub-agent mutation in its scratch worktree and files it under /verif/seeded
# (1) patch applies to clean HEAD (2) library builds and the whole existing suite passes with it
# (3) demo exits non-zero with the patch (4) demo exits 0 without it
P=$1; M=$2; WT=/tmp/wt_$P; D=$WT/mutations/$M; OUT=/verif/seeded/$P-$M
LOG=/tmp/confirm_$P-$M.log; : > $LOG
INC=$(for d in common theta tuple hll cpc kll req quantiles fi count sampling tdigest filters density; do echo -n "-I$WT/$d/include "; done)
fail() { echo "CONFIRM-FAILED $P $M: $1" | tee -a $LOG; git -C $WT checkout -- . ; exit 1; }
[ -f $D/patch.diff ] || fail "no patch.diff"
DEMO=$(ls $D/demo.cpp $D/*.cpp 2>/dev/null | head -1); [ -n "$DEMO" ] || fail "no demo"
git -C $WT checkout -- . ; git -C $WT apply --check $D/patch.diff >>$LOG 2>&1 || fail "patch does not apply"
SAN=""; grep -qi "sanitize\|asan\|heap-buffer" $D/README.md 2>/dev/null && SAN="-fsanitize=address,undefined -fno-sanitize-recover=all"
build_demo() { clang++ -std=c++11 -O1 -g $SAN $INC $DEMO -o $WT/mutations/$M/demo.$1 >>$LOG 2>&1; }
build_demo clean || fail "demo does not compile on clean tree"
( cd $D && ASAN_OPTIONS=detect_leaks=0 timeout 600 ./demo.clean >>$LOG 2>&1 ); RC_CLEAN=$?
git -C $WT apply $D/patch.diff || fail "apply"
build_demo mut || fail "demo does not compile with patch"
( cd $D && ASAN_OPTIONS=detect_leaks=0 timeout 600 ./demo.mut >>$LOG 2>&1 ); RC_MUT=$?
if [ ! -d $WT/_build ]; then cmake -G Ninja -S $WT -B $WT/_build -DBUILD_TESTS=ON -DCMAKE_BUILD_TYPE=RelWithDebInfo -DFETCHCONTENT_TRY_FIND_PACKAGE_MODE=ALWAYS -DFETCHCONTENT_UPDATES_DISCONNECTED=ON >>$LOG 2>&1 || fail "cmake"; fi
cmake --build $WT/_build -j${JOBS:-8} >>$LOG 2>&1 || fail "library+tests do not build with patch"
ctest --test-dir $WT/_build -j8 --timeout 900 >>$LOG 2>&1; RC_T=$?
git -C $WT checkout -- .
rm -f $D/demo.clean $D/demo.mut
echo "clean=$RC_CLEAN mut=$RC_MUT tests=$RC_T" | tee -a $LOG
[ $RC_CLEAN -eq 0 ] || fail "demo fails on clean tree (rc=$RC_CLEAN)"
[ $RC_MUT -ne 0 ] || fail "demo passes with the patch"
[ $RC_T -eq 0 ] || fail "existing suite fails with the patch"
mkdir -p $OUT; cp $D/patch.diff $OUT/; cp $DEMO $OUT/demo.cpp; cp $D/README.md $OUT/README.md 2>/dev/null
python3 - "$P" "$M" "$OUT" "$SAN" <<'PY'
import json,sys,re
p,m,out,san=sys.argv[1:5]
readme=open(out+'/README.md').read() if True else ''
patch=open(out+'/patch.diff').read()
files=sorted(set(re.findall(r'^\+\+\+ b/(\S+)',patch,re.M)))
meta={"property":p,"id":p+"-"+m,"files_changed":files,
 "needs_to_manifest":"see README.md (sub-agent's description of the specific input/state/sequence needed)",
 "confirmed_by":"vf/confirm_seeded.sh in scratch worktree /tmp/wt_%s: patch applies to clean HEAD; cmake --build all tests + ctest 16/16 pass with patch; demo.cpp exits non-zero with patch and 0 without"%p,
 "demo_build":"clang++ -std=c++11 -O1 -g %s -I<repo>/*/include demo.cpp"%san,
 "origin":"independent sub-agent given only the property text"}
json.dump(meta,open(out+'/meta.json','w'),indent=1)
PY
echo "CONFIRMED $P $M" | tee -a $LOG
