#!/usr/bin/env python3
"""Obligation runner: extraction -> goto-cc -> goto-instrument (dfcc contracts) -> cbmc,
vacuity canaries, outcome mapping, known-findings, replay, evidence.  See DESIGN.md 3.3."""
import concurrent.futures as cf
import glob
import hashlib
import importlib.util
import json
import os
import re
import resource
import shutil
import subprocess
import sys
import time

HERE = os.path.dirname(os.path.abspath(__file__))
VERIF = os.path.dirname(HERE)
sys.path.insert(0, HERE)
sys.path.insert(0, os.path.join(VERIF, "contracts"))
import extract  # noqa: E402

DEFAULT_CHECKS = ["--bounds-check", "--pointer-check", "--div-by-zero-check", "--signed-overflow-check",
                  "--undefined-shift-check"]
MEM_LIMIT = int(os.environ.get("VERIF_MEM_GB", "10")) * (1 << 30)
NPROC = int(os.environ.get("VERIF_JOBS", str(os.cpu_count() or 8)))


def _limits(mem=None):
    def f():
        lim = mem or MEM_LIMIT
        resource.setrlimit(resource.RLIMIT_AS, (lim, lim))
        os.setsid()
    return f


def sh(cmd, timeout, cwd=None, mem_gb=None):
    t0 = time.time()
    try:
        p = subprocess.Popen(cmd, stdout=subprocess.PIPE, stderr=subprocess.PIPE, cwd=cwd, preexec_fn=_limits(mem_gb * (1 << 30) if mem_gb else None))
        try:
            out, err = p.communicate(timeout=timeout)
        except subprocess.TimeoutExpired:
            try:
                os.killpg(p.pid, 9)
            except OSError:
                pass
            p.kill()
            p.communicate()
            return None, "", "TIMEOUT after %ss" % timeout, time.time() - t0
        return p.returncode, out.decode(errors="replace"), err.decode(errors="replace"), time.time() - t0
    except OSError as e:
        return -1, "", str(e), time.time() - t0


# --------------------------------------------------------------------------- units
def load_units(prop):
    units = []
    for path in sorted(glob.glob(os.path.join(VERIF, "contracts", prop, "*.py"))):
        spec = importlib.util.spec_from_file_location("unit_" + os.path.basename(path)[:-3], path)
        mod = importlib.util.module_from_spec(spec)
        spec.loader.exec_module(mod)
        us = getattr(mod, "UNITS", None) or [mod.UNIT]
        for u in us:
            u["_path"] = path
            units.append(u)
    return units


def generate(unit, scratch):
    """emit the C translation unit of a contract unit; returns (path, info)"""
    parts_text = ['#include "cstd.h"\n']
    info = {"functions": [], "consts": [], "ghost_or_spec_parts": 0}
    for c in unit.get("consts", []):
        if "pattern" in c:
            t, infos = extract.extract_const_block(c)
            parts_text.append(t)
            info["consts"].extend(infos)
            continue
        t, i = extract.extract_const(c)
        parts_text.append(t)
        info["consts"].append(i)
    if unit.get("prelude"):
        parts_text.append(unit["prelude"])
    for chk in unit.get("member_checks", []):
        extract.check_members(chk["file"], chk["members"])
    for part in unit["parts"]:
        if "raw" in part:
            parts_text.append(part["raw"])
            info["ghost_or_spec_parts"] += 1
        elif "begin" in part:
            ex = extract.extract_region(part)
            parts_text.append(ex.text)
            info["functions"].append(ex.info)
        else:
            ex = extract.extract_function(part)
            parts_text.append(ex.text)
            info["functions"].append(ex.info)
    parts_text.append("#undef VERIF_RV\n#define VERIF_RV\n#undef VERIF_UNWIND\n#define VERIF_UNWIND\n")
    parts_text.append(unit.get("harness", ""))
    text = "\n".join(parts_text)
    path = os.path.join(scratch, unit["id"] + ".c")
    with open(path, "w") as f:
        f.write(text)
    info["loops_vanished"] = any("loop contracts dropped" in r for f in info["functions"] for r in f.get("rules_fired", []))
    info["assume_count"] = len(re.findall(r"__CPROVER_assume", text))
    info["c_sha256"] = hashlib.sha256(text.encode()).hexdigest()
    return path, info


# --------------------------------------------------------------------------- cbmc pipeline
def parse_cbmc_json(out):
    try:
        data = json.loads(out)
    except ValueError:
        # truncated output: try to salvage
        return None, None, ["unparseable cbmc json"]
    results = None
    msgs = []
    status = None
    for el in data:
        if "result" in el:
            results = el["result"]
        elif "property" in el and "status" in el:   # --stop-on-fail form
            results = (results or []) + [el]
        if "messageText" in el:
            msgs.append(el["messageText"])
        if "cProverStatus" in el:
            status = el["cProverStatus"]
    return results, status, msgs


def run_job(unit, job, cfile, scratch, canary=False, loops_vanished=False):
    """returns dict(name, status in {ok, fail, undecided}, props=[...], failed=[...], secs, detail)"""
    tag = unit["id"] + "." + job["name"] + (".canary" if canary else "")
    safe = re.sub(r"[^\w.]", "_", tag)
    a_gb = os.path.join(scratch, safe + ".a.gb")
    b_gb = os.path.join(scratch, safe + ".b.gb")
    res = {"unit": unit["id"], "job": job["name"], "canary": canary, "kind": job.get("kind", "proved"),
           "bound": job.get("bound"), "status": "undecided", "props": [], "failed": [], "secs": 0.0, "detail": "",
           "backend": "cbmc built-in SAT (minisat2)" if canary else (job.get("solver") or "kissat")}
    timeout = job.get("timeout", 120)
    defs = ["-D%s=%s" % (k, v) for k, v in job.get("defines", {}).items()]
    if canary:
        defs.append("-DVERIF_CANARY")
    t0 = time.time()
    cmd = ["goto-cc", "-I", HERE, "--function", job["entry"], cfile, "-o", a_gb] + defs
    rc, out, err, _ = sh(cmd, 120)
    cmds = [" ".join(cmd)]
    if rc != 0:
        res["detail"] = "goto-cc failed: " + (err + out)[-1500:]
        res["secs"] = time.time() - t0
        res["cmds"] = cmds
        return res
    use_dfcc = job.get("enforce") or job.get("replace") or job.get("loops")
    gb = a_gb
    if use_dfcc:
        cmd = ["goto-instrument", "--dfcc", job["entry"]]
        if job.get("enforce"):
            cmd += ["--enforce-contract", job["enforce"]]
        ctext = open(cfile).read()
        for r in job.get("replace", []):
            # a callee that is declared but no longer called anywhere (e.g. the call was edited away in /repo) cannot be replaced
            if len(re.findall(r"\b%s\b" % re.escape(r), ctext)) < 2:
                continue
            cmd += ["--replace-call-with-contract", r]
        if job.get("loops"):
            cmd += ["--apply-loop-contracts"]
        cmd += [a_gb, b_gb]
        rc, out, err, _ = sh(cmd, 300)
        cmds.append(" ".join(cmd))
        if rc != 0:
            res["detail"] = "goto-instrument failed: " + (err + out)[-2500:]
            res["secs"] = time.time() - t0
            res["cmds"] = cmds
            return res
        gb = b_gb
    cmd = ["cbmc", gb, "--json-ui"]
    checks = job.get("checks", DEFAULT_CHECKS)
    if canary:
        cmd += ["--no-standard-checks", "--stop-on-fail"]
    else:
        cmd += checks + ["--trace"]
    if job.get("unwind"):
        cmd += ["--unwind", str(job["unwind"]), "--unwinding-assertions"]
    if job.get("object_bits"):
        cmd += ["--object-bits", str(job["object_bits"])]
    solver = job.get("solver", "kissat")
    if canary:
        pass   # reachability canaries are satisfiable instances: the built-in solver finds a model fastest
    elif solver == "kissat":
        cmd += ["--external-sat-solver", "kissat"]
    elif solver == "cvc5":
        cmd += ["--cvc5"]
    elif solver == "z3":
        cmd += ["--z3"]
    cmd += job.get("cbmc_args", [])
    rc, out, err, _ = sh(cmd, timeout, mem_gb=job.get("mem_gb"))
    cmds.append(" ".join(cmd))
    res["cmds"] = cmds
    res["secs"] = time.time() - t0
    if rc is None:
        res["detail"] = "cbmc " + err
        return res
    results, status, msgs = parse_cbmc_json(out)
    if results is None:
        res["detail"] = "cbmc gave no result list (rc=%s): %s" % (rc, " | ".join(msgs[-6:]) + err[-800:])
        return res
    # C++14 [expr.shift] (CWG 1457): a signed left shift whose result fits the corresponding unsigned type is defined;
    # cbmc's C rule would flag e.g. (uint8_t)63 << 26.  These obligations are dropped (shift-distance checks stay on).
    results = [r for r in results if "arithmetic overflow on signed shl" not in (r.get("description") or "")]
    ign = [m for m in msgs if "ignoring" in m]
    if ign:
        res["detail"] = "cbmc ignored a construct: " + ign[0]
        return res
    res["props"] = [{"name": r.get("property"), "desc": r.get("description"), "status": r.get("status"),
                     "loc": _loc(r)} for r in results]
    failed = [r for r in results if r.get("status") != "SUCCESS"]
    res["failed"] = [{"name": r.get("property"), "desc": r.get("description"), "status": r.get("status"),
                      "loc": _loc(r), "trace": _trace_inputs(r.get("trace"))} for r in failed]
    if canary:
        can = [r for r in results if "VERIF_CANARY" in (r.get("description") or "")]
        if not can:
            res["detail"] = "canary not confirmed: first failing obligation was %s" % (results[0].get("description") if results else "none")
        elif all(str(r.get("status")).upper() in ("FAILURE", "FAILED") for r in can):
            res["status"] = "ok"   # reachable, as it must be
        else:
            res["detail"] = "VACUOUS: canary assertion not reachable (contradictory preconditions / assumptions)"
        return res
    if job.get("loops") and job.get("expect_loop_steps") and not loops_vanished:
        steps = [r for r in results if "loop_invariant_step" in (r.get("property") or "") or
                 "invariant after step" in (r.get("description") or "").lower() or
                 "is preserved" in (r.get("description") or "")]
        if len(steps) < job["expect_loop_steps"]:
            res["detail"] = "loop contract silently dropped: %d loop-invariant step obligations, expected >= %d" % (
                len(steps), job["expect_loop_steps"])
            return res
    if not results:
        res["detail"] = "zero obligations generated"
        return res
    hard = [r for r in failed if r.get("status") == "FAILURE"]
    if hard:
        # obligations reported UNKNOWN next to a FAILURE are not evaluated by cbmc once a goal failed; report the failures only
        res["failed"] = [f for f in res["failed"] if f["status"] == "FAILURE"]
        res["status"] = "fail"
        return res
    if failed:
        res["detail"] = "obligation with status %s" % failed[0].get("status")
        return res
    res["status"] = "ok"
    return res


def _loc(r):
    sl = r.get("sourceLocation") or {}
    if not sl:
        return ""
    return "%s:%s %s" % (os.path.basename(sl.get("file", "")), sl.get("line", ""), sl.get("function", ""))


def _trace_inputs(trace):
    """condense a cbmc json trace to {lhs: value} of the last assignment to each harness-visible lvalue"""
    if not trace:
        return None
    vals = {}
    for st in trace:
        if st.get("stepType") != "assignment":
            continue
        lhs = st.get("lhs")
        v = st.get("value", {})
        if lhs is None or st.get("hidden") and not lhs.startswith("dynamic_object"):
            continue
        if "data" in v:
            vals[lhs] = v["data"]
        elif "elements" in v or "members" in v:
            vals[lhs] = _flatten(v)
    return vals


def _flatten(v):
    if "data" in v:
        return v["data"]
    if "elements" in v:
        return [_flatten(e.get("value", {})) for e in v["elements"]]
    if "members" in v:
        return {m.get("name"): _flatten(m.get("value", {})) for m in v["members"]}
    return None


# --------------------------------------------------------------------------- known findings
def load_known():
    path = os.path.join(VERIF, "known_findings.txt")
    entries = []
    if os.path.exists(path):
        for line in open(path):
            line = line.strip()
            if line.startswith("finding:"):
                kv = dict(re.findall(r'(\w+)=("[^"]*"|\S+)', line))
                kv = {k: v.strip('"') for k, v in kv.items()}
                entries.append(kv)
    return entries


def match_known(known, prop, unit_id, job, f):
    for k in known:
        if k.get("property") != prop or k.get("unit") != unit_id or k.get("job") != job:
            continue
        if k.get("obligation") and k["obligation"] not in (f.get("desc") or "") + " " + (f.get("name") or ""):
            continue
        if k.get("site") and k["site"] not in (f.get("loc") or ""):
            continue
        return k
    return None


# --------------------------------------------------------------------------- main
def main(argv):
    import argparse
    ap = argparse.ArgumentParser()
    ap.add_argument("prop")
    ap.add_argument("--tier", default=os.environ.get("VERIF_TIER", "quick"))
    ap.add_argument("--unit", default=None, help="only this unit id (debugging)")
    ap.add_argument("--job", default=None, help="only jobs whose name matches this regex (debugging)")
    ap.add_argument("--keep", action="store_true")
    ap.add_argument("--no-evidence", action="store_true")
    ap.add_argument("--replay", default=None)
    args = ap.parse_args(argv)
    prop = args.prop
    tier = "thorough" if args.tier == "thorough" else "quick"
    seed = int(os.environ.get("VERIF_SEED", "0") or 0)
    t_start = time.time()
    if args.replay:
        import replay as rp
        return rp.replay_file(args.replay)

    scratch = os.path.join(os.environ.get("VERIF_SCRATCH", os.path.join(VERIF, ".scratch")),
                           "%s-%s-%d" % (prop, tier, os.getpid()))
    shutil.rmtree(scratch, ignore_errors=True)
    os.makedirs(scratch)
    try:
        rc = _run(prop, tier, seed, args, scratch, t_start)
    finally:
        if not args.keep:
            shutil.rmtree(scratch, ignore_errors=True)
    return rc


def _run(prop, tier, seed, args, scratch, t_start):
    units = load_units(prop)
    if args.unit:
        units = [u for u in units if u["id"] == args.unit]
    if not units:
        print("no contract units for", prop)
        return 2
    undecided = []
    gen = {}
    for u in units:
        try:
            gen[u["id"]] = generate(u, scratch)
        except extract.ExtractionBroken as e:
            print("EXTRACTION-BROKEN unit=%s: %s" % (u["id"], e))
            undecided.append({"unit": u["id"], "job": "-", "detail": "EXTRACTION-BROKEN: %s" % e})
    tasks = []
    for u in units:
        if u["id"] not in gen:
            continue
        for j in u["jobs"]:
            if j.get("tier", "quick") == "thorough" and tier != "thorough":
                continue
            if j.get("tier") == "quick-only" and tier == "thorough":
                continue
            if args.job and not re.search(args.job, j["name"]):
                continue
            tasks.append((u, j, False))
            if j.get("canary", True):
                tasks.append((u, j, True))
    tasks.sort(key=lambda t: -t[1].get("timeout", 120))
    results = []
    with cf.ThreadPoolExecutor(max_workers=NPROC) as ex:
        futs = [ex.submit(run_job, u, j, gen[u["id"]][0], scratch, c, gen[u["id"]][1].get("loops_vanished", False)) for (u, j, c) in tasks]
        for f in futs:
            results.append(f.result())

    known = load_known()
    violations = []
    known_hits = []
    proved_obl = proved_ok = bounded_obl = bounded_ok = 0
    per_job = []
    for r in results:
        if r["canary"]:
            if r["status"] != "ok":
                # a canary that cannot be reached only matters if the main job had no failure
                main_r = [x for x in results if x["unit"] == r["unit"] and x["job"] == r["job"] and not x["canary"]]
                if main_r and main_r[0]["status"] == "fail":
                    continue
                undecided.append({"unit": r["unit"], "job": r["job"] + " (canary)", "detail": r["detail"] or "canary not confirmed"})
            continue
        n = len(r["props"])
        ok = sum(1 for p in r["props"] if p["status"] == "SUCCESS")
        if r["kind"] == "proved":
            proved_obl += n
            proved_ok += ok
        else:
            bounded_obl += n
            bounded_ok += ok
        per_job.append({"unit": r["unit"], "job": r["job"], "kind": r["kind"], "bound": r["bound"],
                        "obligations": n, "discharged": ok, "solver_s": round(r["secs"], 2),
                        "backend": r["backend"], "status": r["status"]})
        if r["status"] == "undecided":
            undecided.append({"unit": r["unit"], "job": r["job"], "detail": r["detail"]})
        elif r["status"] == "fail":
            n_known = 0
            for f in r["failed"]:
                k = match_known(known, prop, r["unit"], r["job"], f)
                if k:
                    known_hits.append((k, r, f))
                    n_known += 1
                else:
                    violations.append((r, f))
            if n_known:
                # an obligation recorded as a known finding is not part of what this run claims as discharged: it is taken out of the
                # obligation count and reported under coverage.known_finding_obligations / known_findings_reported instead
                if r["kind"] == "proved":
                    proved_obl -= n_known
                else:
                    bounded_obl -= n_known
                per_job[-1]["obligations"] -= n_known
                per_job[-1]["known_finding_obligations"] = n_known

    # ---- report
    rc = 0
    seen_known = set()
    for (k, r, f) in known_hits:
        key = (k.get("unit"), k.get("job"), k.get("obligation"), k.get("site"))
        if key in seen_known:
            continue
        seen_known.add(key)
        print("KNOWN-FINDING: property=%s unit=%s job=%s %s" % (prop, r["unit"], r["job"], k.get("what", f["desc"])))
    if violations:
        import replay as rp
        os.makedirs(os.path.join(VERIF, "replay"), exist_ok=True)
        by_job = {}
        for (r, f) in violations:
            by_job.setdefault((r["unit"], r["job"]), []).append((r, f))
        for (uid, jn), lst in by_job.items():
            unit = [u for u in units if u["id"] == uid][0]
            job = [j for j in unit["jobs"] if j["name"] == jn][0]
            path, confirmed = rp.make_replay(prop, unit, job, lst, gen[uid][1])
            tail = "" if confirmed else " no-failing-input-found"
            names = "; ".join(sorted(set("%s [%s]" % (f["desc"], f["loc"]) for (_, f) in lst))[:4])
            print("VIOLATION property=%s replay=%s unit=%s job=%s obligations: %s%s" % (prop, path, uid, jn, names, tail))
        rc = 1
    for u in undecided:
        print("UNDECIDED property=%s unit=%s job=%s: %s" % (prop, u["unit"], u["job"], u["detail"][:600]))
    if undecided and rc == 0:
        rc = 2

    wall = time.time() - t_start
    if not args.no_evidence and not args.unit and not args.job:
        write_evidence(prop, tier, seed, units, gen, per_job, results, proved_obl, proved_ok, bounded_obl, bounded_ok,
                       undecided, violations, known_hits, wall)
    print("%s tier=%s: %d jobs, proved-obligations %d/%d, bounded-obligations %d/%d, undecided %d, violations %d, %.1fs"
          % (prop, tier, len(per_job), proved_ok, proved_obl, bounded_ok, bounded_obl, len(undecided), len(violations), wall))
    return rc


def write_evidence(prop, tier, seed, units, gen, per_job, results, po, pk, bo, bk, undecided, violations, known_hits, wall):
    funcs = []
    assumptions = []
    clauses = []
    not_decided = []
    for u in units:
        if u["id"] not in gen:
            continue
        info = gen[u["id"]][1]
        for f in info["functions"]:
            funcs.append({"unit": u["id"], "function": f["name"], "file": f["file"], "lines": f["lines"],
                          "body_sha256": f["body_sha256"][:16], "rules_fired": f["rules_fired"],
                          "loops": f.get("loops"), "loop_contracts": f.get("loop_contracts")})
        for c in info["consts"]:
            funcs.append({"unit": u["id"], "constant": c["name"], "file": c["file"], "line": c["line"], "value": c["value"]})
        for a in u.get("assumptions", []):
            if a not in assumptions:
                assumptions.append(a)
        if info["assume_count"]:
            assumptions.append("unit %s: %d textual __CPROVER_assume occurrence(s) in generated C (allocator never fails, "
                               "nondeterministic ghost ranges in harnesses; listed in the unit file)" % (u["id"], info["assume_count"]))
        if u.get("clause"):
            clauses.append("%s: %s" % (u["id"], u["clause"]))
        for nd in u.get("not_decided", []):
            if nd not in not_decided:
                not_decided.append(nd)
    common = json.load(open(os.path.join(VERIF, "vf", "common_assumptions.json")))
    assumptions = common["all"] + common.get(prop, []) + assumptions
    samples = []
    for r in results:
        if r["canary"] or not r["props"]:
            continue
        for p in r["props"][:2]:
            samples.append({"unit": r["unit"], "job": r["job"], "obligation": p["name"], "description": p["desc"],
                            "where": p["loc"], "status": p["status"]})
        if len(samples) >= 12:
            break
    cmds = [r.get("cmds") for r in results if not r["canary"] and r.get("cmds")]
    ev = {
        "property_id": prop, "tier": tier, "seed": seed, "level": "proof",
        "coverage": {
            "obligations": po, "discharged": pk,
            "bounded_obligations": bo, "bounded_discharged": bk,
            "bounded_note": "obligations of jobs of kind 'bounded' are bounded stand-ins (bound stated per job) and are NOT counted in obligations/discharged",
            "checker_cmd": " ; ".join(cmds[0]) if cmds else "",
            "trusted_base": common["trusted_base"],
            "jobs": per_job,
            "functions_under_contract": funcs,
            "clauses_decided": clauses,
            "clauses_not_decided": not_decided,
            "canaries": {"run": sum(1 for r in results if r["canary"]),
                         "reachable": sum(1 for r in results if r["canary"] and r["status"] == "ok")},
            "undecided": undecided,
            "known_findings_reported": sorted(set(k.get("what", "") for (k, _, _) in known_hits)),
            "known_finding_obligations": len(known_hits),
            "samples": samples,
            "solver_seconds_total": round(sum(r["secs"] for r in results), 1),
            "explanation": "Each job = goto-cc on the C text extracted from /repo on this run, goto-instrument --dfcc contract "
                           "instrumentation (enforce one function, replace callees by their contracts, apply loop contracts), cbmc. "
                           "'proved' jobs are loop-free over the full symbolic domain, or have every loop closed by a loop contract, or "
                           "unwind a loop whose trip count is bounded by an operand width/constant with the unwinding assertion passing.",
        },
        "assumptions": assumptions,
        "wall_s": round(wall, 2),
        "violations": len(set((r["unit"], r["job"]) for (r, _) in violations)),
    }
    os.makedirs(os.path.join(VERIF, "evidence"), exist_ok=True)
    with open(os.path.join(VERIF, "evidence", prop + ".json"), "w") as f:
        json.dump(ev, f, indent=1)


if __name__ == "__main__":
    sys.exit(main(sys.argv[1:]))
