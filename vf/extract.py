#!/usr/bin/env python3
"""cxx2c: mechanical per-run extraction of C++ function bodies from /repo into C.

The verified text is the text of /repo: every function under contract is located in the
current working tree, its body is cut out by brace matching and rewritten by purely
syntactic rules (no rule edits an operator, a constant, a comparison, an index expression
or the statement order).  Anything that cannot be located, or a must-fire rule that fires a
different number of times than recorded, raises ExtractionBroken (check exit 2, never a
violation).
"""
import hashlib
import os
import re

REPO = os.environ.get("VERIF_REPO", "/repo")


class ExtractionBroken(Exception):
    pass


# --------------------------------------------------------------------------- text helpers
def strip_comments(text):
    """Remove // and /* */ comments, keep newlines (line numbers stay valid), keep strings."""
    out = []
    i, n = 0, len(text)
    while i < n:
        c = text[i]
        if c == '"' or c == "'":
            q = c
            j = i + 1
            while j < n and text[j] != q:
                if text[j] == "\\":
                    j += 1
                j += 1
            out.append(text[i:j + 1])
            i = j + 1
        elif text.startswith("//", i):
            j = text.find("\n", i)
            if j < 0:
                j = n
            i = j
        elif text.startswith("/*", i):
            j = text.find("*/", i + 2)
            if j < 0:
                j = n - 2
            out.append("".join(ch if ch == "\n" else " " for ch in text[i:j + 2]))
            i = j + 2
        else:
            out.append(c)
            i += 1
    return "".join(out)


def match_close(text, i, open_ch, close_ch):
    """text[i] == open_ch; return index of the matching close_ch (skips string literals)."""
    assert text[i] == open_ch, (text[i:i + 20], open_ch)
    depth = 0
    n = len(text)
    j = i
    while j < n:
        c = text[j]
        if c == '"' or c == "'":
            q = c
            j += 1
            while j < n and text[j] != q:
                if text[j] == "\\":
                    j += 1
                j += 1
        elif c == open_ch:
            depth += 1
        elif c == close_ch:
            depth -= 1
            if depth == 0:
                return j
        j += 1
    raise ExtractionBroken("unbalanced %s%s" % (open_ch, close_ch))


_read_cache = {}


def read_repo(rel):
    p = os.path.join(REPO, rel)
    if p not in _read_cache:
        try:
            with open(p) as f:
                raw = f.read()
        except OSError as e:
            raise ExtractionBroken("cannot read %s: %s" % (rel, e))
        _read_cache[p] = (raw, strip_comments(raw))
    return _read_cache[p]


# --------------------------------------------------------------------------- global rules
def _rewrite_named_casts(body, log):
    """static_cast<T>(e) / reinterpret_cast<T>(e) / const_cast<T>(e)  ->  ((T)(e))"""
    pat = re.compile(r"\b(static_cast|reinterpret_cast|const_cast)\s*<")
    n = 0
    while True:
        m = pat.search(body)
        if not m:
            break
        lt = m.end() - 1
        gt = match_close(body, lt, "<", ">")
        ty = body[lt + 1:gt].strip()
        k = gt + 1
        while body[k].isspace():
            k += 1
        if body[k] != "(":
            raise ExtractionBroken("cast without parenthesis near: " + body[m.start():m.start() + 60])
        rp = match_close(body, k, "(", ")")
        body = body[:m.start()] + "((" + ty + ")(" + body[k + 1:rp] + "))" + body[rp + 1:]
        n += 1
    if n:
        log.append("named C++ casts -> C casts x%d (same conversion)" % n)
    return body


def _rewrite_throw(body, log):
    """throw std::X(msg...);  ->  VERIF_THROW;   (message text dropped)"""
    pat = re.compile(r"\bthrow\b")
    n = 0
    pos = 0
    while True:
        m = pat.search(body, pos)
        if not m:
            break
        # find terminating ';' at paren depth 0
        j = m.end()
        depth = 0
        while j < len(body):
            c = body[j]
            if c == '"' or c == "'":
                q = c
                j += 1
                while body[j] != q:
                    if body[j] == "\\":
                        j += 1
                    j += 1
            elif c in "([{":
                depth += 1
            elif c in ")]}":
                depth -= 1
            elif c == ";" and depth == 0:
                break
            j += 1
        body = body[:m.start()] + "VERIF_THROW;" + body[j + 1:]
        pos = m.start() + 5
        n += 1
    if n:
        log.append("throw <expr>; -> VERIF_THROW; x%d (exception object and message dropped; "
                   "unwinding = immediate return with verif_exc set)" % n)
    return body


_SIMPLE = [
    (r"\bnullptr\b", "NULL", "nullptr -> NULL"),
    (r"\bthis->", "self->", "this-> -> self->"),
    (r"\b(?:EK|ExtractKey)\(\)\(", "KEY(", "EK()(x) -> KEY(x) (key extractor functor fixed per instantiation)"),
    (r"\bconstexpr\b\s*", "", "constexpr dropped"),
    (r"\bnoexcept\b\s*", "", "noexcept dropped"),
    (r"\btypename\s+", "", "typename dropped"),
    (r"\bstd::(floor|ceil|log|log2|sqrt|exp|pow|fabs|isnan|isinf|memcpy|memset|memcmp|abs|round|ldexp)\b", r"\1",
     "std::<cmath/cstring fn> -> C library function of the same name"),
    (r"\bstd::(u?int(?:8|16|32|64)_t|size_t)\b", r"\1", "std::<inttype> -> <inttype>"),
]


def _rewrite_direct_init(body, log):
    """C++ direct initialisation of a scalar local  'const T x(expr);'  ->  'const T x = (expr);'"""
    pat = re.compile(r"(?<=[;{}\s])((?:const\s+)?(?:bool|u?int(?:8|16|32|64)_t|size_t|unsigned|int|double|float)\s+[A-Za-z_]\w*)\(")
    pos = 0
    n = 0
    while True:
        m = pat.search(body, pos)
        if not m:
            break
        op = m.end() - 1
        try:
            cp = match_close(body, op, "(", ")")
        except ExtractionBroken:
            break
        k = cp + 1
        while k < len(body) and body[k].isspace():
            k += 1
        inner = body[op + 1:cp]
        # a declaration-with-initialiser: followed by ';' and the parenthesised text is an expression, not a parameter list
        if k < len(body) and body[k] == ";" and inner.strip() and not re.match(r"^\s*(?:const\s+)?(?:bool|u?int\d+_t|size_t|void|char|double|float)\b[^()]*$", inner):
            body = body[:op] + " = (" + inner + ")" + body[cp + 1:]
            n += 1
            pos = op + 4
        else:
            pos = m.end()
    if n:
        log.append("direct initialisation 'T x(e);' -> 'T x = (e);' x%d" % n)
    return body


def apply_global_rules(body, log, members=None, propagate=None, scope_sep=True):
    body = _rewrite_direct_init(body, log)
    body = _rewrite_named_casts(body, log)
    body = _rewrite_throw(body, log)
    for pat, rep, what in _SIMPLE:
        body, k = re.subn(pat, rep, body)
        if k:
            log.append("%s x%d" % (what, k))
    if members:
        k_tot = 0
        for mname in members:
            # bare member (not already qualified by . or ->, not a declaration of a local)
            body, k = re.subn(r"(?<![\w.>])(?<!->)%s\b" % re.escape(mname), "self->" + mname, body)
            k_tot += k
        if k_tot:
            log.append("bare data members -> self->member x%d" % k_tot)
    if propagate:
        body = _insert_propagate(body, propagate, log)
    return body


def apply_scope_rule(body, log):
    body2, k = re.subn(r"\b([A-Za-z_]\w*)::(?=[A-Za-z_])", r"\1_", body)
    if k:
        log.append("scope qualifier A::b -> A_b x%d" % k)
    return body2


def _insert_propagate(body, names, log):
    """after each statement that calls a may-throw callee insert VERIF_PROPAGATE;"""
    pat = re.compile(r"(?<![\w>.])(?:%s)\s*\(" % "|".join(re.escape(x) for x in names))
    pos = 0
    n = 0
    while True:
        m = pat.search(body, pos)
        if not m:
            break
        # statement end: next ';' at depth 0 relative to the call start
        j = m.start()
        depth = 0
        while j < len(body):
            c = body[j]
            if c in "([{":
                depth += 1
            elif c in ")]}":
                depth -= 1
                if depth < 0:
                    break
            elif c == ";" and depth == 0:
                break
            j += 1
        if j >= len(body) or body[j] != ";":
            # the call is an argument inside a larger expression: fine when that expression is a return statement (the flag is set and the function
            # returns right away); anything else cannot be rendered
            stmt_start = max(body.rfind(";", 0, m.start()), body.rfind("{", 0, m.start()), body.rfind("}", 0, m.start())) + 1
            if re.match(r"\s*return\b", body[stmt_start:m.start()]):
                pos = m.end()
                continue
            raise ExtractionBroken("cannot place VERIF_PROPAGATE after call at: " + body[m.start():m.start() + 50])
        # is the statement the unbraced body of if/while/for/else?  then brace it so that the propagation stays inside that body
        b = m.start() - 1
        d2 = 0
        unbraced = None
        while b >= 0:
            c = body[b]
            if c == ")":
                if d2 == 0:
                    o = b
                    dd = 0
                    while o >= 0:
                        if body[o] == ")":
                            dd += 1
                        elif body[o] == "(":
                            dd -= 1
                            if dd == 0:
                                break
                        o -= 1
                    if re.search(r"\b(?:if|while|for)\s*$", body[:o]):
                        unbraced = b + 1
                        break
                    b = o - 1
                    continue
                d2 += 1
            elif c == "(":
                if d2 == 0:
                    break
                d2 -= 1
            elif c in ";{}" and d2 == 0:
                break
            elif d2 == 0 and not (body[b + 1].isalnum() or body[b + 1] == "_") and re.search(r"\b(?:else|do)$", body[max(0, b - 8):b + 1]):
                unbraced = b + 1
                break
            b -= 1
        if unbraced is not None:
            body = body[:unbraced] + " {" + body[unbraced:j + 1] + " VERIF_PROPAGATE; }" + body[j + 1:]
            pos = j + 3
        else:
            body = body[:j + 1] + " VERIF_PROPAGATE;" + body[j + 1:]
            pos = j + 1
        n += 1
    if n:
        log.append("VERIF_PROPAGATE; inserted after %d call(s) to may-throw callees (%s)" % (n, ", ".join(names)))
    return body


# --------------------------------------------------------------------------- loops
def loop_positions(body):
    """[(kind, insert_pos)] in textual order; insert_pos = where a loop contract goes
    (after the header ')' for for/while, right after 'do' for do-while)."""
    res = []
    skip_while_at = set()
    pat = re.compile(r"\b(for|while|do)\b")
    pos = 0
    while True:
        m = pat.search(body, pos)
        if not m:
            break
        kw = m.group(1)
        if kw == "do":
            res.append(("do", m.end()))
            k = m.end()
            while body[k].isspace():
                k += 1
            if body[k] == "{":
                e = match_close(body, k, "{", "}")
                mm = re.compile(r"\s*while\b").match(body, e + 1)
                if mm:
                    skip_while_at.add(mm.end() - 5)
            pos = m.end()
            continue
        if kw == "while" and m.start() in skip_while_at:
            pos = m.end()
            continue
        k = m.end()
        while body[k].isspace():
            k += 1
        if body[k] != "(":
            pos = m.end()
            continue
        e = match_close(body, k, "(", ")")
        res.append((kw, e + 1))
        pos = m.end()
    return res


# --------------------------------------------------------------------------- function extraction
def locate(stripped, match, rel):
    ms = list(re.finditer(match, stripped))
    ms = [m for m in ms if _followed_by_body(stripped, m.end())]
    if len(ms) != 1:
        raise ExtractionBroken("function signature /%s/ matched %d definitions in %s (need exactly 1)"
                               % (match, len(ms), rel))
    m = ms[0]
    ob = _body_open(stripped, m.end())
    cb = match_close(stripped, ob, "{", "}")
    return m.start(), m.end(), ob, cb


def _body_open(text, i):
    """index of '{' opening the body that follows a signature ending at i (skips const, noexcept,
    trailing return type and ctor initialiser lists)"""
    j = i
    n = len(text)
    depth = 0
    while j < n:
        c = text[j]
        if c == "(":
            depth += 1
        elif c == ")":
            depth -= 1
        elif c == "{" and depth == 0:
            # ctor-initialiser braces  x_{...}  are preceded by an identifier char; body brace is not
            k = j - 1
            while k >= 0 and text[k].isspace():
                k -= 1
            if not (text[k].isalnum() or text[k] == "_") or re.search(r"\b(const|noexcept|override|final)$", text[max(0, k - 12):k + 1]) \
                    or re.search(r"->\s*[\w:<>,\s\*&]+$", text[i:k + 1]):
                return j
            j = match_close(text, j, "{", "}")
        elif c == ";" and depth == 0:
            return -1
        j += 1
    return -1


def _followed_by_body(text, i):
    return _body_open(text, i) >= 0


def param_names(sig_params):
    """names of the parameters of a C/C++ parameter list text (best effort, for the cross-check)"""
    names = []
    depth = 0
    cur = ""
    for c in sig_params + ",":
        if c in "<([":
            depth += 1
        elif c in ">)]":
            depth -= 1
        if c == "," and depth == 0:
            cur = cur.split("=")[0].strip()
            m = re.search(r"([A-Za-z_]\w*)\s*(?:\[[^\]]*\])?$", cur)
            if cur and cur != "void" and m:
                names.append(m.group(1))
            cur = ""
        else:
            cur += c
    return names


class Extracted:
    def __init__(self):
        self.text = ""
        self.info = {}


def extract_function(fn):
    """fn: dict with keys
       file, match (regex on the comment-stripped header matching the definition's signature up to and
       including the closing ')' of the parameter list), sig (the C signature to emit), contract,
       loops {ordinal: text}, rules [(regex, repl, count|None)], members [...], propagate [...],
       inserts [(regex, text, 'before'|'after', count)], throw_rv, extra_params [names not in the C++ sig]
    """
    raw, stripped = read_repo(fn["file"])
    s, e, ob, cb = locate(stripped, fn["match"], fn["file"])
    sig_src = stripped[s:e]
    body = stripped[ob:cb + 1]
    if fn.get("ctor"):
        # constructor: the mem-initializer list  ': a(x), b(y)'  between the signature and the body becomes 'self->a = x; self->b = y;'
        init = stripped[e:ob].strip()
        init = re.sub(r"^noexcept(\s*\((?:[^()]|\((?:[^()]|\([^()]*\))*\))*\))?\s*", "", init)   # exception specification: not part of the mem-initializer list
        if init.startswith(":"):
            items, depth, cur = [], 0, ""
            for ch in init[1:]:
                if ch in "([{":
                    depth += 1
                elif ch in ")]}":
                    depth -= 1
                if ch == "," and depth == 0:
                    items.append(cur.strip()); cur = ""
                else:
                    cur += ch
            if cur.strip():
                items.append(cur.strip())
            assigns = []
            for it in items:
                m2 = re.match(r"^(\w+)\s*[\(\{](.*)[\)\}]$", it, re.S)
                if not m2:
                    raise ExtractionBroken("%s: cannot parse mem-initializer '%s'" % (fn["name"], it))
                assigns.append("self->%s = CTOR_INIT(%s);" % (m2.group(1), m2.group(2).strip()))
            body = "{\n  " + "\n  ".join(assigns) + "\n" + body[1:]
    line0 = stripped.count("\n", 0, s) + 1
    line1 = stripped.count("\n", 0, cb) + 1
    log = []
    sha = hashlib.sha256(body.encode()).hexdigest()

    # signature cross-check: parameter names of the C++ definition must be the C parameters, in order
    # find the parameter list = last balanced (...) of the matched signature text
    k = len(sig_src) - 1
    while k >= 0 and sig_src[k] != ")":
        k -= 1
    depth = 0
    j = k
    while j >= 0:
        if sig_src[j] == ")":
            depth += 1
        elif sig_src[j] == "(":
            depth -= 1
            if depth == 0:
                break
        j -= 1
    src_params = param_names(sig_src[j + 1:k])
    csig = fn["sig"]
    cj = csig.index("(")
    ck = csig.rindex(")")
    c_params = param_names(csig[cj + 1:ck])
    extra = set(fn.get("extra_params", [])) | {"self"}
    # parameters the contract signature has but older source text may lack (the body then does not use them): tolerated so that the contract can be run against both forms
    extra |= set(n_ for n_ in fn.get("optional_params", []) if n_ not in src_params)
    c_core = [p for p in c_params if p not in extra]
    src_params = [p for p in src_params if p not in set(fn.get("dropped_params", []))]   # e.g. allocator arguments (recorded in the log)
    if fn.get("dropped_params"):
        log.append("source parameters dropped: %s" % ", ".join(fn["dropped_params"]))
    if c_core != src_params:
        raise ExtractionBroken("%s: parameter names changed: source %s vs contract signature %s"
                               % (fn["name"], src_params, c_core))

    for (pat, rep, cnt) in fn.get("pre_rules", []):
        body, k = re.subn(pat, rep, body)
        _check_count(fn, pat, k, cnt)
        log.append("pre-rule /%s/ -> '%s' x%d" % (pat, rep, k))
    body = apply_global_rules(body, log, fn.get("members"), fn.get("propagate"))
    for (pat, rep, cnt) in fn.get("rules", []):
        if callable(pat):
            body, k = pat(body)
            _check_count(fn, rep, k, cnt)
            log.append("structural rule %s x%d" % (rep, k))
            continue
        body, k = re.subn(pat, rep, body)
        _check_count(fn, pat, k, cnt)
        log.append("rule /%s/ -> '%s' x%d" % (pat, rep, k))
    if fn.get("scope", True):
        body = apply_scope_rule(body, log)
    for mname in fn.get("methods", []):
        optional = False
        if isinstance(mname, tuple):
            mname, optional = mname[0], True
        body = re.sub(r"\bself->%s\(" % re.escape(mname), mname + "(", body)   # this->f(...) form
        pat = re.compile(r"(?<![\w.>:])%s\(\s*(\)?)" % re.escape(mname))
        body, k = pat.subn(lambda mo: "%s(self%s" % (mname, ")" if mo.group(1) else ", "), body)
        if k == 0 and not optional:
            raise ExtractionBroken("%s: member call %s( not found" % (fn["name"], mname))
        log.append("member-function call %s(...) -> %s(self, ...) x%d" % (mname, mname, k))
    for rname in fn.get("refs", []):
        body, k = re.subn(r"(?<![\w.>])%s\b" % re.escape(rname), "(*%s)" % rname, body)
        log.append("reference parameter %s -> pointer parameter, uses -> (*%s) x%d" % (rname, rname, k))

    for (pat, rep, cnt) in fn.get("post_rules", []):
        body, k = re.subn(pat, rep, body)
        _check_count(fn, pat, k, cnt)
        log.append("post-rule /%s/ -> '%s' x%d" % (pat, rep, k))

    # ghost inserts (specification text, anchored on source text)
    for (pat, text, where, cnt) in fn.get("inserts", []):
        ms = list(re.finditer(pat, body))
        if cnt is not None and len(ms) != cnt:
            raise ExtractionBroken("%s: insert anchor /%s/ matched %d times, expected %s" % (fn["name"], pat, len(ms), cnt))
        if not ms:
            raise ExtractionBroken("%s: insert anchor /%s/ not found" % (fn["name"], pat))
        for m in reversed(ms):
            p = m.start() if where == "before" else m.end()
            body = body[:p] + " " + text + " " + body[p:]
        log.append("ghost insert %s /%s/ x%d" % (where, pat, len(ms)))

    # loop contracts by ordinal
    loops = dict(fn.get("loops", {}))
    lp = loop_positions(body)
    if "nloops" in fn and len(lp) != fn["nloops"]:
        if len(lp) == 0:
            # the code no longer has the loops the contract file annotates: verify the (now loop-free) body against the same function contract
            loops = {}
            log.append("NOTE: body has no loops any more (contract file annotates %d): loop contracts dropped, function contract unchanged" % fn["nloops"])
        elif fn.get("loop_heads") and len(lp) < fn["nloops"]:
            # some annotated loops are gone (e.g. a 'while' became an 'if'): re-associate the remaining loop contracts with the loops whose header text they name,
            # drop the contracts of loops that no longer exist, and verify the body against the unchanged function contract
            heads = fn["loop_heads"]
            remap, used = {}, set()
            for ordn in sorted(loops):
                pat = heads.get(ordn)
                if pat is None:
                    raise ExtractionBroken("%s: %d loops in body, contract file expects %d (no loop_heads entry for loop #%d)" % (fn["name"], len(lp), fn["nloops"], ordn))
                hit = None
                for k, (kind, ipos) in enumerate(lp):
                    if k in used:
                        continue
                    start = max(body.rfind("for", 0, ipos), body.rfind("while", 0, ipos), body.rfind("do", 0, ipos))
                    if re.search(pat, body[start:ipos]):
                        hit = k
                        break
                if hit is None:
                    log.append("NOTE: loop #%d (/%s/) is no longer a loop in the body: loop contracts dropped for it, function contract unchanged" % (ordn, pat))
                else:
                    used.add(hit)
                    remap[hit + 1] = loops[ordn]
            if len(used) != len(lp):
                raise ExtractionBroken("%s: %d loops in body, contract file expects %d and a remaining loop matches no annotated loop head" % (fn["name"], len(lp), fn["nloops"]))
            loops = remap
        else:
            raise ExtractionBroken("%s: %d loops in body, contract file expects %d" % (fn["name"], len(lp), fn["nloops"]))
    for ordn in sorted(loops, reverse=True):
        if ordn < 1 or ordn > len(lp):
            raise ExtractionBroken("%s: loop contract for loop #%d but body has %d loops" % (fn["name"], ordn, len(lp)))
        p = lp[ordn - 1][1]
        body = body[:p] + "\n" + loops[ordn].strip() + "\n" + body[p:]

    rv = fn.get("throw_rv", "")
    out = []
    out.append("/* ---- extracted from %s:%d-%d  sha256(body)=%s ---- */" % (fn["file"], line0, line1, sha[:16]))
    out.append("#undef VERIF_RV\n#define VERIF_RV %s" % rv)
    out.append("#undef VERIF_UNWIND\n#define VERIF_UNWIND %s" % fn.get("unwind", ""))
    for k, v in fn.get("typedefs", {}).items():
        out.append("#define %s %s" % (k, v))
    out.append(csig)
    if fn.get("contract"):
        out.append(fn["contract"].strip())
    out.append(body)
    for k in fn.get("typedefs", {}):
        out.append("#undef %s" % k)
    ex = Extracted()
    ex.text = "\n".join(out) + "\n"
    ex.info = {"name": fn["name"], "file": fn["file"], "lines": [line0, line1], "body_sha256": sha,
               "source_signature": " ".join(sig_src.split()), "rules_fired": log, "loops": len(lp),
               "loop_contracts": sorted(loops)}
    return ex


def _check_count(fn, pat, k, cnt):
    if cnt == "any":      # pure qualifier-stripping rules: a different count cannot make the extraction unsound
        return
    if cnt is None:
        if k == 0:
            raise ExtractionBroken("%s: must-fire rule /%s/ did not fire" % (fn["name"], pat))
    elif k != cnt:
        raise ExtractionBroken("%s: rule /%s/ fired %d times, expected %d" % (fn["name"], pat, k, cnt))


def extract_const(c):
    """c: dict(file, match (regex with one group = the initialiser expression), name, ctype)
    -> '#define name ((ctype)(expr))' taken from the current tree."""
    raw, stripped = read_repo(c["file"])
    ms = list(re.finditer(c["match"], stripped))
    if len(ms) != 1:
        raise ExtractionBroken("constant /%s/ matched %d times in %s" % (c["match"], len(ms), c["file"]))
    val = ms[0].group(1).strip()
    log = []
    val = _rewrite_named_casts(val, log)
    val = re.sub(r"\b([A-Za-z_]\w*)::(?=[A-Za-z_])", r"\1_", val)
    if c.get("ctype"):
        text = "#define %s ((%s)(%s))\n" % (c["name"], c["ctype"], val)
    else:
        text = "#define %s (%s)\n" % (c["name"], val)
    line = stripped.count("\n", 0, ms[0].start()) + 1
    return text, {"name": c["name"], "file": c["file"], "line": line, "value": val}


def extract_const_block(c):
    """c: dict(file, pattern (regex with groups: name, value), min_count, prefix) -> #define for every match"""
    raw, stripped = read_repo(c["file"])
    ms = list(re.finditer(c["pattern"], stripped))
    if len(ms) < c.get("min_count", 1):
        raise ExtractionBroken("constant block /%s/ matched %d times in %s, expected >= %d"
                               % (c["pattern"], len(ms), c["file"], c.get("min_count", 1)))
    text = []
    infos = []
    local_names = [m.group("name") for m in ms]
    for m in ms:
        name = c.get("prefix", "") + m.group("name")
        val = _rewrite_named_casts(m.group("value").strip(), [])
        val = re.sub(r"\b([A-Za-z_]\w*)::(?=[A-Za-z_])", r"\1_", val)
        if c.get("prefix"):
            for ln in local_names:   # constants of the same namespace referenced unqualified
                val = re.sub(r"(?<![\w])%s\b" % re.escape(ln), c["prefix"] + ln, val)
        ty = m.groupdict().get("type")
        if ty:
            text.append("#define %s ((%s)(%s))" % (name, ty, val))
        else:
            text.append("#define %s (%s)" % (name, val))
        infos.append({"name": name, "file": c["file"], "line": stripped.count("\n", 0, m.start()) + 1, "value": val})
    return "\n".join(text) + "\n", infos


def extract_region(r):
    """r: dict(file, begin (regex), end (regex), rules [...]) -> text strictly between the two anchors
    (or including them with include_begin/include_end), after global + own rules."""
    raw, stripped = read_repo(r["file"])
    mb = list(re.finditer(r["begin"], stripped))
    if len(mb) != 1:
        raise ExtractionBroken("region begin /%s/ matched %d times in %s" % (r["begin"], len(mb), r["file"]))
    me = list(re.finditer(r["end"], stripped[mb[0].end():]))
    if len(me) < 1:
        raise ExtractionBroken("region end /%s/ not found in %s" % (r["end"], r["file"]))
    a = mb[0].start() if r.get("include_begin") else mb[0].end()
    b = mb[0].end() + (me[0].end() if r.get("include_end") else me[0].start())
    body = stripped[a:b]
    sha = hashlib.sha256(body.encode()).hexdigest()
    log = []
    body = apply_global_rules(body, log, r.get("members"), r.get("propagate"))
    for (pat, rep, cnt) in r.get("rules", []):
        body, k = re.subn(pat, rep, body, flags=re.S if r.get("dotall") else 0)
        _check_count(r, pat, k, cnt)
        log.append("rule /%s/ -> '%s' x%d" % (pat, rep, k))
    if r.get("scope", True):
        body = apply_scope_rule(body, log)
    line0 = stripped.count("\n", 0, a) + 1
    line1 = stripped.count("\n", 0, b) + 1
    ex = Extracted()
    ex.text = "/* ---- region extracted from %s:%d-%d sha256=%s ---- */\n%s\n" % (r["file"], line0, line1, sha[:16], body)
    ex.info = {"name": r["name"], "file": r["file"], "lines": [line0, line1], "body_sha256": sha, "rules_fired": log,
               "region": True}
    return ex


def check_members(file, class_members):
    """every name in class_members must be declared as a data member in the header (diffed each run)"""
    raw, stripped = read_repo(file)
    for m in class_members:
        if not re.search(r"\b%s\s*(?:;|=|\{|\[)" % re.escape(m), stripped):
            raise ExtractionBroken("data member %s no longer declared in %s" % (m, file))
