/* spec/xxhash64_ref.h - transcription of the published XXH64 algorithm (Yann Collet, xxHash specification, "XXH64 algorithm
 * description": steps 1-7), single-shot form, little-endian lane reads.  MUL(a, c) is multiplication mod 2^64 (uninterpreted per
 * prime in the equivalence jobs). */
#ifndef SPEC_XXHASH64_REF_H
#define SPEC_XXHASH64_REF_H
#define XP1 11400714785074694791ULL
#define XP2 14029467366897019727ULL
#define XP3 1609587929392839161ULL
#define XP4 9650029242287828579ULL
#define XP5 2870177450012600261ULL
static inline uint64_t xs_rotl(uint64_t x, unsigned r) { return (x << r) | (x >> (64 - r)); }
static inline uint64_t xs_read64(const uint8_t* p) { uint64_t v = 0; for (int j = 7; j >= 0; j--) v = (v << 8) | p[j]; return v; }
static inline uint64_t xs_read32(const uint8_t* p) { uint64_t v = 0; for (int j = 3; j >= 0; j--) v = (v << 8) | p[j]; return v; }
static inline uint64_t xs_round(uint64_t acc, uint64_t lane) { acc += MUL(lane, XP2); acc = xs_rotl(acc, 31); return MUL(acc, XP1); }
static inline uint64_t xs_merge(uint64_t h, uint64_t v) { h ^= xs_round(0, v); return MUL(h, XP1) + XP4; }
static inline uint64_t spec_xxh64(const uint8_t* p, uint64_t len, uint64_t seed) {
  uint64_t h; uint64_t off = 0;
  if (len >= 32) {
    uint64_t v1 = seed + XP1 + XP2, v2 = seed + XP2, v3 = seed, v4 = seed - XP1;
    for (; off + 32 <= len; off += 32) {
      v1 = xs_round(v1, xs_read64(p + off)); v2 = xs_round(v2, xs_read64(p + off + 8));
      v3 = xs_round(v3, xs_read64(p + off + 16)); v4 = xs_round(v4, xs_read64(p + off + 24));
    }
    h = xs_rotl(v1, 1) + xs_rotl(v2, 7) + xs_rotl(v3, 12) + xs_rotl(v4, 18);
    h = xs_merge(h, v1); h = xs_merge(h, v2); h = xs_merge(h, v3); h = xs_merge(h, v4);
  } else {
    h = seed + XP5;
  }
  h += len;
  for (; off + 8 <= len; off += 8) { h ^= xs_round(0, xs_read64(p + off)); h = MUL(xs_rotl(h, 27), XP1) + XP4; }
  if (off + 4 <= len) { h ^= MUL(xs_read32(p + off), XP1); h = MUL(xs_rotl(h, 23), XP2) + XP3; off += 4; }
  for (; off < len; off++) { h ^= MUL((uint64_t)p[off], XP5); h = MUL(xs_rotl(h, 11), XP1); }
  h ^= h >> 33; h = MUL(h, XP2); h ^= h >> 29; h = MUL(h, XP3); h ^= h >> 32;
  return h;
}
#endif
