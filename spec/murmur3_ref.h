/* spec/murmur3_ref.h - transcription of the published MurmurHash3_x64_128 (Austin Appleby, SMHasher, public domain)
 * with the seed widened to 64 bits as the DataSketches format documents.  Written from the algorithm description,
 * in a different shape from /repo's code (byte-wise little-endian loads, tail assembled by loops instead of a
 * fall-through switch).  MUL(a, c) is the multiplication mod 2^64; the equivalence jobs define it as an
 * uninterpreted function per constant (see contracts/C10). */
#ifndef SPEC_MURMUR3_REF_H
#define SPEC_MURMUR3_REF_H
static inline uint64_t spec_rotl64(uint64_t x, unsigned r) { return (x << r) | (x >> (64 - r)); }
static inline uint64_t spec_le64(const uint8_t* p) {
  uint64_t v = 0;
  for (int j = 7; j >= 0; j--) v = (v << 8) | p[j];
  return v;
}
static inline uint64_t spec_fmix64(uint64_t k) {
  k ^= k >> 33; k = MUL(k, 0xff51afd7ed558ccdULL);
  k ^= k >> 33; k = MUL(k, 0xc4ceb9fe1a85ec53ULL);
  k ^= k >> 33; return k;
}
static inline void spec_murmur3_x64_128(const uint8_t* data, size_t len, uint64_t seed, uint64_t* o1, uint64_t* o2) {
  const uint64_t c1 = 0x87c37b91114253d5ULL, c2 = 0x4cf5ad432745937fULL;
  const size_t nblocks = len / 16;
  uint64_t h1 = seed, h2 = seed;
  for (size_t i = 0; i < nblocks; i++) {
    uint64_t k1 = spec_le64(data + 16 * i), k2 = spec_le64(data + 16 * i + 8);
    k1 = MUL(k1, c1); k1 = spec_rotl64(k1, 31); k1 = MUL(k1, c2); h1 ^= k1;
    h1 = spec_rotl64(h1, 27); h1 += h2; h1 = MUL(h1, 5) + 0x52dce729;
    k2 = MUL(k2, c2); k2 = spec_rotl64(k2, 33); k2 = MUL(k2, c1); h2 ^= k2;
    h2 = spec_rotl64(h2, 31); h2 += h1; h2 = MUL(h2, 5) + 0x38495ab5;
  }
  const uint8_t* tail = data + 16 * nblocks;
  const size_t rem = len & 15;
  uint64_t k1 = 0, k2 = 0;
  for (size_t j = 0; j < 8 && j < rem; j++) k1 |= (uint64_t)tail[j] << (8 * j);
  for (size_t j = 8; j < rem; j++) k2 |= (uint64_t)tail[j] << (8 * (j - 8));
  if (rem > 8) { k2 = MUL(k2, c2); k2 = spec_rotl64(k2, 33); k2 = MUL(k2, c1); h2 ^= k2; }
  if (rem > 0) { k1 = MUL(k1, c1); k1 = spec_rotl64(k1, 31); k1 = MUL(k1, c2); h1 ^= k1; }
  h1 ^= len; h2 ^= len;
  h1 += h2; h2 += h1;
  h1 = spec_fmix64(h1); h2 = spec_fmix64(h2);
  h1 += h2; h2 += h1;
  *o1 = h1; *o2 = h2;
}
#endif
