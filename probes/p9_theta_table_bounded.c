#include <stdint.h>
#include <stddef.h>
#include <stdbool.h>
#ifndef LG
#define LG 3
#endif
#define SIZE (1u<<LG)
typedef struct { uint64_t* first; bool second; } pair_it_bool;
int verif_exc;
static inline uint32_t get_stride(uint64_t key, uint8_t lg_size) { return (2 * (uint32_t)((key >> lg_size) & 127u)) + 1; }
pair_it_bool find(uint64_t* entries, uint8_t lg_size, uint64_t key)
{
  const uint32_t size = 1 << lg_size;
  const uint32_t mask = size - 1;
  const uint32_t stride = get_stride(key, lg_size);
  uint32_t index = (uint32_t)(key) & mask;
  const uint32_t loop_index = index;
  do {
    const uint64_t probe = (entries[index]);
    if (probe == 0) {
      return (pair_it_bool){&entries[index], false};
    } else if (probe == key) {
      return (pair_it_bool){&entries[index], true};
    }
    index = (index + stride) & mask;
  } while (index != loop_index);
  verif_exc = 1; return (pair_it_bool){0,false};
}
/* spec: slot i is reachable for its key along non-zero slots */
static bool reachable(const uint64_t* e, uint32_t i) {
  uint64_t k = e[i]; uint32_t idx = (uint32_t)k & (SIZE-1); uint32_t st = get_stride(k, LG);
  for (uint32_t t = 0; t < SIZE; t++) { if (idx == i) return true; if (e[idx] == 0) return false; idx = (idx + st) & (SIZE-1); }
  return false;
}
static bool wf(const uint64_t* e) {
  for (uint32_t i = 0; i < SIZE; i++) { if (e[i] != 0) { if (!reachable(e, i)) return false; for (uint32_t j = 0; j < i; j++) if (e[j] == e[i]) return false; } }
  return true;
}
void h(void) {
  uint64_t e[SIZE]; uint64_t key; uint32_t gj;
  __CPROVER_assume(key != 0 && wf(e));
  uint32_t nz = 0; for (uint32_t i = 0; i < SIZE; i++) nz += e[i] != 0;
  __CPROVER_assume(nz < SIZE);           /* capacity < size */
  __CPROVER_assume(gj < SIZE);
  bool present = false; for (uint32_t i = 0; i < SIZE; i++) present |= (e[i] == key);
  verif_exc = 0;
  pair_it_bool r = find(e, LG, key);
  __CPROVER_assert(verif_exc == 0, "no throw when a free slot exists");
  __CPROVER_assert(r.second == present, "found iff present");
  if (!r.second) { *r.first = key; __CPROVER_assert(wf(e), "insert keeps table invariant, no duplicate"); }
}
