#include <stdint.h>
#include <stddef.h>
#include <stdbool.h>
typedef struct { bool is_empty; bool is_ordered; uint16_t seed_hash; uint32_t num_entries; uint64_t theta; const void* entries_start_ptr; uint8_t entry_bits; } compact_theta_sketch_data;
int verif_exc;
#define VERIF_THROW do { verif_exc = 1; return (compact_theta_sketch_data){0}; } while(0)
#define VERIF_PROPAGATE if (verif_exc) return (compact_theta_sketch_data){0}
#define MAX_THETA 0x7fffffffffffffffULL
static size_t whole_bytes_to_hold_bits(size_t bits) { return (bits >> 3) + ((bits & 7) > 0); }
static void check_memory_size(const void* ptr, size_t actual_bytes, size_t expected_bytes, bool dump_on_error) { if (actual_bytes < expected_bytes) verif_exc = 1; }
static void check_sketch_type(uint8_t a, uint8_t e) { if (a != e) verif_exc = 1; }
static void check_seed_hash(uint16_t a, uint16_t e) { if (a != e) verif_exc = 1; }
uint16_t compute_seed_hash(uint64_t seed) __CPROVER_assigns() __CPROVER_ensures(1);
#define CONTRACT_parse \
 __CPROVER_requires(size <= 4096 && __CPROVER_is_fresh(ptr, size)) \
 __CPROVER_assigns(verif_exc) \
 __CPROVER_ensures(verif_exc == 0 && !__CPROVER_return_value.is_empty ==> \
    __CPROVER_same_object(__CPROVER_return_value.entries_start_ptr, ptr) && \
    __CPROVER_POINTER_OFFSET(__CPROVER_return_value.entries_start_ptr) + \
      (((size_t)__CPROVER_return_value.num_entries * __CPROVER_return_value.entry_bits + 7) >> 3) <= size)
#define COMPACT_SKETCH_PRE_LONGS_BYTE ((size_t)0)
#define COMPACT_SKETCH_SERIAL_VERSION_BYTE ((size_t)1)
#define COMPACT_SKETCH_TYPE_BYTE ((size_t)2)
#define COMPACT_SKETCH_FLAGS_BYTE ((size_t)5)
#define COMPACT_SKETCH_SEED_HASH_U16 ((size_t)3)
#define COMPACT_SKETCH_SINGLE_ENTRY_U64 ((size_t)1)
#define COMPACT_SKETCH_NUM_ENTRIES_U32 ((size_t)2)
#define COMPACT_SKETCH_ENTRIES_EXACT_U64 ((size_t)2)
#define COMPACT_SKETCH_ENTRIES_ESTIMATION_U64 ((size_t)3)
#define COMPACT_SKETCH_THETA_U64 ((size_t)2)
#define COMPACT_SKETCH_V4_ENTRY_BITS_BYTE ((size_t)3)
#define COMPACT_SKETCH_V4_NUM_ENTRIES_BYTES_BYTE ((size_t)4)
#define COMPACT_SKETCH_V4_THETA_U64 ((size_t)1)
#define COMPACT_SKETCH_V4_PACKED_DATA_EXACT_BYTE ((size_t)8)
#define COMPACT_SKETCH_V4_PACKED_DATA_ESTIMATION_BYTE ((size_t)16)
#define COMPACT_SKETCH_IS_EMPTY_FLAG ((uint8_t)2)
#define COMPACT_SKETCH_IS_ORDERED_FLAG ((uint8_t)4)
#define COMPACT_SKETCH_TYPE ((uint8_t)3)
compact_theta_sketch_data parse(const void* ptr, size_t size, uint64_t seed, bool dump_on_error)
CONTRACT_parse
{
  check_memory_size(ptr, size, 8, dump_on_error); VERIF_PROPAGATE;
  check_sketch_type(((const uint8_t*)(ptr))[COMPACT_SKETCH_TYPE_BYTE], COMPACT_SKETCH_TYPE); VERIF_PROPAGATE;
  uint8_t serial_version = ((const uint8_t*)(ptr))[COMPACT_SKETCH_SERIAL_VERSION_BYTE];
  switch(serial_version) {
  case 4: {
    // version 4 sketches are ordered and always have entries (single item in exact mode is v3)
    const uint16_t seed_hash = ((const uint16_t*)(ptr))[COMPACT_SKETCH_SEED_HASH_U16];
    check_seed_hash(seed_hash, compute_seed_hash(seed)); VERIF_PROPAGATE;
    const bool has_theta = ((const uint8_t*)(ptr))[COMPACT_SKETCH_PRE_LONGS_BYTE] > 1;
    uint64_t theta = MAX_THETA;
    if (has_theta) {
      check_memory_size(ptr, size, 16, dump_on_error); VERIF_PROPAGATE;
      theta = ((const uint64_t*)(ptr))[COMPACT_SKETCH_V4_THETA_U64];
    }
    const uint8_t num_entries_bytes = ((const uint8_t*)(ptr))[COMPACT_SKETCH_V4_NUM_ENTRIES_BYTES_BYTE];
    size_t data_offset_bytes = has_theta ? COMPACT_SKETCH_V4_PACKED_DATA_ESTIMATION_BYTE : COMPACT_SKETCH_V4_PACKED_DATA_EXACT_BYTE;
    check_memory_size(ptr, size, data_offset_bytes + num_entries_bytes, dump_on_error); VERIF_PROPAGATE;
    uint32_t num_entries = 0;
    const uint8_t* num_entries_ptr = ((const uint8_t*)(ptr)) + data_offset_bytes;
    for (unsigned i = 0; i < num_entries_bytes; ++i) {
      num_entries |= (*num_entries_ptr++) << (i << 3);
    }
    data_offset_bytes += num_entries_bytes;
    const uint8_t entry_bits = ((const uint8_t*)(ptr))[COMPACT_SKETCH_V4_ENTRY_BITS_BYTE];
    const size_t expected_bits = entry_bits * num_entries;
    const size_t expected_size_bytes = data_offset_bytes + whole_bytes_to_hold_bits(expected_bits);
    check_memory_size(ptr, size, expected_size_bytes, dump_on_error); VERIF_PROPAGATE;
    return (compact_theta_sketch_data){false, true, seed_hash, num_entries, theta,
      ((const uint8_t*)(ptr)) + data_offset_bytes, entry_bits};
  }
  case 3: {
      uint64_t theta = MAX_THETA;
      const uint16_t seed_hash = ((const uint16_t*)(ptr))[COMPACT_SKETCH_SEED_HASH_U16];
      if (((const uint8_t*)(ptr))[COMPACT_SKETCH_FLAGS_BYTE] & (1 << COMPACT_SKETCH_IS_EMPTY_FLAG)) {
        return (compact_theta_sketch_data){true, true, seed_hash, 0, theta, NULL, 64};
      }
      check_seed_hash(seed_hash, compute_seed_hash(seed)); VERIF_PROPAGATE;
      const bool has_theta = ((const uint8_t*)(ptr))[COMPACT_SKETCH_PRE_LONGS_BYTE] > 2;
      if (has_theta) {
        check_memory_size(ptr, size, (COMPACT_SKETCH_THETA_U64 + 1) * sizeof(uint64_t), dump_on_error); VERIF_PROPAGATE;
        theta = ((const uint64_t*)(ptr))[COMPACT_SKETCH_THETA_U64];
      }
      if (((const uint8_t*)(ptr))[COMPACT_SKETCH_PRE_LONGS_BYTE] == 1) {
        check_memory_size(ptr, size, 16, dump_on_error); VERIF_PROPAGATE;
        return (compact_theta_sketch_data){false, true, seed_hash, 1, theta, ((const uint64_t*)(ptr)) + COMPACT_SKETCH_SINGLE_ENTRY_U64, 64};
      }
      const uint32_t num_entries = ((const uint32_t*)(ptr))[COMPACT_SKETCH_NUM_ENTRIES_U32];
      const size_t entries_start_u64 = has_theta ? COMPACT_SKETCH_ENTRIES_ESTIMATION_U64 : COMPACT_SKETCH_ENTRIES_EXACT_U64;
      const uint64_t* entries = ((const uint64_t*)(ptr)) + entries_start_u64;
      const size_t expected_size_bytes = (entries_start_u64 + num_entries) * sizeof(uint64_t);
      check_memory_size(ptr, size, expected_size_bytes, dump_on_error); VERIF_PROPAGATE;
      const bool is_ordered = ((const uint8_t*)(ptr))[COMPACT_SKETCH_FLAGS_BYTE] & (1 << COMPACT_SKETCH_IS_ORDERED_FLAG);
      return (compact_theta_sketch_data){false, is_ordered, seed_hash, num_entries, theta, entries, 64};
  }
  case 1:  {
      uint16_t seed_hash = compute_seed_hash(seed);
      const uint32_t num_entries = ((const uint32_t*)(ptr))[COMPACT_SKETCH_NUM_ENTRIES_U32];
      uint64_t theta = ((const uint64_t*)(ptr))[COMPACT_SKETCH_THETA_U64];
      bool is_empty = (num_entries == 0) && (theta == MAX_THETA);
      if (is_empty) return (compact_theta_sketch_data){true, true, seed_hash, 0, theta, NULL, 64};
      const uint64_t* entries = ((const uint64_t*)(ptr)) + COMPACT_SKETCH_ENTRIES_ESTIMATION_U64;
      const size_t expected_size_bytes = (COMPACT_SKETCH_ENTRIES_ESTIMATION_U64 + num_entries) * sizeof(uint64_t);
      check_memory_size(ptr, size, expected_size_bytes, dump_on_error); VERIF_PROPAGATE;
      return (compact_theta_sketch_data){false, true, seed_hash, num_entries, theta, entries, 64};
  }
  case 2:  {
      uint8_t preamble_size = ((const uint8_t*)(ptr))[COMPACT_SKETCH_PRE_LONGS_BYTE];
      const uint16_t seed_hash = ((const uint16_t*)(ptr))[COMPACT_SKETCH_SEED_HASH_U16];
      check_seed_hash(seed_hash, compute_seed_hash(seed)); VERIF_PROPAGATE;
      if (preamble_size == 1) {
          return (compact_theta_sketch_data){true, true, seed_hash, 0, MAX_THETA, NULL, 64};
      } else if (preamble_size == 2) {
          const uint32_t num_entries = ((const uint32_t*)(ptr))[COMPACT_SKETCH_NUM_ENTRIES_U32];
          if (num_entries == 0) {
              return (compact_theta_sketch_data){true, true, seed_hash, 0, MAX_THETA, NULL, 64};
          } else {
              const size_t expected_size_bytes = (preamble_size + num_entries) << 3;
              check_memory_size(ptr, size, expected_size_bytes, dump_on_error); VERIF_PROPAGATE;
              const uint64_t* entries = ((const uint64_t*)(ptr)) + COMPACT_SKETCH_ENTRIES_EXACT_U64;
              return (compact_theta_sketch_data){false, true, seed_hash, num_entries, MAX_THETA, entries, 64};
          }
      } else if (preamble_size == 3) {
          const uint32_t num_entries = ((const uint32_t*)(ptr))[COMPACT_SKETCH_NUM_ENTRIES_U32];
          uint64_t theta = ((const uint64_t*)(ptr))[COMPACT_SKETCH_THETA_U64];
          bool is_empty = (num_entries == 0) && (theta == MAX_THETA);
          if (is_empty) return (compact_theta_sketch_data){true, true, seed_hash, 0, theta, NULL, 64};
          const uint64_t* entries = ((const uint64_t*)(ptr)) + COMPACT_SKETCH_ENTRIES_ESTIMATION_U64;
          const size_t expected_size_bytes = (COMPACT_SKETCH_ENTRIES_ESTIMATION_U64 + num_entries) * sizeof(uint64_t);
          check_memory_size(ptr, size, expected_size_bytes, dump_on_error); VERIF_PROPAGATE;
          return (compact_theta_sketch_data){false, true, seed_hash, num_entries, theta, entries, 64};
      } else {
          VERIF_THROW;
      }
  }
  default:
    VERIF_THROW;
  }
}


void h(void){ const void* p; size_t n; uint64_t seed; verif_exc=0; parse(p,n,seed,0); }
