#include <stdint.h>
#include <stddef.h>
int verif_exc;
struct cpc_union { uint8_t lg_k; uint64_t* bit_matrix; };
/* ghost */
uint32_t g_s; uint32_t g_d; uint64_t g_old_d;
void or_matrix_into_matrix(struct cpc_union* self, const uint64_t* src_matrix, uint8_t src_lg_k)
__CPROVER_requires(__CPROVER_is_fresh(self, sizeof(*self)))
__CPROVER_requires(self->lg_k >= 4 && self->lg_k <= 26 && src_lg_k <= 26)
__CPROVER_requires(__CPROVER_is_fresh(self->bit_matrix, ((size_t)1 << self->lg_k) * 8))
__CPROVER_requires(__CPROVER_is_fresh(src_matrix, ((size_t)1 << src_lg_k) * 8))
__CPROVER_requires(g_d < (1u << self->lg_k) && g_s < (1u << src_lg_k) && (g_s & ((1u << self->lg_k) - 1)) == g_d)
__CPROVER_requires(g_old_d == self->bit_matrix[g_d])
__CPROVER_assigns(verif_exc, __CPROVER_object_whole(self->bit_matrix))
__CPROVER_ensures((verif_exc != 0) == (__CPROVER_old(self->lg_k) > src_lg_k))
/* every source row folded onto g_d is contained, the old content is kept */
__CPROVER_ensures(verif_exc == 0 ==> (self->bit_matrix[g_d] & src_matrix[g_s]) == src_matrix[g_s])
__CPROVER_ensures(verif_exc == 0 ==> (self->bit_matrix[g_d] & g_old_d) == g_old_d)
{
  if (self->lg_k > src_lg_k) { verif_exc = 1; return; }
  const uint64_t dst_mask = (1 << self->lg_k) - 1; // downsamples when dst lgK < src LgK
  const uint32_t src_k = 1 << src_lg_k;
  for (uint32_t src_row = 0; src_row < src_k; src_row++)
  __CPROVER_assigns(src_row, __CPROVER_object_whole(self->bit_matrix))
  __CPROVER_loop_invariant(src_row <= src_k)
  __CPROVER_loop_invariant((self->bit_matrix[g_d] & g_old_d) == g_old_d)
  __CPROVER_loop_invariant(src_row > g_s ==> (self->bit_matrix[g_d] & src_matrix[g_s]) == src_matrix[g_s])
  __CPROVER_decreases(src_k - src_row)
  {
    self->bit_matrix[src_row & dst_mask] |= src_matrix[src_row];
  }
}
void h(void){ struct cpc_union* u; const uint64_t* m; uint8_t lg; verif_exc = 0; or_matrix_into_matrix(u, m, lg); }
