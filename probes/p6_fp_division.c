#include <math.h>
void h(void){ double est, eps; __CPROVER_assume(est >= 0.0 && !isinf(est) && eps >= 0.0 && eps < 0.5);
  double lb = est / (1.0 + eps); double ub = est / (1.0 - eps);
  __CPROVER_assert(lb <= est, "lb<=est"); __CPROVER_assert(ub >= est, "ub>=est"); }
void h2(void){ double k, kxp; __CPROVER_assume(k>=16.0 && k <= 67108864.0 && kxp > 0.0 && kxp <= k);
  __CPROVER_assert(k / kxp >= 1.0, "hip increment >= 1"); }
