#include <stdint.h>
#include <stddef.h>
#include <string.h>

/* uninterpreted multiplication: one infinite nondet array per constant multiplier class */
extern uint64_t uf_tab[__CPROVER_constant_infinity_uint];
static inline uint64_t UFMUL(uint64_t a, uint64_t c){
  /* distinct constants -> distinct functions, encoded by mixing c into a second-level table */
  extern uint64_t uf_tab2[__CPROVER_constant_infinity_uint];
  return uf_tab[a] ^ uf_tab2[c] + uf_tab[a ^ c];
}
#define MURMUR3_FORCE_INLINE static inline
#define MURMUR3_ROTL64(x,y) rotl64(x,y)
#define MURMUR3_BIG_CONSTANT(x) (x##LLU)
inline uint64_t rotl64 ( uint64_t x, int8_t r )
{
  return (x << r) | (x >> (64 - r));
}

//-----------------------------------------------------------------------------

//-----------------------------------------------------------------------------
// Return type - Using C++ reference for return type which should allow better
// compiler optimization than a void* pointer
typedef struct {
  uint64_t h1;
  uint64_t h2;
} HashState;


//-----------------------------------------------------------------------------
// Block read - if your platform needs to do endian-swapping or can only
// handle aligned reads, do the conversion here

MURMUR3_FORCE_INLINE uint64_t getblock64 ( const uint8_t * p, size_t i )
{
  uint64_t res;
  memcpy(&res, p + i * sizeof(uint64_t), sizeof(res));
  return res;
}

//-----------------------------------------------------------------------------
// Finalization mix - force all bits of a hash block to avalanche

MURMUR3_FORCE_INLINE uint64_t fmix64 ( uint64_t k )
{
  k ^= k >> 33;
  k = UFMUL(k, MURMUR3_BIG_CONSTANT(0xff51afd7ed558ccd));
  k ^= k >> 33;
  k = UFMUL(k, MURMUR3_BIG_CONSTANT(0xc4ceb9fe1a85ec53));
  k ^= k >> 33;

  return k;
}

MURMUR3_FORCE_INLINE void MurmurHash3_x64_128(const void* key, size_t lenBytes,
                                              uint64_t seed, HashState* outp) {
  static const uint64_t c1 = MURMUR3_BIG_CONSTANT(0x87c37b91114253d5);
  static const uint64_t c2 = MURMUR3_BIG_CONSTANT(0x4cf5ad432745937f);

  const uint8_t* data = (const uint8_t*)key;

  outp->h1 = seed;
  outp->h2 = seed;

  // Number of full 128-bit blocks of 16 bytes.
  // Possible exclusion of a remainder of up to 15 bytes.
  const size_t nblocks = lenBytes >> 4; // bytes / 16

  // Process the 128-bit blocks (the body) into the hash
  for (size_t i = 0; i < nblocks; ++i) { // 16 bytes per block
    uint64_t k1 = getblock64(data, i * 2 + 0);
    uint64_t k2 = getblock64(data, i * 2 + 1);

    k1 = UFMUL(k1, c1); k1  = MURMUR3_ROTL64(k1,31); k1 = UFMUL(k1, c2); outp->h1 ^= k1;
    outp->h1 = MURMUR3_ROTL64(outp->h1,27);
    outp->h1 += outp->h2;
    outp->h1 = UFMUL(outp->h1, 5)+0x52dce729;

    k2 = UFMUL(k2, c2); k2  = MURMUR3_ROTL64(k2,33); k2 = UFMUL(k2, c1); outp->h2 ^= k2;
    outp->h2 = MURMUR3_ROTL64(outp->h2,31);
    outp->h2 += outp->h1;
    outp->h2 = UFMUL(outp->h2, 5)+0x38495ab5;
  }

  // tail
  const uint8_t * tail = (const uint8_t*)(data + (nblocks << 4));

  uint64_t k1 = 0;
  uint64_t k2 = 0;

  switch(lenBytes & 15)
  {
  case 15: k2 ^= ((uint64_t)tail[14]) << 48; // falls through
  case 14: k2 ^= ((uint64_t)tail[13]) << 40; // falls through
  case 13: k2 ^= ((uint64_t)tail[12]) << 32; // falls through
  case 12: k2 ^= ((uint64_t)tail[11]) << 24; // falls through
  case 11: k2 ^= ((uint64_t)tail[10]) << 16; // falls through
  case 10: k2 ^= ((uint64_t)tail[ 9]) << 8;  // falls through
  case  9: k2 ^= ((uint64_t)tail[ 8]) << 0;
           k2 = UFMUL(k2, c2); k2  = MURMUR3_ROTL64(k2,33); k2 = UFMUL(k2, c1); outp->h2 ^= k2;
           // falls through
  case  8: k1 ^= ((uint64_t)tail[ 7]) << 56; // falls through
  case  7: k1 ^= ((uint64_t)tail[ 6]) << 48; // falls through
  case  6: k1 ^= ((uint64_t)tail[ 5]) << 40; // falls through
  case  5: k1 ^= ((uint64_t)tail[ 4]) << 32; // falls through
  case  4: k1 ^= ((uint64_t)tail[ 3]) << 24; // falls through
  case  3: k1 ^= ((uint64_t)tail[ 2]) << 16; // falls through
  case  2: k1 ^= ((uint64_t)tail[ 1]) << 8; // falls through
  case  1: k1 ^= ((uint64_t)tail[ 0]) << 0;
           k1 = UFMUL(k1, c1); k1  = MURMUR3_ROTL64(k1,31); k1 = UFMUL(k1, c2); outp->h1 ^= k1;
  };

  //----------
  // finalization

  outp->h1 ^= lenBytes;
  outp->h2 ^= lenBytes;

  outp->h1 += outp->h2;
  outp->h2 += outp->h1;

  outp->h1 = fmix64(outp->h1);
  outp->h2 = fmix64(outp->h2);

  outp->h1 += outp->h2;
  outp->h2 += outp->h1;
}

//-----------------------------------------------------------------------------

MURMUR3_FORCE_INLINE uint16_t compute_seed_hash(uint64_t seed) {
  HashState hashes;
  MurmurHash3_x64_128(&seed, sizeof(seed), 0, &hashes);
  return (uint16_t)(hashes.h1 & 0xffff);
}



/* reference: Austin Appleby, MurmurHash3_x64_128 (public domain), seed widened to 64 bit */
static uint64_t ref_rotl(uint64_t x, int8_t r){ return (x<<r)|(x>>(64-r)); }
static uint64_t ref_fmix(uint64_t k){ k^=k>>33; k = UFMUL(k, 0xff51afd7ed558ccdULL); k^=k>>33; k = UFMUL(k, 0xc4ceb9fe1a85ec53ULL); k^=k>>33; return k; }
static uint64_t ref_getblock(const uint8_t* p, size_t i){ uint64_t r; memcpy(&r, p+i*8, 8); return r; }
static void ref_murmur(const uint8_t* data, size_t len, uint64_t seed, uint64_t* o1, uint64_t* o2){
  const uint64_t c1=0x87c37b91114253d5ULL, c2=0x4cf5ad432745937fULL;
  uint64_t h1=seed,h2=seed; const size_t nblocks=len/16;
  for(size_t i=0;i<nblocks;i++){ uint64_t k1=ref_getblock(data,i*2+0), k2=ref_getblock(data,i*2+1);
    k1 = UFMUL(k1, c1);k1=ref_rotl(k1,31);k1 = UFMUL(k1, c2);h1^=k1; h1=ref_rotl(h1,27);h1+=h2;h1 = UFMUL(h1, 5)+0x52dce729;
    k2 = UFMUL(k2, c2);k2=ref_rotl(k2,33);k2 = UFMUL(k2, c1);h2^=k2; h2=ref_rotl(h2,31);h2+=h1;h2 = UFMUL(h2, 5)+0x38495ab5; }
  const uint8_t* tail=data+nblocks*16; uint64_t k1=0,k2=0;
  switch(len&15){
  case 15: k2^=((uint64_t)tail[14])<<48;
  case 14: k2^=((uint64_t)tail[13])<<40;
  case 13: k2^=((uint64_t)tail[12])<<32;
  case 12: k2^=((uint64_t)tail[11])<<24;
  case 11: k2^=((uint64_t)tail[10])<<16;
  case 10: k2^=((uint64_t)tail[9])<<8;
  case 9: k2^=((uint64_t)tail[8])<<0; k2 = UFMUL(k2, c2);k2=ref_rotl(k2,33);k2 = UFMUL(k2, c1);h2^=k2;
  case 8: k1^=((uint64_t)tail[7])<<56;
  case 7: k1^=((uint64_t)tail[6])<<48;
  case 6: k1^=((uint64_t)tail[5])<<40;
  case 5: k1^=((uint64_t)tail[4])<<32;
  case 4: k1^=((uint64_t)tail[3])<<24;
  case 3: k1^=((uint64_t)tail[2])<<16;
  case 2: k1^=((uint64_t)tail[1])<<8;
  case 1: k1^=((uint64_t)tail[0])<<0; k1 = UFMUL(k1, c1);k1=ref_rotl(k1,31);k1 = UFMUL(k1, c2);h1^=k1;
  };
  h1^=len;h2^=len;h1+=h2;h2+=h1;h1=ref_fmix(h1);h2=ref_fmix(h2);h1+=h2;h2+=h1;*o1=h1;*o2=h2;
}
#ifndef LEN
#define LEN 8
#endif
void harness(void){
  uint8_t key[LEN>0?LEN:1]; uint64_t seed; HashState hs; uint64_t r1,r2;
  MurmurHash3_x64_128(key, LEN, seed, &hs);
  ref_murmur(key, LEN, seed, &r1, &r2);
  __CPROVER_assert(hs.h1==r1 && hs.h2==r2, "murmur == reference");
}
