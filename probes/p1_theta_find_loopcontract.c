#include <stdint.h>
#include <stddef.h>
#include <stdbool.h>
typedef struct { uint64_t* first; bool second; } pair_it_bool;
int verif_exc;
#define STRIDE_MASK 127u
static inline uint32_t get_stride(uint64_t key, uint8_t lg_size)
__CPROVER_requires(lg_size <= 31)
__CPROVER_ensures((__CPROVER_return_value & 1) == 1 && __CPROVER_return_value <= 255)
__CPROVER_assigns()
{
  return (2 * (uint32_t)((key >> lg_size) & STRIDE_MASK)) + 1;
}

pair_it_bool find(uint64_t* entries, uint8_t lg_size, uint64_t key)
__CPROVER_requires(lg_size >= 1 && lg_size <= 27)
__CPROVER_requires(key != 0)
__CPROVER_requires(__CPROVER_is_fresh(entries, ((size_t)1 << lg_size) * sizeof(uint64_t)))
__CPROVER_assigns(verif_exc)
__CPROVER_ensures(verif_exc == 0 ==> (__CPROVER_same_object(__CPROVER_return_value.first, entries)
   && __CPROVER_POINTER_OFFSET(__CPROVER_return_value.first) < ((size_t)1 << lg_size) * sizeof(uint64_t)
   && __CPROVER_POINTER_OFFSET(__CPROVER_return_value.first) % 8 == 0))
__CPROVER_ensures(verif_exc == 0 ==> (__CPROVER_return_value.second ? *__CPROVER_return_value.first == key : *__CPROVER_return_value.first == 0))
{
  const uint32_t size = 1 << lg_size;
  const uint32_t mask = size - 1;
  const uint32_t stride = get_stride(key, lg_size);
  uint32_t index = (uint32_t)(key) & mask;
  // search for duplicate or zero
  const uint32_t loop_index = index;
  do
  __CPROVER_assigns(index)
  __CPROVER_loop_invariant(index <= mask)
  {
    const uint64_t probe = (entries[index]);
    if (probe == 0) {
      return (pair_it_bool){&entries[index], false};
    } else if (probe == key) {
      return (pair_it_bool){&entries[index], true};
    }
    index = (index + stride) & mask;
  } while (index != loop_index);
  verif_exc = 1; return (pair_it_bool){0,false};
}
void h_find(void) {
  uint64_t* e; uint8_t lg; uint64_t key;
  verif_exc = 0;
  find(e, lg, key);
}
