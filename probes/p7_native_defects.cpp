#include <iostream>
#include <vector>
#include "hll.hpp"
#include "kll_sketch.hpp"
#include "req_sketch.hpp"
#include "bloom_filter.hpp"
#include "tdigest.hpp"
using namespace datasketches;
int main() {
  { // C04
    hll_sketch a(12), b(10);
    for (int i = 0; i < 100000; i++) a.update(i);
    for (int i = 100000; i < 101000; i++) b.update(i);
    hll_union u(10);
    u.update(a); u.update(b);
    std::cout << "C04 union est=" << u.get_result().get_composite_estimate() << " (expect ~101000)\n";
  }
  { // C07 KLL
    kll_sketch<float> s1(200), s2(200);
    for (int i = 0; i < 100000; i++) s2.update(i);
    // make level 0 of result empty: merge estimating sketch into empty one
    s1.merge(s2);
    uint64_t w = 0; uint32_t cnt = 0;
    for (auto it: s1) { w += it.second; cnt++; }
    std::cout << "C07 kll n=" << s1.get_n() << " iter weight sum=" << w << " cnt=" << cnt << " retained=" << s1.get_num_retained() << "\n";
  }
  { // C15
    size_t nbytes = bloom_filter::get_serialized_size_bytes(1024);
    std::vector<uint8_t> mem(nbytes, 0);
    {
      auto f = bloom_filter::builder::initialize_by_size(mem.data(), nbytes, 1024, 3, 123);
      f.update((uint64_t)42);
      std::cout << "C15 writable query=" << f.query((uint64_t)42) << "\n";
    }
    auto g = bloom_filter::wrap(mem.data(), nbytes);
    std::cout << "C15 rewrap query=" << g.query((uint64_t)42) << " (expect 1)\n";
  }
  return 0;
}
