#include <stdint.h>
#include <stddef.h>
int verif_exc;
uint64_t g_sum; /* ghost */
static inline uint32_t warren_bit_count(uint64_t i)
__CPROVER_ensures(__CPROVER_return_value == (uint32_t)__builtin_popcountll(i))
__CPROVER_assigns()
{
  i = i - ((i >> 1) & 0x5555555555555555ULL);
  i = (i & 0x3333333333333333ULL) + ((i >> 2) & 0x3333333333333333ULL);
  i = (i + (i >> 4)) & 0x0f0f0f0f0f0f0f0fULL;
  i = i + (i >> 8);
  i = i + (i >> 16);
  i = i + (i >> 32);
  return i & 0x7f;
}
#define DATASKETCHES_CSA(h, l, a, b, c) \
  {                                     \
    uint64_t u = a ^ b;                 \
    uint64_t v = c;                     \
    h = (a & b) | (u & v);              \
    l = u ^ v;                          \
  }
#define PC(x) ((uint64_t)__builtin_popcountll(x))
uint32_t count_bits_set_in_matrix(const uint64_t* a, uint32_t length)
__CPROVER_requires(length <= (1u<<26) && length >= 8)
__CPROVER_requires(__CPROVER_is_fresh(a, (size_t)length * 8))
__CPROVER_assigns(verif_exc, g_sum)
__CPROVER_ensures(verif_exc == 0 ==> __CPROVER_return_value == g_sum)
__CPROVER_ensures((verif_exc != 0) == ((length & 7) != 0))
{
  if ((length & 0x7) != 0) { verif_exc = 1; return 0; }
  uint32_t total = 0;
  uint64_t ones, twos, twos_a, twos_b, fours, fours_a, fours_b, eights;
  fours = twos = ones = 0;
  g_sum = 0;
  for (uint32_t i = 0; i <= length - 8; i += 8)
  __CPROVER_assigns(i, total, ones, twos, twos_a, twos_b, fours, fours_a, fours_b, eights, g_sum)
  __CPROVER_loop_invariant(i <= length && (i & 7) == 0)
  __CPROVER_loop_invariant(total <= i / 8 * 8)
  __CPROVER_loop_invariant(g_sum <= (uint64_t)i * 64)
  __CPROVER_loop_invariant(8 * (uint64_t)total + 4 * PC(fours) + 2 * PC(twos) + PC(ones) == g_sum)
  {
    DATASKETCHES_CSA(twos_a, ones, ones, a[i+0], a[i+1]);
    DATASKETCHES_CSA(twos_b, ones, ones, a[i+2], a[i+3]);
    DATASKETCHES_CSA(fours_a, twos, twos, twos_a, twos_b);

    DATASKETCHES_CSA(twos_a, ones, ones, a[i+4], a[i+5]);
    DATASKETCHES_CSA(twos_b, ones, ones, a[i+6], a[i+7]);
    DATASKETCHES_CSA(fours_b, twos, twos, twos_a, twos_b);

    DATASKETCHES_CSA(eights, fours, fours, fours_a, fours_b);

    total += warren_bit_count(eights);
    g_sum += PC(a[i+0])+PC(a[i+1])+PC(a[i+2])+PC(a[i+3])+PC(a[i+4])+PC(a[i+5])+PC(a[i+6])+PC(a[i+7]); /* ghost */
  }
  total = 8 * total + 4 * warren_bit_count(fours) + 2 * warren_bit_count(twos) + warren_bit_count(ones);
  return total;
}
void h(void){ const uint64_t* a; uint32_t n; verif_exc=0; count_bits_set_in_matrix(a,n); }
void h2(void){ uint64_t x; warren_bit_count(x); }
