#include <iostream>
#include "kll_sketch.hpp"
#include "req_sketch.hpp"
using namespace datasketches;
int main() {
  int bad = 0;
  for (int n1 = 0; n1 < 600 && bad < 3; n1 += 7) for (int n2 = 200; n2 < 3000 && bad < 3; n2 += 13) {
    kll_sketch<float> s1(8), s2(8);
    for (int i = 0; i < n1; i++) s1.update(i);
    for (int i = 0; i < n2; i++) s2.update(i);
    s1.merge(s2);
    uint64_t w = 0; uint32_t cnt = 0;
    for (auto it: s1) { w += it.second; cnt++; }
    if (w != s1.get_n() || cnt != s1.get_num_retained()) { bad++; std::cout << "KLL n1=" << n1 << " n2=" << n2 << " n=" << s1.get_n() << " wsum=" << w << " cnt=" << cnt << " retained=" << s1.get_num_retained() << "\n"; }
  }
  std::cout << "kll bad=" << bad << "\n";
  return 0;
}
