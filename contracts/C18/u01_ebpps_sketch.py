import crules
F = "sampling/include/ebpps_sketch_impl.hpp"
MEMBERS = ["k_", "n_", "cumulative_wt_", "wt_max_", "rho_", "sample_", "tmp_"]
SK = "ebpps_sketch<T, A>"

PRELUDE = r'''
typedef uint64_t T;
struct sample { double c_; T partial_item_; bool has_partial_; T* data_; size_t data_size; };
struct ebpps { uint32_t k_; uint64_t n_; double cumulative_wt_; double wt_max_; double rho_; struct sample sample_; struct sample tmp_; };
double __CPROVER_uninterpreted_fdiv(double, double);
#define FDIV(a, b) __CPROVER_uninterpreted_fdiv((double)(a), (double)(b))
double __CPROVER_uninterpreted_fmul(double, double);
#define FMUL(a, b) __CPROVER_uninterpreted_fmul((double)(a), (double)(b))
#define FMAX(a, b) ((a) < (b) ? (b) : (a))
#define FMIN(a, b) ((b) < (a) ? (b) : (a))
#define NOTNAN(x) ((x) == (x))
#define SAME(a, b) ((a) == (b) || (!NOTNAN(a) && !NOTNAN(b)))
/* the sampling rate the property prescribes: expected sample size c = rho * cumulative weight = min(k, cumulative weight / maximum weight) */
#define RHO_SPEC(k, wt_max, cum) FMIN(FDIV(1.0, wt_max), FDIV(k, cum))
uint32_t g_k0; double g_wmax0;   /* ghost: k and maximum weight of the target at entry to internal_merge */
/* ebpps_sample operations: contracts ASSUMED in this unit (frames only; the sample unit is separate) */
void sample_downsample(struct sample* s, double theta) __CPROVER_requires(__CPROVER_rw_ok(s, sizeof(*s))) __CPROVER_assigns(s->c_, s->partial_item_, s->has_partial_, s->data_size, __CPROVER_object_whole(s->data_));
void sample_replace_content(struct sample* s, T item, double theta) __CPROVER_requires(__CPROVER_rw_ok(s, sizeof(*s))) __CPROVER_assigns(s->c_, s->partial_item_, s->has_partial_, s->data_size, __CPROVER_object_whole(s->data_));
void sample_merge(struct sample* s, const struct sample* other) __CPROVER_requires(__CPROVER_rw_ok(s, sizeof(*s)) && __CPROVER_r_ok(other, sizeof(*other)))
  __CPROVER_assigns(s->c_, s->partial_item_, s->has_partial_, s->data_size, __CPROVER_object_whole(s->data_));
/* std::modf: fractional part in [0, 1) for finite non-negative arguments (ASSUMED: C library) */
double modf_frac(double x) __CPROVER_assigns() __CPROVER_ensures(!(x >= 0.0 && x - x == 0.0) || (__CPROVER_return_value >= 0.0 && __CPROVER_return_value < 1.0));
#define SK_FRESH(s) (__CPROVER_is_fresh((s)->sample_.data_, 8) && __CPROVER_is_fresh((s)->tmp_.data_, 8))
'''
UF = [(crules.div_to_uf(), "every binary / -> FDIV", "any")]
COMMON = [(r"std::max\(", "FMAX(", "any"), (r"std::min\(", "FMIN(", "any"),
          (r"self->sample_\.downsample\(", "sample_downsample(&self->sample_, ", "any"),
          (r"self->tmp_\.replace_content\(conditional_forward<\w+>\(([^;]*?)\), ", r"sample_replace_content(&self->tmp_, \1, ", "any"),
          (r"self->sample_\.merge\(self->tmp_\);", "sample_merge(&self->sample_, &self->tmp_);", "any")]

internal_update = {
    "name": "internal_update", "file": F, "members": MEMBERS, "match": r"void %s::internal_update\(FwdItem&& item, double weight\)" % SK,
    "sig": "void internal_update(struct ebpps* self, T item, double weight)",
    "rules": COMMON + UF + [(r"new_rho \* weight", "FMUL(new_rho, weight)", 1)],
    "contract": r'''
__CPROVER_requires(__CPROVER_is_fresh(self, sizeof(*self)) && SK_FRESH(self) && verif_exc == 0 && self->n_ < UINT64_MAX)
__CPROVER_assigns(verif_exc, self->n_, self->cumulative_wt_, self->wt_max_, self->rho_, self->sample_.c_, self->sample_.partial_item_, self->sample_.has_partial_, self->sample_.data_size,
                  self->tmp_.c_, self->tmp_.partial_item_, self->tmp_.has_partial_, self->tmp_.data_size, __CPROVER_object_whole(self->sample_.data_), __CPROVER_object_whole(self->tmp_.data_))
/* negative, NaN and infinite weights are refused, zero weights ignored: n and the cumulative weight are untouched */
__CPROVER_ensures((verif_exc != 0) == (weight < 0.0 || weight != weight || (weight - weight != 0.0)))
__CPROVER_ensures((verif_exc != 0 || weight == 0.0) ==> (self->n_ == __CPROVER_old(self->n_) && SAME(self->cumulative_wt_, __CPROVER_old(self->cumulative_wt_)) && SAME(self->wt_max_, __CPROVER_old(self->wt_max_))))
/* an accepted item: n counts it, the cumulative weight adds its weight, the maximum weight follows, and the rate is the one the property prescribes */
__CPROVER_ensures((verif_exc == 0 && weight > 0.0) ==> (self->n_ == __CPROVER_old(self->n_) + 1 && SAME(self->cumulative_wt_, __CPROVER_old(self->cumulative_wt_) + weight)
                   && SAME(self->wt_max_, FMAX(__CPROVER_old(self->wt_max_), weight)) && SAME(self->rho_, RHO_SPEC(self->k_, self->wt_max_, self->cumulative_wt_))))
''',
}

internal_merge = {
    "name": "internal_merge", "file": F, "members": MEMBERS, "match": r"void %s::internal_merge\(O&& sk\)" % SK,
    "sig": "void internal_merge(struct ebpps* self, const struct ebpps* sk)", "refs": ["sk"], "nloops": 1,
    "pre_rules": [(r"const ebpps_sample<T,A>& other_sample = sk\.sample_;", "const struct sample* other_sample_p = &sk.sample_;", 1),
                  (r"sk\.get_cumulative_weight\(\)", "sk.cumulative_wt_", "any"), (r"sk\.get_c\(\)", "sk.sample_.c_", "any"), (r"other_sample\.get_c\(\)", "other_sample_p->c_", "any"),
                  (r"auto items = other_sample\.get_full_items\(\);", "const T* items = other_sample_p->data_; const size_t items_size = other_sample_p->data_size;", 1),
                  (r"items\.size\(\)", "items_size", 1), (r"other_sample\.has_partial_item\(\)", "other_sample_p->has_partial_", 1),
                  (r"double unused;\s*const double other_c_frac = std::modf\(([^,]*), &unused\);", r"const double other_c_frac = modf_frac(\1);", 1),
                  (r"conditional_forward<O>\(other_sample\.get_partial_item\(\)\)", "conditional_forward<O>(other_sample_p->partial_item_)", 1)],
    "rules": COMMON + UF + [(r"new_rho \* avg_wt", "FMUL(new_rho, avg_wt)", 1), (r"new_rho \* other_c_frac \* avg_wt", "FMUL(FMUL(new_rho, other_c_frac), avg_wt)", 1),
                            (r"\(other_c_frac \* avg_wt\)", "FMUL(other_c_frac, avg_wt)", 1)],
    "inserts": [(r"^\{", "g_k0 = self->k_; g_wmax0 = self->wt_max_;", "after", 1),
                (r"const double new_rho = [^;]*;", '__CPROVER_assert(SAME(new_rho, RHO_SPEC((sk->k_ < g_k0 ? sk->k_ : g_k0), FMAX(g_wmax0, sk->wt_max_), new_cum_wt)), '
                 '"VERIF every replayed item uses the rate prescribed for the merged k and the merged maximum weight");', "after", 2)],
    "contract": r'''
__CPROVER_requires(__CPROVER_is_fresh(self, sizeof(*self)) && SK_FRESH(self) && __CPROVER_is_fresh(sk, sizeof(*sk)) && sk->sample_.data_size <= 1000000 && __CPROVER_is_fresh(sk->sample_.data_, sk->sample_.data_size * 8 + 8))
__CPROVER_requires(verif_exc == 0)
__CPROVER_assigns(verif_exc, g_k0, g_wmax0, self->k_, self->n_, self->cumulative_wt_, self->wt_max_, self->rho_, self->sample_.c_, self->sample_.partial_item_, self->sample_.has_partial_, self->sample_.data_size,
                  self->tmp_.c_, self->tmp_.partial_item_, self->tmp_.has_partial_, self->tmp_.data_size, __CPROVER_object_whole(self->sample_.data_), __CPROVER_object_whole(self->tmp_.data_))
/* merging adds n and the cumulative weight and takes the smaller k */
__CPROVER_ensures(self->n_ == __CPROVER_old(self->n_) + sk->n_ && self->k_ == (sk->k_ < __CPROVER_old(self->k_) ? sk->k_ : __CPROVER_old(self->k_)))
__CPROVER_ensures(SAME(self->cumulative_wt_, __CPROVER_old(self->cumulative_wt_) + sk->cumulative_wt_))
/* the maximum weight of the combined stream is the larger of the two maxima (c = min(k, cumulative weight / maximum weight) is stated over the whole input) */
__CPROVER_ensures(SAME(self->wt_max_, FMAX(__CPROVER_old(self->wt_max_), sk->wt_max_)))
''',
    "loops": {1: r'''
__CPROVER_assigns(i, self->cumulative_wt_, self->rho_, self->sample_.c_, self->sample_.partial_item_, self->sample_.has_partial_, self->sample_.data_size,
                  self->tmp_.c_, self->tmp_.partial_item_, self->tmp_.has_partial_, self->tmp_.data_size, __CPROVER_object_whole(self->sample_.data_), __CPROVER_object_whole(self->tmp_.data_))
__CPROVER_loop_invariant(i <= items_size)
__CPROVER_decreases(items_size - i)
'''},
}

HARNESS = r'''
void h_update(void) { struct ebpps* s = malloc(sizeof(*s)); verif_exc = 0; internal_update(s, nondet_u64(), nondet_double()); VERIF_CANARY_POINT; }
void h_merge(void) { struct ebpps* s = malloc(sizeof(*s)); struct ebpps* o = malloc(sizeof(*o)); verif_exc = 0; internal_merge(s, o); VERIF_CANARY_POINT; }
'''
UNIT = {
    "id": "ebpps_sketch", "property": "C18",
    "clause": "ebpps_sketch::internal_update and internal_merge bookkeeping: invalid weights refused and zero weights ignored without touching n or the cumulative weight; an accepted item "
              "adds 1 to n and its weight to the cumulative weight, the maximum weight follows, and the sampling rate is min(1/wt_max, k/cumulative weight) (so c = min(k, W/w_max)); a merge adds n "
              "and the cumulative weight, takes the smaller k before replaying the other sketch's items, takes the larger maximum weight, and replays every item with the rate prescribed for the merged k and maximum",
    "prelude": PRELUDE, "parts": [internal_update, internal_merge], "harness": HARNESS,
    "jobs": [{"name": "internal_update", "entry": "h_update", "enforce": "internal_update", "replace": ["sample_downsample", "sample_replace_content", "sample_merge"], "timeout": 600},
             {"name": "internal_merge", "entry": "h_merge", "enforce": "internal_merge", "replace": ["sample_downsample", "sample_replace_content", "sample_merge", "modf_frac"], "loops": True, "expect_loop_steps": 1, "timeout": 900}],
    "replay": {"internal_merge": {"template": "ebpps_merge_wtmax.cpp", "vars": {}}},
    "assumptions": ["T = uint64_t; ebpps_sample operations (downsample, replace_content, merge) enter through ASSUMED frame-only contracts: the sample's own structure is not decided here",
                    "FP division and the products new_rho * weight kept uninterpreted; FP addition, max/min and comparisons bit-precise; std::modf: fractional part in [0,1) (assumed)",
                    "conditional_forward<O>(x) == x for a trivially copyable item"],
}
