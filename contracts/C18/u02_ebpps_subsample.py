F = "sampling/include/ebpps_sample_impl.hpp"
MEMBERS = ["c_", "partial_item_", "data_"]
PRELUDE = r'''
typedef uint64_t T;
struct ebsample { double c_; T* data_; size_t data_size; bool partial_has; T partial_val; };   /* optional<T> partial_item_ = (has, value) */
/* ghost: number of draws, the range of the last draw; an arbitrary input position g_i, its item g_v, and where that item currently is (g_p) */
uint32_t g_draws, g_last_max, g_last_ret; uint32_t g_i, g_p; T g_v; T g_last0, g_part0;
/* random_idx(max): TRUSTED to return a value in [0, max) (std::uniform_int_distribution over [0, max - 1]); every outcome is covered; the range asked for is recorded */
uint32_t random_idx(struct ebsample* self, uint32_t max) __CPROVER_requires(max >= 1) __CPROVER_assigns(g_draws, g_last_max, g_last_ret)
  __CPROVER_ensures(__CPROVER_return_value < max && g_last_max == max && g_last_ret == __CPROVER_return_value && g_draws == __CPROVER_old(g_draws) + 1);
'''
subsample = {
    "name": "subsample", "file": F, "members": MEMBERS, "match": r"void ebpps_sample<T,A>::subsample\(uint32_t num_samples\)",
    "sig": "void subsample(struct ebsample* self, uint32_t num_samples)", "nloops": 1,
    "pre_rules": [(r"data_\.size\(\)", "data_size", 2), (r"auto erase_start = data_\.begin\(\);", "uint32_t erase_start = 0;", 1),
                  (r"std::swap\(data_\[i\], data_\[j\]\);", "{ T t_ = data_[i]; data_[i] = data_[j]; data_[j] = t_; if (g_p == i) g_p = j; else if (g_p == j) g_p = i; }", 1),
                  (r"data_\.erase\(erase_start, data_\.end\(\)\);", "data_size = erase_start;", 1)],
    "rules": [(r"(?<![\w>])data_size", "self->data_size", "any")],
    "methods": ["random_idx"],
    "contract": r'''
__CPROVER_requires(__CPROVER_rw_ok(self, sizeof(*self)) && self->data_size >= 1 && self->data_size <= ((size_t)1 << 26) && __CPROVER_rw_ok(self->data_, self->data_size * sizeof(T)) && num_samples <= self->data_size)
__CPROVER_requires(g_i < self->data_size && g_p == g_i && g_v == self->data_[g_i] && g_draws == 0)
__CPROVER_assigns(self->data_size, g_draws, g_last_max, g_last_ret, g_p, __CPROVER_object_whole(self->data_))
/* exactly num_samples items are kept */
__CPROVER_ensures(self->data_size == num_samples)
/* the items are only permuted before the cut: an arbitrary input item is still in the array, at g_p, and it is kept exactly if it ended up in front of the cut */
__CPROVER_ensures(g_p < __CPROVER_old(self->data_size) && self->data_[g_p] == g_v)
/* a full-size request draws nothing and moves nothing; otherwise there is one draw per kept item */
__CPROVER_ensures(num_samples == __CPROVER_old(self->data_size) ? (g_draws == 0 && g_p == g_i) : g_draws == num_samples)
''',
    "loops": {1: r'''
__CPROVER_assigns(i, erase_start, g_draws, g_last_max, g_last_ret, g_p, __CPROVER_object_whole(self->data_))
__CPROVER_loop_invariant(i <= num_samples && erase_start == i && g_draws == i && g_p < data_len && self->data_[g_p] == g_v && data_len == (uint32_t)self->data_size)
/* structural reason for uniformity (Fisher-Yates): draw number i ranges over ALL items not yet fixed, i.e. over data_len - i positions */
__CPROVER_loop_invariant(i > 0 ==> g_last_max == data_len - (i - 1))
__CPROVER_decreases(num_samples - i)
'''},
}
PART_RULES = [(r"data_\.size\(\)", "data_size", "any"), (r"conditional_forward<FwdItem>\(item\)", "item", "any")]
WFS = "__CPROVER_rw_ok(self, sizeof(*self)) && self->data_size >= 1 && self->data_size <= ((size_t)1 << 26) && __CPROVER_rw_ok(self->data_, self->data_size * sizeof(T))"
set_partial = {
    "name": "set_partial", "file": F, "members": MEMBERS, "match": r"void ebpps_sample<T,A>::set_partial\(FwdItem&& item\)", "sig": "void set_partial(struct ebsample* self, T item)", "nloops": 0,
    "pre_rules": PART_RULES + [(r"if \(partial_item_\)", "if (partial_has)", 1), (r"\*partial_item_ = item;", "partial_val = item;", 1), (r"partial_item_\.emplace\(item\);", "{ partial_val = item; partial_has = 1; }", 1)],
    "rules": [(r"(?<![\w>])partial_(has|val)", r"self->partial_\1", "any")],
    "contract": "__CPROVER_requires(__CPROVER_rw_ok(self, sizeof(*self)))\n__CPROVER_assigns(self->partial_has, self->partial_val)\n__CPROVER_ensures(self->partial_has && self->partial_val == item)\n",
}
move_one = {
    "name": "move_one_to_partial", "file": F, "members": MEMBERS, "match": r"void ebpps_sample<T,A>::move_one_to_partial\(\)", "sig": "void move_one_to_partial(struct ebsample* self)", "nloops": 0,
    "pre_rules": PART_RULES + [(r"std::swap\(data_\[idx\], data_\[last_idx\]\);", "{ T t_ = data_[idx]; data_[idx] = data_[last_idx]; data_[last_idx] = t_; }", 1),
                               (r"data_\.pop_back\(\);", "data_size--;", 1), (r"std::move\(data_\[last_idx\]\)", "data_[last_idx]", 1)],
    "rules": [(r"(?<![\w>])data_size", "self->data_size", "any")],
    "methods": ["random_idx", "set_partial"],
    "contract": "__CPROVER_requires(" + WFS + r""" && g_i < self->data_size && g_v == self->data_[g_i] && g_last0 == self->data_[self->data_size - 1])
__CPROVER_assigns(self->data_size, self->partial_has, self->partial_val, g_draws, g_last_max, g_last_ret, __CPROVER_object_whole(self->data_))
/* one item, drawn from all items, leaves the array and becomes the partial item; the others stay (the last one fills the gap) */
__CPROVER_ensures(self->data_size == __CPROVER_old(self->data_size) - 1 && self->partial_has && g_last_max == (uint32_t)__CPROVER_old(self->data_size) && g_last_ret <= self->data_size)
__CPROVER_ensures(g_i == g_last_ret ==> self->partial_val == g_v)
__CPROVER_ensures((g_i != g_last_ret && g_i < self->data_size) ==> self->data_[g_i] == g_v)
__CPROVER_ensures(g_last_ret < self->data_size ==> self->data_[g_last_ret] == g_last0)
""",
}
swap_partial = {
    "name": "swap_with_partial", "file": F, "members": MEMBERS, "match": r"void ebpps_sample<T,A>::swap_with_partial\(\)", "sig": "void swap_with_partial(struct ebsample* self)", "nloops": 0,
    "pre_rules": PART_RULES + [(r"if \(partial_item_\)", "if (partial_has)", 1), (r"std::swap\(data_\[idx\], \*partial_item_\);", "{ T t_ = data_[idx]; data_[idx] = partial_val; partial_val = t_; }", 1)],
    "rules": [(r"(?<![\w>])data_size", "self->data_size", "any"), (r"(?<![\w>])partial_(has|val)", r"self->partial_\1", "any")],
    "methods": ["random_idx", "move_one_to_partial"],
    "contract": "__CPROVER_requires(" + WFS + r""" && g_i < self->data_size && g_v == self->data_[g_i] && g_last0 == self->data_[self->data_size - 1] && g_part0 == self->partial_val)
__CPROVER_assigns(self->data_size, self->partial_has, self->partial_val, g_draws, g_last_max, g_last_ret, __CPROVER_object_whole(self->data_))
/* with a partial item: it trades places with one item drawn from all items, nothing else moves; without: as move_one_to_partial */
__CPROVER_ensures(self->partial_has && g_last_max == (uint32_t)__CPROVER_old(self->data_size))
__CPROVER_ensures(__CPROVER_old(self->partial_has) ==> (self->data_size == __CPROVER_old(self->data_size) && g_last_ret < self->data_size && self->data_[g_last_ret] == g_part0
    && (g_i == g_last_ret ? self->partial_val == g_v : self->data_[g_i] == g_v)))
__CPROVER_ensures(!__CPROVER_old(self->partial_has) ==> (self->data_size == __CPROVER_old(self->data_size) - 1 && (g_i == g_last_ret ==> self->partial_val == g_v)
    && ((g_i != g_last_ret && g_i < self->data_size) ==> self->data_[g_i] == g_v)))
""",
}

UNIT = {
    "id": "ebpps_subsample", "property": "C18",
    "clause": "ebpps_sample::subsample for every size and content: exactly num_samples items are kept, the items are only permuted before the cut (every kept item is taken from the input, none duplicated), "
              "all indices stay inside the array, and draw number i ranges over all data_len - i items not yet fixed (the Fisher-Yates condition behind 'each item equally likely'); a full-size request changes nothing; set_partial / move_one_to_partial / swap_with_partial: the item that becomes (or trades places with) the partial item is drawn from all items, exactly one item leaves or enters the array, every other item stays",
    "prelude": PRELUDE, "parts": [subsample, set_partial, move_one, swap_partial],
    "harness": r'''
void h_subsample(void) {
  struct ebsample* s = malloc(sizeof(*s)); __CPROVER_assume(s != NULL); size_t n = nondet_size(); __CPROVER_assume(n >= 1 && n <= ((size_t)1 << 26));
  s->data_ = malloc(sizeof(T) * n); __CPROVER_assume(s->data_ != NULL); s->data_size = n;
  subsample(s, nondet_u32()); VERIF_CANARY_POINT;
}
static struct ebsample* mk_s(void) { struct ebsample* s = malloc(sizeof(*s)); __CPROVER_assume(s != NULL); size_t n = nondet_size(); __CPROVER_assume(n >= 1 && n <= ((size_t)1 << 26));
  s->data_ = malloc(sizeof(T) * n); __CPROVER_assume(s->data_ != NULL); s->data_size = n; return s; }
void h_set_partial(void) { struct ebsample* s = mk_s(); set_partial(s, nondet_u64()); VERIF_CANARY_POINT; }
void h_move_one(void) { struct ebsample* s = mk_s(); move_one_to_partial(s); VERIF_CANARY_POINT; }
void h_swap_partial(void) { struct ebsample* s = mk_s(); swap_with_partial(s); VERIF_CANARY_POINT; }
''',
    "jobs": [{"name": "subsample", "entry": "h_subsample", "enforce": "subsample", "replace": ["random_idx"], "loops": True, "expect_loop_steps": 1, "timeout": 600},
             {"name": "set_partial", "entry": "h_set_partial", "enforce": "set_partial", "timeout": 300},
             {"name": "move_one_to_partial", "entry": "h_move_one", "enforce": "move_one_to_partial", "replace": ["random_idx", "set_partial"], "timeout": 300},
             {"name": "swap_with_partial", "entry": "h_swap_partial", "enforce": "swap_with_partial", "replace": ["random_idx", "move_one_to_partial"], "timeout": 300}],
    "assumptions": ["random_idx is trusted to return a value in [0, max): the value is adversarial, so what is proved holds for every outcome; uniformity of the draw itself is a property of std::uniform_int_distribution and is not decided",
                    "optional<T> partial_item_ is (has, value); std::vector<T> data_ is (pointer, size); erase(erase_start, end) is 'size = erase_start'; items are uint64_t"],
}
