F = "fi/include/reverse_purge_hash_map_impl.hpp"
H = "fi/include/reverse_purge_hash_map.hpp"
M = ["lg_cur_size_", "lg_max_size_", "num_active_", "keys_", "values_", "states_"]

PRELUDE = r'''
typedef uint64_t K; typedef uint64_t V;
struct rpmap { uint8_t lg_cur_size_; uint8_t lg_max_size_; uint32_t num_active_; K* keys_; V* values_; uint16_t* states_; };
#ifndef LG
#define LG 3
#endif
#define NSLOTS (1u << LG)
/* fmix64(H()(key)): a deterministic function of the key */
uint64_t __CPROVER_uninterpreted_keyhash(K key);
#define KEYHASH(key) __CPROVER_uninterpreted_keyhash(key)
#define E_EQ(a, b) ((a) == (b))
'''

def mm(name, ret, params, cparams, **kw):
    d = {"name": name, "file": F, "members": M, "match": r"%s reverse_purge_hash_map<K, V, H, E, A>::%s\(%s\)" % (ret, name, params),
         "sig": "%s %s(%sstruct rpmap* self%s)" % (ret, name, "const " if kw.pop("const", False) else "", (", " + cparams) if cparams else "")}
    d.update(kw)
    return d

HASHR = [(r"fmix64\(H\(\)\(key\)\)", "KEYHASH(key)", 1), (r"E\(\)\(", "E_EQ(", "any")]
is_active = mm("is_active", "bool", "uint32_t index", "uint32_t index", const=True)
get_capacity = mm("get_capacity", "uint32_t", "", "", const=True)
get = mm("get", "V", "const K& key", "K key", const=True, rules=HASHR, methods=["is_active"])
iaoi = mm("internal_adjust_or_insert", "uint32_t", "const K& key, V value", "K key, V value", rules=HASHR, methods=["is_active", ("get_capacity", "any")], throw_rv="0")
hash_delete = mm("hash_delete", "void", "uint32_t delete_index", "uint32_t delete_index",
                 rules=[(r"self->keys_\[delete_index\]\.~K\(\);", "(void)0;", 1), (r"self->keys_\[probe\]\.~K\(\);", "(void)0;", 1),
                        (r"new \(&self->keys_\[delete_index\]\) K\(std::move\(self->keys_\[probe\]\)\);", "self->keys_[delete_index] = self->keys_[probe];", 1)],
                 methods=["is_active"])
sakpo = mm("subtract_and_keep_positive_only", "void", "V amount", "V amount", methods=["is_active", "hash_delete"], propagate=["hash_delete"])

HARNESS = r'''
static K keys[NSLOTS]; static V vals[NSLOTS]; static uint16_t st[NSLOTS];
static struct rpmap m;
#define HOME(k) ((uint32_t)(KEYHASH(k) & (NSLOTS - 1)))
/* representation invariant of the open-addressing table: an active slot stores its probe distance + 1, every slot between a key's home and its slot is active
   (lookups stop at the first inactive slot), keys are distinct, the active count is exact and at least one slot is inactive */
static bool wf(void) {
  uint32_t cnt = 0;
  for (uint32_t s = 0; s < NSLOTS; s++) {
    if (st[s] == 0) continue;
    cnt++;
    const uint32_t d = (s - HOME(keys[s])) & (NSLOTS - 1);
    if (st[s] != d + 1) return false;
    for (uint32_t t = 0; t < NSLOTS; t++) { if (t < d && st[(HOME(keys[s]) + t) & (NSLOTS - 1)] == 0) return false; }
    for (uint32_t t = 0; t < NSLOTS; t++) { if (t != s && st[t] != 0 && keys[t] == keys[s]) return false; }
  }
  return cnt == m.num_active_ && cnt < NSLOTS;
}
/* specification of lookup: the value stored with the key, 0 if the key is not stored */
static V spec_get(K k) { for (uint32_t s = 0; s < NSLOTS; s++) if (st[s] != 0 && keys[s] == k) return vals[s]; return 0; }
static bool spec_has(K k) { for (uint32_t s = 0; s < NSLOTS; s++) if (st[s] != 0 && keys[s] == k) return true; return false; }
static void setup(void) {
  m.lg_cur_size_ = LG; m.lg_max_size_ = LG; m.keys_ = keys; m.values_ = vals; m.states_ = st; m.num_active_ = nondet_u32();
  for (uint32_t s = 0; s < NSLOTS; s++) { keys[s] = nondet_u64(); vals[s] = nondet_u64(); st[s] = (uint16_t)nondet_u32(); }
  __CPROVER_assume(wf());
}
void h_get(void) { setup(); K k = nondet_u64(); V r = get(&m, k); __CPROVER_assert(r == spec_get(k), "get returns the stored value of the key, 0 if absent"); VERIF_CANARY_POINT; }
void h_insert(void) {
  setup(); K k = nondet_u64(); V v = nondet_u64(); K other = nondet_u64(); __CPROVER_assume(other != k);
  __CPROVER_assume(m.num_active_ <= (uint32_t)(NSLOTS * 0.75));
  const V before = spec_get(k), obefore = spec_get(other); const bool had = spec_has(k), ohad = spec_has(other); const uint32_t n0 = m.num_active_;
  verif_exc = 0;
  uint32_t idx = internal_adjust_or_insert(&m, k, v);
  __CPROVER_assert(verif_exc == 0, "no throw while the load limit holds");
  if (m.num_active_ > n0) keys[idx] = k;   /* adjust_or_insert() constructs the key at the returned index when the count grew */
  __CPROVER_assert(wf(), "table invariant preserved by adjust-or-insert");
  __CPROVER_assert(spec_has(k) && spec_get(k) == before + v, "weight of the key grows by exactly the update weight (inserted with it if absent)");
  __CPROVER_assert(m.num_active_ == n0 + (had ? 0 : 1), "active count grows iff the key is new");
  __CPROVER_assert(spec_has(other) == ohad && spec_get(other) == obefore, "every other key keeps its weight");
  VERIF_CANARY_POINT;
}
void h_delete(void) {
  setup(); uint32_t d = nondet_u32(); __CPROVER_assume(d < NSLOTS && st[d] != 0);
  K gone = keys[d]; K other = nondet_u64(); __CPROVER_assume(other != gone);
  const V obefore = spec_get(other); const bool ohad = spec_has(other);
  verif_exc = 0;
  hash_delete(&m, d); m.num_active_--;          /* callers decrement the count right after hash_delete */
  __CPROVER_assert(verif_exc == 0, "no drift-limit throw");
  __CPROVER_assert(wf(), "table invariant preserved by hash_delete (back-shift leaves no hole inside a probe path)");
  __CPROVER_assert(!spec_has(gone), "the deleted key is gone");
  __CPROVER_assert(spec_has(other) == ohad && spec_get(other) == obefore, "every other key keeps its weight");
  __CPROVER_assert(get(&m, other) == obefore, "every other key is still found by the real lookup");
  VERIF_CANARY_POINT;
}
void h_subtract(void) {
  setup(); V amount = nondet_u64(); K k = nondet_u64();
  const V before = spec_get(k); const bool had = spec_has(k);
  verif_exc = 0;
  subtract_and_keep_positive_only(&m, amount);
  __CPROVER_assert(verif_exc == 0, "no throw");
  __CPROVER_assert(wf(), "table invariant preserved by the purge pass");
  __CPROVER_assert(spec_has(k) == (had && before > amount), "a counter survives the purge iff it exceeds the subtracted amount");
  __CPROVER_assert(spec_has(k) ==> spec_get(k) == before - amount, "surviving counters are reduced by exactly the subtracted amount");
  __CPROVER_assert(get(&m, k) == ((had && before > amount) ? before - amount : 0), "the real lookup agrees");
  VERIF_CANARY_POINT;
}
'''

UNIT = {
    "id": "fi_map", "property": "C12",
    "clause": "reverse-purge hash map, bounded stand-in on tables of 4..8 (quick: lookup/insert 8 slots, delete/purge 4 slots) and 8..16 (thorough; the purge pass stays at 4 slots) slots with fully symbolic well-formed contents (8 slots = LG_MIN_MAP_SIZE is a real "
              "configuration): lookup returns the stored weight or 0; adjust-or-insert adds exactly the weight to that key (inserting it if new), keeps the table invariant and every "
              "other key; hash_delete's back-shift keeps every other key retrievable; the purge pass keeps exactly the counters above the amount, reduced by it",
    "consts": [{"file": H, "pattern": r"static constexpr (?P<type>double|uint16_t|uint32_t) (?P<name>LOAD_FACTOR|DRIFT_LIMIT|MAX_SAMPLE_SIZE) = (?P<value>[^;]+);", "min_count": 3}],
    "prelude": PRELUDE,
    "member_checks": [{"file": H, "members": M}],
    "parts": [is_active, get_capacity, get, iaoi, hash_delete, sakpo],
    "harness": HARNESS,
    "jobs": [{"name": "%s_%dslots" % (n, 1 << lg), "entry": "h_" + n, "defines": {"LG": lg}, "unwind": (1 << lg) + 2, "timeout": 7200 if tier == "thorough" else 900,
              "kind": "bounded", "bound": "hash table of %d slots, contents fully symbolic under the table invariant" % (1 << lg), "tier": tier, "canary": tier == "quick"}
             for (n, lg, tier) in [("get", 3, "quick"), ("insert", 3, "quick"), ("delete", 2, "quick"), ("subtract", 2, "quick"),
                                   ("delete", 3, "thorough"), ("get", 4, "thorough"), ("insert", 4, "thorough")]],
    # the purge pass on 8 slots did not finish in 45 minutes of solver time (kissat): not registered; 4 slots is the bound for it in both tiers
    "assumptions": ["K = V = uint64_t; fmix64(std::hash(key)) is an uninterpreted deterministic function of the key; E = equality",
                    "larger tables: only covered by this bounded stand-in (a path-quantified table invariant is out of reach of ghost-index contracts)"],
}
