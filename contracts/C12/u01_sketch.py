F = "fi/include/frequent_items_sketch_impl.hpp"
H = "fi/include/frequent_items_sketch.hpp"
M = ["total_weight", "offset", "map"]

PRELUDE = r'''
typedef uint64_t T; typedef uint64_t W;
struct rpmap { uint8_t lg_cur_size_; uint8_t lg_max_size_; uint32_t num_active_; T* keys_; W* values_; uint16_t* states_; };
struct fis { W total_weight; W offset; struct rpmap map; };
enum { NO_FALSE_POSITIVES = 0, NO_FALSE_NEGATIVES = 1 };
/* ghosts: stored weight of the ghost item (what the map returns for it), amounts returned by purges */
W g_get; W g_purged; uint32_t g_aoi_calls; T g_aoi_key; W g_aoi_val; W g_aoi_ret;
W map_adjust_or_insert(struct rpmap* m, T key, W value)
  __CPROVER_assigns(g_aoi_calls, g_aoi_key, g_aoi_val, g_purged)
  __CPROVER_ensures(g_aoi_calls == __CPROVER_old(g_aoi_calls) + 1 && g_aoi_key == key && g_aoi_val == value && __CPROVER_return_value == g_aoi_ret && g_purged == __CPROVER_old(g_purged) + g_aoi_ret);
W map_get(const struct rpmap* m, T key) __CPROVER_assigns() __CPROVER_ensures(__CPROVER_return_value == g_get);
void check_weight(W weight) __CPROVER_assigns() __CPROVER_ensures(1);
'''

def m(name, ret, params, cparams, contract, **kw):
    d = {"name": "fi_" + name, "file": F, "members": M, "match": r"%s frequent_items_sketch<T, W, H, E, A>::%s\(%s\)" % (ret, name, params),
         "sig": "%s fi_%s(%sstruct fis* self%s)" % (ret, name, "const " if kw.pop("const", False) else "", (", " + cparams) if cparams else ""), "contract": contract}
    d.update(kw)
    return d

MAPR = [(r"self->map\.adjust_or_insert\(", "map_adjust_or_insert(&self->map, ", "any"), (r"self->map\.get\(", "map_get(&self->map, ", "any")]

update = m("update", "void", "const T& item, W weight", "T item, W weight", r'''
__CPROVER_requires(__CPROVER_is_fresh(self, sizeof(*self)) && g_aoi_calls < 1000)
__CPROVER_assigns(self->total_weight, self->offset, g_aoi_calls, g_aoi_key, g_aoi_val, g_purged)
/* a zero weight changes nothing; otherwise the total weight grows by exactly w, the map sees (item, w) once, and whatever a purge subtracted is added to the offset */
__CPROVER_ensures(weight == 0 ==> (self->total_weight == __CPROVER_old(self->total_weight) && self->offset == __CPROVER_old(self->offset) && g_aoi_calls == __CPROVER_old(g_aoi_calls)))
__CPROVER_ensures(weight != 0 ==> (self->total_weight == __CPROVER_old(self->total_weight) + weight && g_aoi_calls == __CPROVER_old(g_aoi_calls) + 1 && g_aoi_key == item && g_aoi_val == weight &&
                                  self->offset == __CPROVER_old(self->offset) + g_aoi_ret))
''', rules=MAPR)

est = m("get_estimate", "W", "const T& item", "T item", r'''
__CPROVER_requires(__CPROVER_is_fresh(self, sizeof(*self))) __CPROVER_assigns()
/* untracked item: 0; tracked item: stored weight + offset (its upper bound) */
__CPROVER_ensures(__CPROVER_return_value == (g_get > 0 ? g_get + self->offset : 0))
''', rules=MAPR, const=True)
lb = m("get_lower_bound", "W", "const T& item", "T item", r'''
__CPROVER_requires(__CPROVER_is_fresh(self, sizeof(*self))) __CPROVER_assigns() __CPROVER_ensures(__CPROVER_return_value == g_get)''', rules=MAPR, const=True)
ub = m("get_upper_bound", "W", "const T& item", "T item", r'''
__CPROVER_requires(__CPROVER_is_fresh(self, sizeof(*self))) __CPROVER_assigns()
/* upper bound - lower bound == maximum error (offset), for tracked and untracked items alike */
__CPROVER_ensures(__CPROVER_return_value == g_get + self->offset)''', rules=MAPR, const=True)
maxerr = m("get_maximum_error", "W", "", "", r'''
__CPROVER_requires(__CPROVER_is_fresh(self, sizeof(*self))) __CPROVER_assigns() __CPROVER_ensures(__CPROVER_return_value == self->offset)''', const=True)

# merge: the operand's counters are replayed through update(), then offsets add and the total is set to the sum of totals
MERGE_PRE = r'''
uint32_t g_upd_calls; W g_off_added;
/* update() by its contract above, in the form merge needs: offset grows by what the purge (if any) returned, ghost-accumulated */
void fi_update_c(struct fis* self, T item, W weight)
  __CPROVER_assigns(self->total_weight, self->offset, g_upd_calls, g_off_added)
  __CPROVER_ensures(g_upd_calls == __CPROVER_old(g_upd_calls) + 1 && self->offset - __CPROVER_old(self->offset) == g_off_added - __CPROVER_old(g_off_added));
bool fi_is_empty(const struct fis* s) __CPROVER_assigns() __CPROVER_ensures(__CPROVER_return_value == (s->map.num_active_ == 0));
'''
merge = {
    "name": "fi_merge", "file": F, "members": M,
    "match": r"void frequent_items_sketch<T, W, H, E, A>::merge\(const frequent_items_sketch& other\)",
    "sig": "void fi_merge(struct fis* self, const struct fis* other)", "nloops": 1,
    "rules": [(r"other\.get_total_weight\(\)", "other->total_weight", "any"), (r"other\.is_empty\(\)", "fi_is_empty(other)", "any"),
              (r"for \(auto it: other\.map\) \{\s*update\(it\.first, it\.second\);",
               "for (uint32_t mi_ = 0; mi_ < ((uint32_t)1 << other->map.lg_cur_size_); mi_++) { if (other->map.states_[mi_] == 0) continue; fi_update_c(self, other->map.keys_[mi_], other->map.values_[mi_]);", 1),
              (r"other\.offset", "other->offset", 1)],
    "contract": r'''
__CPROVER_requires(__CPROVER_is_fresh(self, sizeof(*self)) && __CPROVER_is_fresh(other, sizeof(*other)) && other->map.lg_cur_size_ >= 3 && other->map.lg_cur_size_ <= 24)
/* class invariant: the maximum error never exceeds the total weight */
__CPROVER_requires(other->offset <= other->total_weight)
__CPROVER_requires(__CPROVER_is_fresh(other->map.keys_, ((size_t)1 << other->map.lg_cur_size_) * 8) && __CPROVER_is_fresh(other->map.values_, ((size_t)1 << other->map.lg_cur_size_) * 8) &&
                   __CPROVER_is_fresh(other->map.states_, ((size_t)1 << other->map.lg_cur_size_) * 2))
__CPROVER_assigns(self->total_weight, self->offset, g_upd_calls, g_off_added, g_off0, g_added0)
/* (from the property) total weight is the exact sum of all update weights - whatever the operand currently tracks; the maximum error is the sum of both errors
   PLUS everything purged while the operand's counters were replayed */
__CPROVER_ensures(self->total_weight == __CPROVER_old(self->total_weight) + other->total_weight)
__CPROVER_ensures(self->offset == __CPROVER_old(self->offset) + (g_off_added - __CPROVER_old(g_off_added)) + other->offset)
''',
    "loops": {1: r'''
__CPROVER_assigns(mi_, self->total_weight, self->offset, g_upd_calls, g_off_added)
__CPROVER_loop_invariant(mi_ <= ((uint32_t)1 << other->map.lg_cur_size_) && self->offset - g_off0 == g_off_added - g_added0)
__CPROVER_decreases(((uint32_t)1 << other->map.lg_cur_size_) - mi_)
'''},
    "inserts": [(r"const W merged_total_weight = [^;]*;", "g_off0 = self->offset; g_added0 = g_off_added;", "after", 1)],
}

# get_frequent_items: which rows are reported
GFI_PRE = r'''
uint32_t g_slot; uint32_t g_rows; bool g_slot_reported;
'''
gfi = {
    "name": "fi_get_frequent_items", "file": F, "members": M,
    "match": r"auto frequent_items_sketch<T, W, H, E, A>::get_frequent_items\(frequent_items_error_type err_type, W threshold\) const",
    "sig": "void fi_get_frequent_items(const struct fis* self, int err_type, W threshold)", "nloops": 1,
    "rules": [(r"vector_row items\(self->map\.get_allocator\(\)\);", "", 1),
              (r"for \(auto it: self->map\) \{", "for (uint32_t mi_ = 0; mi_ < ((uint32_t)1 << self->map.lg_cur_size_); mi_++) { if (self->map.states_[mi_] == 0) continue; const struct { T first; W second; } it = { self->map.keys_[mi_], self->map.values_[mi_] };", 1),
              (r"items\.push_back\(row\(&it\.first, it\.second, self->offset\)\);", "g_rows++; if (mi_ == g_slot) g_slot_reported = 1;", 1),
              (r"std::sort\(items\.begin\(\), items\.end\(\), \[\]\(row a, row b\)\{ return a\.get_estimate\(\) > b\.get_estimate\(\); \}\);", "", 1),
              (r"return items;", "return;", 1)],
    "contract": r'''
__CPROVER_requires(__CPROVER_is_fresh(self, sizeof(*self)) && self->map.lg_cur_size_ >= 3 && self->map.lg_cur_size_ <= 24 && (err_type == NO_FALSE_POSITIVES || err_type == NO_FALSE_NEGATIVES))
__CPROVER_requires(__CPROVER_is_fresh(self->map.keys_, ((size_t)1 << self->map.lg_cur_size_) * 8) && __CPROVER_is_fresh(self->map.values_, ((size_t)1 << self->map.lg_cur_size_) * 8) &&
                   __CPROVER_is_fresh(self->map.states_, ((size_t)1 << self->map.lg_cur_size_) * 2))
__CPROVER_requires(g_slot < ((uint32_t)1 << self->map.lg_cur_size_) && !g_slot_reported && g_rows == 0)
__CPROVER_assigns(g_rows, g_slot_reported)
/* a tracked item (ghost slot) is reported iff: NO_FALSE_NEGATIVES and its upper bound exceeds the threshold, or NO_FALSE_POSITIVES and its lower bound does */
__CPROVER_ensures(g_slot_reported == (self->map.states_[g_slot] != 0 &&
     ((err_type == NO_FALSE_NEGATIVES && self->map.values_[g_slot] + self->offset > threshold) || (err_type == NO_FALSE_POSITIVES && self->map.values_[g_slot] > threshold))))
''',
    "loops": {1: r'''
__CPROVER_assigns(mi_, g_rows, g_slot_reported)
__CPROVER_loop_invariant(mi_ <= ((uint32_t)1 << self->map.lg_cur_size_) && g_rows <= mi_)
__CPROVER_loop_invariant(g_slot_reported == (mi_ > g_slot && self->map.states_[g_slot] != 0 &&
     ((err_type == NO_FALSE_NEGATIVES && self->map.values_[g_slot] + self->offset > threshold) || (err_type == NO_FALSE_POSITIVES && self->map.values_[g_slot] > threshold))))
__CPROVER_decreases(((uint32_t)1 << self->map.lg_cur_size_) - mi_)
'''},
}

UNIT = {
    "id": "fi_sketch", "property": "C12",
    "clause": "frequent-items sketch bookkeeping: update adds exactly w to the total weight and whatever a purge subtracted to the maximum error; upper bound - lower bound == "
              "maximum error for every item, estimate is 0 for untracked items and stored weight + error otherwise; merge makes total weight the exact sum and the maximum error the "
              "sum of both errors plus everything purged during the replay; get_frequent_items reports a tracked item iff ub > threshold (NO_FALSE_NEGATIVES) / lb > threshold (NO_FALSE_POSITIVES)",
    "prelude": PRELUDE + MERGE_PRE + GFI_PRE + "W g_off0, g_added0;\n",
    "member_checks": [{"file": H, "members": ["total_weight", "offset", "map"]}],
    "parts": [update, est, lb, ub, maxerr, merge, gfi],
    "harness": r'''
void h_update(void) { struct fis* s; T i; W w; fi_update(s, i, w); VERIF_CANARY_POINT; }
void h_est(void) { const struct fis* s; T i; fi_get_estimate(s, i); VERIF_CANARY_POINT; }
void h_lb(void) { const struct fis* s; T i; fi_get_lower_bound(s, i); VERIF_CANARY_POINT; }
void h_ub(void) { const struct fis* s; T i; fi_get_upper_bound(s, i); VERIF_CANARY_POINT; }
void h_maxerr(void) { const struct fis* s; fi_get_maximum_error(s); VERIF_CANARY_POINT; }
void h_merge(void) { struct fis* s; const struct fis* o; fi_merge(s, o); VERIF_CANARY_POINT; }
void h_gfi(void) { const struct fis* s; int e; W t; fi_get_frequent_items(s, e, t); VERIF_CANARY_POINT; }
''',
    "jobs": [
        {"name": "update", "entry": "h_update", "enforce": "fi_update", "replace": ["map_adjust_or_insert", "check_weight"]},
        {"name": "get_estimate", "entry": "h_est", "enforce": "fi_get_estimate", "replace": ["map_get"]},
        {"name": "get_lower_bound", "entry": "h_lb", "enforce": "fi_get_lower_bound", "replace": ["map_get"]},
        {"name": "get_upper_bound", "entry": "h_ub", "enforce": "fi_get_upper_bound", "replace": ["map_get"]},
        {"name": "get_maximum_error", "entry": "h_maxerr", "enforce": "fi_get_maximum_error"},
        {"name": "merge", "entry": "h_merge", "enforce": "fi_merge", "replace": ["fi_update_c", "fi_is_empty"], "loops": True, "expect_loop_steps": 1, "timeout": 300},
        {"name": "get_frequent_items", "entry": "h_gfi", "enforce": "fi_get_frequent_items", "loops": True, "expect_loop_steps": 1, "timeout": 300},
    ],
    "assumptions": ["T = W = uint64_t (weights unsigned: check_weight is a no-op; sums are modulo 2^64 as in the library)",
                    "the reverse-purge map is used by contract here (adjust_or_insert returns what a purge subtracted, get returns the stored weight or 0); its own contracts are unit fi_map",
                    "iteration over the map (range-for with its iterator) is rendered as an indexed loop over the active slots; the result vector and its final std::sort are dropped (only the inclusion predicate is under contract)",
                    "'lower bound <= true weight <= upper bound' over a stream is the paper induction over these one-step contracts plus the map's contracts; the epsilon bound is probabilistic: not decided"],
}
