import crules
AX = "hll/include/AuxHashMap-internal.hpp"
HA = "hll/include/HllArray-internal.hpp"

PRELUDE = crules.MEMOPS_PRELUDE + r'''
enum { HLL_4 = 0, HLL_6 = 1, HLL_8 = 2 };
enum { LIST = 0, SET = 1, HLL = 2 };
struct auxmap { uint8_t lgConfigK; uint8_t lgAuxArrInts; uint32_t auxCount; };
uint8_t g_alloc_lg; int g_live_aux, g_live0;        /* ghost: AuxHashMap objects allocated and not yet released */
uint8_t computeLgArrInts(int mode, uint32_t count, uint8_t lgConfigK) __CPROVER_assigns() __CPROVER_ensures(1);
/* new AuxHashMap(lgArrInts, lgConfigK): allocates 4 << lgArrInts bytes - the request must be bounded by what the image can justify */
struct auxmap* aux_new_c(uint8_t lgAuxArrInts, uint8_t lgConfigK) {
  struct auxmap* m = (struct auxmap*)verif_alloc(sizeof(struct auxmap)); m->lgConfigK = lgConfigK; m->lgAuxArrInts = lgAuxArrInts; m->auxCount = 0;
  g_live_aux++; g_alloc_lg = lgAuxArrInts; return m;
}
void aux_delete_c(struct auxmap* m) { verif_free(m, sizeof(struct auxmap)); g_live_aux--; }
/* mustAdd: throws on a duplicate slot (corrupted image), else counts the entry */
void aux_mustAdd(struct auxmap* m, uint32_t slotNo, uint8_t value)
  __CPROVER_assigns(verif_exc, m->auxCount) __CPROVER_ensures(verif_exc == 0 ==> m->auxCount == __CPROVER_old(m->auxCount) + 1);
'''

HU = "hll/include/HllUtil.hpp"
getLow26 = {"name": "getLow26", "file": HU, "match": r"inline uint32_t HllUtil<A>::getLow26\(uint32_t coupon\)", "sig": "static inline uint32_t getLow26(uint32_t coupon)"}
getValue = {"name": "getValue", "file": HU, "match": r"inline uint8_t HllUtil<A>::getValue\(uint32_t coupon\)", "sig": "static inline uint8_t getValue(uint32_t coupon)"}

aux_deser = {
    "name": "aux_deserialize", "file": AX,
    "match": r"AuxHashMap<A>\* AuxHashMap<A>::deserialize\(const void\* bytes, size_t len,\s*uint8_t lgConfigK,\s*uint32_t auxCount, uint8_t lgAuxArrInts,\s*bool srcCompact, const A& allocator\)",
    "sig": "struct auxmap* aux_deserialize(const void* bytes, size_t len, uint8_t lgConfigK, uint32_t auxCount, uint8_t lgAuxArrInts, bool srcCompact)",
    "dropped_params": ["allocator"], "throw_rv": "NULL", "nloops": 2,
    "rules": [(r"HllUtil<A>::", "", "any"), (r"AuxHashMap<A>\* auxHashMap;", "struct auxmap* auxHashMap;", 1),
              (r"new \(ahmAlloc\(allocator\)\.allocate\(1\)\) AuxHashMap<A>\(lgArrInts, lgConfigK, allocator\)", "aux_new_c(lgArrInts, lgConfigK)", 2),
              (r"auxHashMap->mustAdd\(", "aux_mustAdd(auxHashMap, ", 2), (r"auxHashMap->getAuxCount\(\)", "auxHashMap->auxCount", 1),
              (r"make_deleter\(\)\(auxHashMap\);", "aux_delete_c(auxHashMap);", "any"),
              # std::unique_ptr<AuxHashMap, deleter> aux_ptr: an owner that deletes the map when the function is left by an exception (VERIF_UNWIND)
              (r"typedef std::unique_ptr<AuxHashMap<A>, std::function<void\(AuxHashMap<A>\*\)>> aux_hash_map_ptr;", "", "any"),
              (r"aux_hash_map_ptr aux_ptr;", "struct auxmap* aux_ptr_owned = NULL;", "any"),
              (r"aux_ptr = aux_hash_map_ptr\(auxHashMap, auxHashMap->make_deleter\(\)\);", "aux_ptr_owned = auxHashMap;", "any"),
              (r"return aux_ptr\.release\(\);", "{ struct auxmap* released_ = aux_ptr_owned; aux_ptr_owned = NULL; return released_; }", "any")],
    "unwind": "do { if (aux_ptr_owned != NULL) { aux_delete_c(aux_ptr_owned); aux_ptr_owned = NULL; } } while (0)",
    "propagate": ["auxHashMap->mustAdd"],
    "contract": r'''
__CPROVER_requires(len <= SIZE_CAP && __CPROVER_r_ok(bytes, len))
/* call site (HllArray::newHll) has validated lgConfigK with the sketch's own check */
__CPROVER_requires(lgConfigK >= 4 && lgConfigK <= 21 && g_live_aux >= 0 && g_live_aux < 1000 && g_live0 == g_live_aux)
__CPROVER_assigns(verif_exc, g_live_aux, g_alloc_lg)
/* (from the property) any length / content: reads stay inside [bytes, bytes+len), no undefined shift on the image's size field, and a rejected image leaves nothing allocated */
__CPROVER_ensures(verif_exc != 0 ==> g_live_aux == __CPROVER_old(g_live_aux))
__CPROVER_ensures(verif_exc == 0 ==> (g_live_aux == __CPROVER_old(g_live_aux) + 1 && __CPROVER_return_value->auxCount == auxCount))
/* the table allocated for an updatable image is no larger than the image that was supplied */
__CPROVER_ensures((verif_exc == 0 && !srcCompact) ==> (g_alloc_lg <= 31 && ((size_t)4 << g_alloc_lg) <= len))
''',
    "loops": {1: r'''
__CPROVER_assigns(i, verif_exc, auxHashMap->auxCount, g_live_aux, aux_ptr_owned)
__CPROVER_loop_invariant(i <= auxCount && verif_exc == 0 && aux_ptr_owned == auxHashMap && g_live_aux == g_live0 + 1)
__CPROVER_decreases(auxCount - i)
''', 2: r'''
__CPROVER_assigns(i, verif_exc, auxHashMap->auxCount, g_live_aux, aux_ptr_owned)
__CPROVER_loop_invariant(i <= itemsToRead && verif_exc == 0 && aux_ptr_owned == auxHashMap && g_live_aux == g_live0 + 1)
__CPROVER_decreases(itemsToRead - i)
'''},
}

UNIT = {
    "id": "hll_aux_reader", "property": "C11",
    "clause": "HLL_4 exception table AuxHashMap::deserialize(bytes, len): for every length and content - compact and updatable layout - every 32-bit read is inside the buffer, the size field "
              "of the image cannot cause an undefined shift or an allocation larger than the image, and a rejected image (short, duplicate slot, wrong count) leaves no table allocated",
    "consts": crules.HLL_CONSTS,
    "prelude": PRELUDE,
    "parts": [getLow26, getValue, aux_deser],
    "harness": "void h_aux(void) {" + crules.READER_INPUT + "  uint8_t lgk, lga; uint32_t cnt; bool compact; verif_exc = 0; aux_deserialize(in_bytes, in_size, lgk, cnt, lga, compact); VERIF_CANARY_POINT; }\n",
    "jobs": [{"name": "aux_deserialize_bytes", "entry": "h_aux", "enforce": "aux_deserialize", "loops": True, "expect_loop_steps": 2, "timeout": 600, "unwind": 65, "object_bits": 10,
              "replace": ["computeLgArrInts", "aux_mustAdd"]}],
    "assumptions": ["SIZE_CAP: symbolic buffer length 0..65536", "AuxHashMap construction / deleter are small C models (allocate / release the object, count it in ghost g_live_aux), mustAdd is a recording contract (ghost g_live_aux counts live tables)"],
}
