import crules
AX = "hll/include/AuxHashMap-internal.hpp"
HA = "hll/include/HllArray-internal.hpp"

PRELUDE = crules.MEMOPS_PRELUDE + r'''
enum { HLL_4 = 0, HLL_6 = 1, HLL_8 = 2 };
enum { LIST = 0, SET = 1, HLL = 2 };
struct auxmap { uint8_t lgConfigK; uint8_t lgAuxArrInts; uint32_t auxCount; };
uint8_t g_alloc_lg; int g_live_aux, g_live0;        /* ghost: AuxHashMap objects allocated and not yet released */
#ifndef REAL_COMPUTE_LG
uint8_t computeLgArrInts(int mode, uint32_t count, uint8_t lgConfigK) __CPROVER_assigns() __CPROVER_ensures(1);
#endif
/* new AuxHashMap(lgArrInts, lgConfigK): allocates 4 << lgArrInts bytes - the request must be bounded by what the image can justify */
struct auxmap* aux_new_c(uint8_t lgAuxArrInts, uint8_t lgConfigK) {
  struct auxmap* m = (struct auxmap*)verif_alloc(sizeof(struct auxmap)); m->lgConfigK = lgConfigK; m->lgAuxArrInts = lgAuxArrInts; m->auxCount = 0;
  g_live_aux++; g_alloc_lg = lgAuxArrInts; return m;
}
void aux_delete_c(struct auxmap* m) { verif_free(m, sizeof(struct auxmap)); g_live_aux--; }
/* mustAdd: throws on a duplicate slot (corrupted image), else counts the entry */
void aux_mustAdd(struct auxmap* m, uint32_t slotNo, uint8_t value)
  __CPROVER_assigns(verif_exc, m->auxCount) __CPROVER_ensures(verif_exc == 0 ==> m->auxCount == __CPROVER_old(m->auxCount) + 1);
'''

HU = "hll/include/HllUtil.hpp"
getLow26 = {"name": "getLow26", "file": HU, "match": r"inline uint32_t HllUtil<A>::getLow26\(uint32_t coupon\)", "sig": "static inline uint32_t getLow26(uint32_t coupon)"}
getValue = {"name": "getValue", "file": HU, "match": r"inline uint8_t HllUtil<A>::getValue\(uint32_t coupon\)", "sig": "static inline uint8_t getValue(uint32_t coupon)"}

aux_deser = {
    "name": "aux_deserialize", "file": AX,
    "match": r"AuxHashMap<A>\* AuxHashMap<A>::deserialize\(const void\* bytes, size_t len,\s*uint8_t lgConfigK,\s*uint32_t auxCount, uint8_t lgAuxArrInts,\s*bool srcCompact, const A& allocator\)",
    "sig": "struct auxmap* aux_deserialize(const void* bytes, size_t len, uint8_t lgConfigK, uint32_t auxCount, uint8_t lgAuxArrInts, bool srcCompact)",
    "dropped_params": ["allocator"], "throw_rv": "NULL", "nloops": 2,
    "rules": [(r"HllUtil<A>::", "", "any"), (r"AuxHashMap<A>\* auxHashMap;", "struct auxmap* auxHashMap;", 1),
              (r"new \(ahmAlloc\(allocator\)\.allocate\(1\)\) AuxHashMap<A>\(lgArrInts, lgConfigK, allocator\)", "aux_new_c(lgArrInts, lgConfigK)", 2),
              (r"auxHashMap->mustAdd\(", "aux_mustAdd(auxHashMap, ", 2), (r"auxHashMap->getAuxCount\(\)", "auxHashMap->auxCount", 1),
              (r"make_deleter\(\)\(auxHashMap\);", "aux_delete_c(auxHashMap);", "any"),
              # std::unique_ptr<AuxHashMap, deleter> aux_ptr: an owner that deletes the map when the function is left by an exception (VERIF_UNWIND)
              (r"typedef std::unique_ptr<AuxHashMap<A>, std::function<void\(AuxHashMap<A>\*\)>> aux_hash_map_ptr;", "", "any"),
              (r"aux_hash_map_ptr aux_ptr;", "struct auxmap* aux_ptr_owned = NULL;", "any"),
              (r"aux_ptr = aux_hash_map_ptr\(auxHashMap, auxHashMap->make_deleter\(\)\);", "aux_ptr_owned = auxHashMap;", "any"),
              (r"return aux_ptr\.release\(\);", "{ struct auxmap* released_ = aux_ptr_owned; aux_ptr_owned = NULL; return released_; }", "any")],
    "unwind": "do { if (aux_ptr_owned != NULL) { aux_delete_c(aux_ptr_owned); aux_ptr_owned = NULL; } } while (0)",
    "propagate": ["auxHashMap->mustAdd"],
    "contract": r'''
__CPROVER_requires(len <= SIZE_CAP && __CPROVER_r_ok(bytes, len))
/* call site (HllArray::newHll) has validated lgConfigK with the sketch's own check */
__CPROVER_requires(lgConfigK >= 4 && lgConfigK <= 21 && g_live_aux >= 0 && g_live_aux < 1000 && g_live0 == g_live_aux)
__CPROVER_assigns(verif_exc, g_live_aux, g_alloc_lg)
/* (from the property) any length / content: reads stay inside [bytes, bytes+len), no undefined shift on the image's size field, and a rejected image leaves nothing allocated */
__CPROVER_ensures(verif_exc != 0 ==> g_live_aux == __CPROVER_old(g_live_aux))
__CPROVER_ensures(verif_exc == 0 ==> (g_live_aux == __CPROVER_old(g_live_aux) + 1 && __CPROVER_return_value->auxCount == auxCount))
/* the table allocated for an updatable image is no larger than the image that was supplied */
__CPROVER_ensures((verif_exc == 0 && !srcCompact) ==> (g_alloc_lg <= 31 && ((size_t)4 << g_alloc_lg) <= len))
''',
    "loops": {1: r'''
__CPROVER_assigns(i, verif_exc, auxHashMap->auxCount, g_live_aux, aux_ptr_owned)
__CPROVER_loop_invariant(i <= auxCount && verif_exc == 0 && aux_ptr_owned == auxHashMap && g_live_aux == g_live0 + 1)
__CPROVER_decreases(auxCount - i)
''', 2: r'''
__CPROVER_assigns(i, verif_exc, auxHashMap->auxCount, g_live_aux, aux_ptr_owned)
__CPROVER_loop_invariant(i <= itemsToRead && verif_exc == 0 && aux_ptr_owned == auxHashMap && g_live_aux == g_live0 + 1)
__CPROVER_decreases(itemsToRead - i)
'''},
}

UNIT = {
    "id": "hll_aux_reader", "property": "C11",
    "clause": "HLL_4 exception table AuxHashMap::deserialize(bytes, len): for every length and content - compact and updatable layout - every 32-bit read is inside the buffer, the size field "
              "of the image cannot cause an undefined shift or an allocation larger than the image, and a rejected image (short, duplicate slot, wrong count) leaves no table allocated",
    "consts": crules.HLL_CONSTS,
    "prelude": PRELUDE,
    "parts": [getLow26, getValue, aux_deser],
    "harness": "void h_aux(void) {" + crules.READER_INPUT + "  uint8_t lgk, lga; uint32_t cnt; bool compact; verif_exc = 0; aux_deserialize(in_bytes, in_size, lgk, cnt, lga, compact); VERIF_CANARY_POINT; }\n",
    "jobs": [{"name": "aux_deserialize_bytes", "entry": "h_aux", "enforce": "aux_deserialize", "loops": True, "expect_loop_steps": 2, "timeout": 600, "unwind": 65, "object_bits": 10,
              "replace": ["computeLgArrInts", "aux_mustAdd"]}],
    "assumptions": ["SIZE_CAP: symbolic buffer length 0..65536", "AuxHashMap construction / deleter are small C models (allocate / release the object, count it in ghost g_live_aux), mustAdd is a recording contract (ghost g_live_aux counts live tables)"],
}

# ---------------------------------------------------------------- HllArray::newHll(bytes) and the factory dispatch
SI = "hll/include/HllSketchImpl-internal.hpp"
FA = "hll/include/HllSketchImplFactory.hpp"
PRELUDE2 = PRELUDE + r'''
#define target_hll_type_HLL_4 HLL_4
#define target_hll_type_HLL_6 HLL_6
#define target_hll_type_HLL_8 HLL_8
#define hll_mode_LIST LIST
#define hll_mode_SET SET
#define hll_mode_HLL HLL
struct hllarr { uint8_t lgConfigK_; uint8_t tgtHllType_; bool startFullSize_; uint8_t* hllByteArr_; uint32_t hllByteArr_size; struct auxmap* auxHashMap_;
                uint8_t curMin_; uint32_t numAtCurMin_; bool oooFlag_; double hipAccum_, kxq0_, kxq1_; };
int g_live_hll;
/* AuxHashMap::deserialize by its contract (unit hll_aux_reader): needs a readable range and a lgConfigK the sketch accepts */
struct auxmap* aux_deserialize_c(const void* bytes, size_t len, uint8_t lgConfigK, uint32_t auxCount, uint8_t lgAuxArrInts, bool srcCompact)
  __CPROVER_requires(__CPROVER_r_ok(bytes, len) && lgConfigK >= 4 && lgConfigK <= 21)
  __CPROVER_assigns(verif_exc, g_live_aux)
  __CPROVER_ensures(verif_exc != 0 ==> g_live_aux == __CPROVER_old(g_live_aux))
  __CPROVER_ensures(verif_exc == 0 ==> g_live_aux == __CPROVER_old(g_live_aux) + 1);
/* HllSketchImplFactory::newHll(lgK, type, startFullSize): allocates the register array of hllArrBytes(type, lgK) bytes */
struct hllarr* factory_newHll_c(uint8_t lgConfigK, int tgtHllType, bool startFullSize) {
  __CPROVER_assert(lgConfigK >= 4 && lgConfigK <= 21, "an HLL array is only ever created with a lg_k the sketch accepts (4..21)");
  struct hllarr* s = (struct hllarr*)verif_alloc(sizeof(struct hllarr)); s->lgConfigK_ = lgConfigK; s->tgtHllType_ = (uint8_t)tgtHllType;
  s->hllByteArr_size = tgtHllType == HLL_8 ? (1u << lgConfigK) : tgtHllType == HLL_6 ? (((1u << lgConfigK) * 3) >> 2) + 1 : (1u << (lgConfigK - 1));
  s->hllByteArr_ = (uint8_t*)verif_alloc(s->hllByteArr_size); s->auxHashMap_ = NULL; g_live_hll++; return s;
}
'''
arrbytes = [{"name": "hll%dArrBytes" % n, "file": HA, "match": r"uint32_t HllArray<A>::hll%dArrBytes\(uint8_t lgConfigK\)" % n, "sig": "uint32_t hll%dArrBytes(uint8_t lgConfigK)" % n} for n in (4, 6, 8)]
hllArrBytes = {"name": "hllArrBytes", "file": HA, "match": r"uint32_t HllArray<A>::hllArrBytes\(target_hll_type tgtHllType, uint8_t lgConfigK\)",
               "sig": "uint32_t hllArrBytes(int tgtHllType, uint8_t lgConfigK)", "throw_rv": "0"}
extractTgt = {"name": "extractTgtHllType", "file": SI, "match": r"target_hll_type HllSketchImpl<A>::extractTgtHllType\(uint8_t modeByte\)", "sig": "int extractTgtHllType(uint8_t modeByte)", "throw_rv": "0"}
extractMode = {"name": "extractCurMode", "file": SI, "match": r"hll_mode HllSketchImpl<A>::extractCurMode\(uint8_t modeByte\)", "sig": "int extractCurMode(uint8_t modeByte)", "throw_rv": "0"}
checkLgK = {"name": "checkLgK", "file": "hll/include/HllUtil.hpp", "match": r"inline uint8_t HllUtil<A>::checkLgK\(uint8_t lgK\)", "sig": "uint8_t checkLgK(uint8_t lgK)", "throw_rv": "0"}

newHll = {
    "name": "newHll_bytes", "file": HA,
    "match": r"HllArray<A>\* HllArray<A>::newHll\(const void\* bytes, size_t len, const A& allocator\)",
    "sig": "struct hllarr* newHll_bytes(const void* bytes, size_t len)", "dropped_params": ["allocator"], "throw_rv": "NULL",
    "propagate": ["HllSketchImpl<A>::extractCurMode", "HllSketchImpl<A>::extractTgtHllType", "hllArrBytes", "AuxHashMap<A>::deserialize", "HllUtil<A>::checkLgK"],
    "rules": [(r"HllSketchImpl<A>::", "", "any"), (r"HllUtil<A>::", "", "any"), (r"const hll_mode mode", "const int mode", 1), (r"const target_hll_type tgtHllType", "const int tgtHllType", 1),
              (r"AuxHashMap<A>\* auxHashMap = NULL;", "struct auxmap* auxHashMap = NULL;", 1),
              (r"typedef std::unique_ptr<AuxHashMap<A>, std::function<void\(AuxHashMap<A>\*\)>> aux_hash_map_ptr;", "", 1),
              (r"aux_hash_map_ptr aux_ptr;", "", 1),
              (r"AuxHashMap<A>::deserialize\(auxDataStart, len - offset, lgK, auxCount, auxLgIntArrSize, comapctFlag, allocator\)", "aux_deserialize_c(auxDataStart, len - offset, lgK, auxCount, auxLgIntArrSize, comapctFlag)", 1),
              (r"aux_ptr = aux_hash_map_ptr\(auxHashMap, auxHashMap->make_deleter\(\)\);", "aux_ptr_owned = auxHashMap;", 1),
              (r"HllArray<A>\* sketch = HllSketchImplFactory<A>::newHll\(lgK, tgtHllType, startFullSizeFlag, allocator\);", "struct hllarr* sketch = factory_newHll_c(lgK, tgtHllType, startFullSizeFlag);", 1),
              (r"sketch->putCurMin\(curMin\);", "sketch->curMin_ = curMin;", 1), (r"sketch->putOutOfOrderFlag\(oooFlag\);", "sketch->oooFlag_ = oooFlag;", 1),
              (r"sketch->putHipAccum\(hip\);", "sketch->hipAccum_ = hip;", 1), (r"sketch->putKxQ0\(kxq0\);", "sketch->kxq0_ = kxq0;", 1), (r"sketch->putKxQ1\(kxq1\);", "sketch->kxq1_ = kxq1;", 1),
              (r"sketch->putNumAtCurMin\(numAtCurMin\);", "sketch->numAtCurMin_ = numAtCurMin;", 1),
              (r"memcpy\(sketch->hllByteArr_\.data\(\),", "memcpy(sketch->hllByteArr_,", 1),
              (r"\(\(Hll4Array<A>\*\)sketch\)->putAuxHashMap\(auxHashMap\);", "sketch->auxHashMap_ = auxHashMap;", 1),
              (r"aux_ptr\.release\(\);", "aux_ptr_owned = NULL;", 1)],
    "unwind": "do { if (aux_ptr_owned != NULL) { aux_ptr_owned = NULL; g_live_aux--; } } while (0)",
    "inserts": [(r"^\{", "struct auxmap* aux_ptr_owned = NULL;  /* the std::unique_ptr declared further down, hoisted so that VERIF_UNWIND can name it */", "after", 1)],
    "contract": r'''
__CPROVER_requires(len <= SIZE_CAP && __CPROVER_r_ok(bytes, len) && g_live_aux >= 0 && g_live_aux < 1000 && g_live_hll >= 0 && g_live_hll < 1000)
__CPROVER_assigns(verif_exc, g_live_aux, g_live_hll)
/* (from the property) any length, any content: every read of the image and the copy of the register array stay inside [bytes, bytes+len), no undefined shift on lg_k or the
   target type, the register array allocated is no larger than what the image holds, and a rejected image leaves nothing allocated */
__CPROVER_ensures(len < 40 ==> verif_exc != 0)
__CPROVER_ensures(verif_exc != 0 ==> (g_live_aux == __CPROVER_old(g_live_aux) && g_live_hll == __CPROVER_old(g_live_hll)))
__CPROVER_ensures(verif_exc == 0 ==> (g_live_hll == __CPROVER_old(g_live_hll) + 1 && (size_t)__CPROVER_return_value->hllByteArr_size + 40 <= len))
''',
}

UNIT2 = {
    "id": "hll_array_reader", "property": "C11",
    "clause": "HllArray::newHll(bytes, len): for every length and content, header bytes, the three doubles, the two counts and the register array are read inside the buffer; lg_k and the target "
              "type from the image cannot cause an undefined shift; the exception-table reader is only called with a lg_k the sketch accepts and a sub-range of the buffer; the register array "
              "allocated fits the image; a rejected image leaves neither an array nor an exception table allocated",
    "consts": crules.HLL_CONSTS,
    "prelude": PRELUDE2,
    "parts": arrbytes + [hllArrBytes, extractTgt, extractMode, checkLgK, newHll],
    "harness": "void h_newhll(void) {" + crules.READER_INPUT + "  verif_exc = 0; newHll_bytes(in_bytes, in_size); VERIF_CANARY_POINT; }\n",
    "jobs": [{"name": "newHll_bytes", "entry": "h_newhll", "enforce": "newHll_bytes", "timeout": 900, "unwind": 65, "object_bits": 10, "replace": ["aux_deserialize_c"]}],
    "replay": {"newHll_bytes": {"template": "hll_reader.cpp", "vars": crules.READER_REPLAY_VARS}},
    "assumptions": ["SIZE_CAP: symbolic buffer length 0..65536", "HllSketchImplFactory::newHll is a small C model (allocates the register array of hllArrBytes(type, lg_k) bytes and asserts lg_k in 4..21)",
                    "the unique_ptr owning the exception table is modelled by VERIF_UNWIND on the throwing path"],
}
UNITS = [UNIT, UNIT2]
del UNIT

# ---------------------------------------------------------------- CouponList::newList(bytes) / CouponHashSet::newSet(bytes)
CL = "hll/include/CouponList-internal.hpp"
CH = "hll/include/CouponHashSet-internal.hpp"
PRELUDE3 = PRELUDE2 + r'''
struct couponlist { uint8_t lgConfigK_; uint8_t tgtHllType_; uint8_t mode_; uint32_t couponCount_; bool oooFlag_; uint32_t* coupons_; size_t coupons_size; };
int g_live_cl, g_live0; size_t g_len;
/* new CouponList(lgK, type, mode): coupon array of 2^LG_INIT_LIST_SIZE (LIST) or 2^LG_INIT_SET_SIZE (SET) entries */
struct couponlist* couponlist_new_c(uint8_t lgConfigK, int tgtHllType, int mode) {
  struct couponlist* s = (struct couponlist*)verif_alloc(sizeof(struct couponlist)); s->lgConfigK_ = lgConfigK; s->tgtHllType_ = (uint8_t)tgtHllType; s->mode_ = (uint8_t)mode; s->couponCount_ = 0;
  s->coupons_size = (size_t)1 << (mode == LIST ? hll_constants_LG_INIT_LIST_SIZE : hll_constants_LG_INIT_SET_SIZE);
  s->coupons_ = (uint32_t*)verif_alloc(s->coupons_size * sizeof(uint32_t)); g_live_cl++; return s;
}
/* coupons_.resize(n): the request must be justified by the image (no unbounded allocation from a corrupted size field) */
void coupons_resize_c(struct couponlist* s, size_t n) {
  __CPROVER_assert(n * sizeof(uint32_t) <= g_len, "coupon array requested by the image is no larger than the image");
  s->coupons_ = (uint32_t*)verif_alloc(n * sizeof(uint32_t)); s->coupons_size = n;
}
void set_couponUpdate_c(struct couponlist* s, uint32_t coupon) __CPROVER_assigns(verif_exc, s->couponCount_) __CPROVER_ensures(1);
'''
newList = {
    "name": "newList_bytes", "file": CL,
    "match": r"CouponList<A>\* CouponList<A>::newList\(const void\* bytes, size_t len, const A& allocator\)",
    "sig": "struct couponlist* newList_bytes(const void* bytes, size_t len)", "dropped_params": ["allocator"], "throw_rv": "NULL",
    "propagate": ["HllSketchImpl<A>::extractCurMode", "HllSketchImpl<A>::extractTgtHllType", "HllUtil<A>::checkLgK"],
    "rules": [(r"HllSketchImpl<A>::", "", "any"), (r"HllUtil<A>::", "", "any"), (r"hll_mode mode", "int mode", 1), (r"target_hll_type tgtHllType", "int tgtHllType", 1),
              (r"ClAlloc cla\(allocator\);", "", 1), (r"CouponList<A>\* sketch = new \(cla\.allocate\(1\)\) CouponList<A>\(lgK, tgtHllType, mode, allocator\);", "struct couponlist* sketch = couponlist_new_c(lgK, tgtHllType, mode);", 1),
              (r"sketch->putOutOfOrderFlag\(oooFlag\);", "sketch->oooFlag_ = oooFlag;", 1), (r"sketch->coupons_\.data\(\)", "sketch->coupons_", 1)],
    "contract": r'''
__CPROVER_requires(len <= SIZE_CAP && __CPROVER_r_ok(bytes, len) && g_live_cl >= 0 && g_live_cl < 1000)
__CPROVER_assigns(verif_exc, g_live_cl)
/* any length, any content: reads inside the buffer, the coupons copied fit the list's coupon array (pointer checks on the copy), nothing allocated on rejection */
__CPROVER_ensures(len < 8 ==> verif_exc != 0)
__CPROVER_ensures(verif_exc != 0 ==> g_live_cl == __CPROVER_old(g_live_cl))
__CPROVER_ensures(verif_exc == 0 ==> __CPROVER_return_value->couponCount_ <= __CPROVER_return_value->coupons_size)
''',
}
CZ = "common/include/count_zeros.hpp"
cz_tables = {"name": "byte_trailing_zeros_table", "file": CZ, "begin": r"static const uint8_t byte_trailing_zeros_table\[256\] = \{", "include_begin": True, "end": r"static const uint64_t FCLZ_MASK_56", "rules": []}
ctz32 = {"name": "count_trailing_zeros_in_u32", "file": CZ, "match": r"static inline uint8_t count_trailing_zeros_in_u32\(uint32_t input\)", "sig": "static inline uint8_t count_trailing_zeros_in_u32(uint32_t input)", "nloops": 1,
         "loops": {1: "__CPROVER_assigns(i, input)\n__CPROVER_loop_invariant(i >= 0 && i <= 4)\n__CPROVER_decreases(4 - i)\n"}}
cp2 = {"name": "ceiling_power_of_2", "file": "common/include/ceiling_power_of_2.hpp", "match": r"static inline uint32_t ceiling_power_of_2\(uint32_t n\)", "sig": "static inline uint32_t ceiling_power_of_2(uint32_t n)"}
lgaux = {"name": "LG_AUX_ARR_INTS", "file": "hll/include/HllUtil.hpp", "begin": r"static const uint8_t LG_AUX_ARR_INTS\[\] = \{", "include_begin": True, "end": r"\};", "include_end": True,
         "rules": [(r"LG_AUX_ARR_INTS", "hll_constants_LG_AUX_ARR_INTS", 1)]}
simpleIntLog2 = {"name": "simpleIntLog2", "file": "hll/include/HllUtil.hpp", "match": r"inline uint8_t HllUtil<A>::simpleIntLog2\(uint32_t n\)", "sig": "static inline uint8_t simpleIntLog2(uint32_t n)", "throw_rv": "0"}
computeLgArrInts_real = {"name": "computeLgArrInts", "file": "hll/include/HllUtil.hpp", "match": r"inline uint8_t HllUtil<A>::computeLgArrInts\(hll_mode mode, uint32_t count, uint8_t lgConfigK\)",
                         "sig": "static inline uint8_t computeLgArrInts(int mode, uint32_t count, uint8_t lgConfigK)", "throw_rv": "0",
                         "rules": [(r"HllUtil<A>::", "", "any"), (r"std::max\(", "VMAX(", 2)], "propagate": ["HllUtil<A>::simpleIntLog2"]}
COMPUTE_PARTS = [cp2, lgaux, simpleIntLog2, computeLgArrInts_real]
newSet = {
    "name": "newSet_bytes", "file": CH,
    "match": r"CouponHashSet<A>\* CouponHashSet<A>::newSet\(const void\* bytes, size_t len, const A& allocator\)",
    "sig": "struct couponlist* newSet_bytes(const void* bytes, size_t len)", "dropped_params": ["allocator"], "throw_rv": "NULL", "nloops": 1,
    "propagate": ["HllSketchImpl<A>::extractCurMode", "HllSketchImpl<A>::extractTgtHllType", "HllUtil<A>::checkLgK", "sketch->couponUpdate", "HllUtil<>::computeLgArrInts"],
    "rules": [(r"HllSketchImpl<A>::", "", "any"), (r"HllUtil<A>::", "", "any"), (r"HllUtil<>::", "", "any"), (r"const hll_mode mode", "const int mode", 1), (r"const target_hll_type tgtHllType", "const int tgtHllType", 1),
              (r"ChsAlloc chsa\(allocator\);", "", 1), (r"CouponHashSet<A>\* sketch = new \(chsa\.allocate\(1\)\) CouponHashSet<A>\(lgK, tgtHllType, allocator\);", "struct couponlist* sketch = couponlist_new_c(lgK, tgtHllType, SET);", 1),
              (r"typedef std::unique_ptr<CouponHashSet<A>, std::function<void\(HllSketchImpl<A>\*\)>> coupon_hash_set_ptr;", "", "any"),
              (r"coupon_hash_set_ptr ptr\(sketch, sketch->get_deleter\(\)\);", "set_ptr_owned = sketch;", "any"),
              (r"return ptr\.release\(\);", "{ set_ptr_owned = NULL; return sketch; }", "any"),
              (r"sketch->couponUpdate\(coupon\);", "set_couponUpdate_c(sketch, coupon);", 1), (r"sketch->coupons_\.resize\(([^;]*)\);", r"coupons_resize_c(sketch, \1);", 1),
              (r"sketch->coupons_\.data\(\)", "sketch->coupons_", 1)],
    "inserts": [(r"^\{", "g_len = len; struct couponlist* set_ptr_owned = NULL;", "after", 1)],
    "unwind": "do { if (set_ptr_owned != NULL) { set_ptr_owned = NULL; g_live_cl--; } } while (0)",
    "contract": r'''
__CPROVER_requires(len <= SIZE_CAP && __CPROVER_r_ok(bytes, len) && g_live_cl >= 0 && g_live_cl < 1000 && g_live0 == g_live_cl)
__CPROVER_assigns(verif_exc, g_live_cl, g_len)
__CPROVER_ensures(len < 12 ==> verif_exc != 0)
__CPROVER_ensures(verif_exc != 0 ==> g_live_cl == __CPROVER_old(g_live_cl))
''',
    "loops": {1: r'''
__CPROVER_assigns(i, curPos, coupon, verif_exc, sketch->couponCount_, g_live_cl, set_ptr_owned)
__CPROVER_loop_invariant(set_ptr_owned == sketch && g_live_cl == g_live0 + 1)
__CPROVER_loop_invariant(i <= couponCount && verif_exc == 0 && __CPROVER_same_object(curPos, bytes) && __CPROVER_POINTER_OFFSET(curPos) == 12 + 4 * (size_t)i)
__CPROVER_decreases(couponCount - i)
'''},
}
UNIT3 = {
    "id": "hll_coupon_readers", "property": "C11",
    "clause": "CouponList::newList(bytes) and CouponHashSet::newSet(bytes): for every length and content, header and coupon reads stay inside the buffer, the coupons copied fit the "
              "sketch's coupon array (no write past it), size fields of the image cannot cause an undefined shift or an allocation larger than the image",
    "consts": crules.HLL_CONSTS,
    "prelude": "#define REAL_COMPUTE_LG 1\n" + PRELUDE3 + "/* table-driven trailing-zero count, by its contract (proved in C03 unit hll_coupon job ctz32) */\nuint8_t count_trailing_zeros_in_u32(uint32_t input) __CPROVER_assigns() __CPROVER_ensures(__CPROVER_return_value == (input == 0 ? 32 : __builtin_ctz(input)));\n",
    "parts": COMPUTE_PARTS + [extractTgt, extractMode, checkLgK, newList, newSet],
    "harness": "void h_newlist(void) {" + crules.READER_INPUT + "  verif_exc = 0; newList_bytes(in_bytes, in_size); VERIF_CANARY_POINT; }\n"
               "void h_newset(void) {" + crules.READER_INPUT + "  verif_exc = 0; newSet_bytes(in_bytes, in_size); VERIF_CANARY_POINT; }\n",
    "jobs": [{"name": "newList_bytes", "entry": "h_newlist", "enforce": "newList_bytes", "timeout": 900, "unwind": 65, "object_bits": 10, "replace": ["count_trailing_zeros_in_u32"]},
             {"name": "newSet_bytes", "entry": "h_newset", "enforce": "newSet_bytes", "timeout": 900, "unwind": 65, "object_bits": 10, "loops": True, "expect_loop_steps": 1,
              "replace": ["set_couponUpdate_c", "count_trailing_zeros_in_u32"]}],
    "replay": {"*": {"template": "hll_reader.cpp", "vars": crules.READER_REPLAY_VARS}},
    "assumptions": ["object creation (new CouponList / CouponHashSet, coupons_.resize) are small C models; computeLgArrInts and the hash-set couponUpdate are frame-only contracts",
                    "SIZE_CAP: symbolic buffer length 0..65536"],
}
UNITS.append(UNIT3)
