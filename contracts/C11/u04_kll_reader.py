import crules
KS = "kll/include/kll_sketch_impl.hpp"
KH = "kll/include/kll_sketch.hpp"
SD = "common/include/serde.hpp"

PRELUDE = crules.MEMOPS_PRELUDE + r'''
typedef float T;
enum { flags_IS_EMPTY = 0, flags_IS_LEVEL_ZERO_SORTED = 1, flags_IS_SINGLE_ITEM = 2 };
#define kll_constants_DEFAULT_M ((uint8_t)8)
int g_live_blocks; bool g_result_built; uint32_t g_res_levels0, g_res_capacity;
/* total capacity for (k, m, num_levels): any value (over-approximation of kll_helper::compute_total_capacity) */
uint32_t compute_total_capacity(uint16_t k, uint8_t m, uint8_t num_levels) __CPROVER_assigns() __CPROVER_ensures(1);
static void* kll_alloc(size_t bytes) { g_live_blocks++; return verif_alloc(bytes ? bytes : 1); }
static void kll_free(void* p) { g_live_blocks--; free(p); }
'''
check_fns = [
    {"name": n, "file": KS, "match": r"void kll_sketch<T, C, A>::%s\(%s\)" % (n, p), "sig": "void %s(%s)" % (n, p),
     "rules": [(r"flags::IS_EMPTY", "flags_IS_EMPTY", "any"), (r"flags::IS_SINGLE_ITEM", "flags_IS_SINGLE_ITEM", "any")]}
    for n, p in [("check_m", "uint8_t m"), ("check_preamble_ints", "uint8_t preamble_ints, uint8_t flags_byte"), ("check_serial_version", "uint8_t serial_version"), ("check_family_id", "uint8_t family_id")]]
serde_deser = {"name": "serde_deserialize", "file": SD, "match": r"size_t deserialize\(const void\* ptr, size_t capacity, T\* items, unsigned num\) const",
               "sig": "size_t serde_deserialize(const void* ptr, size_t capacity, T* items, unsigned num)", "throw_rv": "0", "propagate": ["check_memory_size"]}
# the arithmetic serde is the first of two definitions with this signature (the second is the std::string one): take the arithmetic struct's region
serde_deser["match"] = r"size_t deserialize\(const void\* ptr, size_t capacity, T\* items, unsigned num\) const(?=\s*\{\s*const size_t bytes_read = sizeof\(T\) \* num;)"

deser = {
    "name": "kll_deserialize", "file": KS,
    "match": r"kll_sketch<T, C, A> kll_sketch<T, C, A>::deserialize\(const void\* bytes, size_t size, const SerDe& sd,\s*const C& comparator, const A& allocator\)",
    "sig": "void kll_deserialize(const void* bytes, size_t size)", "dropped_params": ["sd", "comparator", "allocator"],
    "propagate": ["ensure_minimum_memory", "check_m", "check_preamble_ints", "check_serial_version", "check_family_id", "sd.deserialize"],
    "rules": [(r"flags::", "flags_", "any"), (r"kll_helper::", "", "any"),
              (r"return kll_sketch\(k, comparator, allocator\);", "{ g_result_built = 1; return; }", 1),
              (r"vector_u32 levels\(num_levels \+ 1, 0, allocator\);", "uint32_t* levels = (uint32_t*)kll_alloc(((size_t)num_levels + 1) * sizeof(uint32_t)); levels_owned = levels; memset(levels, 0, ((size_t)num_levels + 1) * sizeof(uint32_t));", 1),
              (r"copy_from_mem\(ptr, levels\.data\(\), sizeof\(levels\[0\]\) \* num_levels\)", "copy_from_mem_n(ptr, levels, sizeof(levels[0]) * num_levels)", 1),
              (r"optional<T> tmp;", "T tmp_v;", 1), (r"optional<T> min_item;", "T min_v; bool min_has = 0;", 1), (r"optional<T> max_item;", "T max_v; bool max_has = 0;", 1),
              (r"sd\.deserialize\(ptr, end_ptr - ptr, &\*tmp, 1\)", "serde_deserialize(ptr, end_ptr - ptr, &tmp_v, 1)", 2),
              (r"min_item\.emplace\(\*tmp\);", "min_v = tmp_v; min_has = 1;", 1), (r"max_item\.emplace\(\*tmp\);", "max_v = tmp_v; max_has = 1;", 1), (r"\(\*tmp\)\.~T\(\);", "(void)0;", 2),
              (r"A alloc\(allocator\);", "", 1), (r"auto items_buffer_deleter = [^;]*; \};", "", 1),
              (r"std::unique_ptr<T, decltype\(items_buffer_deleter\)> items_buffer\(alloc\.allocate\(capacity\), items_buffer_deleter\);", "T* items_buffer = (T*)kll_alloc((size_t)capacity * sizeof(T)); items_owned = items_buffer;", 1),
              (r"const auto num_items", "const uint32_t num_items", 1),
              (r"sd\.deserialize\(ptr, end_ptr - ptr, &items_buffer\.get\(\)\[levels\[0\]\], num_items\)", "serde_deserialize(ptr, end_ptr - ptr, &items_buffer[levels[0]], num_items)", 1),
              (r"std::unique_ptr<T, items_deleter> items\(items_buffer\.release\(\), items_deleter\(levels\[0\], capacity, allocator\)\);", "T* items = items_buffer;", 1),
              (r"min_item\.emplace\(items\.get\(\)\[levels\[0\]\]\);", "min_v = items[levels[0]]; min_has = 1;", 1), (r"max_item\.emplace\(items\.get\(\)\[levels\[0\]\]\);", "max_v = items[levels[0]]; max_has = 1;", 1),
              (r"return kll_sketch\(k, min_k, n, num_levels, std::move\(levels\), std::move\(items\), capacity,\s*std::move\(min_item\), std::move\(max_item\), is_level_zero_sorted, comparator\);",
               "{ g_result_built = 1; g_res_levels0 = levels[0]; g_res_capacity = capacity; levels_owned = NULL; items_owned = NULL; return; }", 1)],
    "inserts": [(r"^\{", "uint32_t* levels_owned = NULL; T* items_owned = NULL;  /* owners released by VERIF_UNWIND on the throwing path (std::vector / std::unique_ptr) */", "after", 1)],
    "nloops": 1,
    "loops": {1: r'''
__CPROVER_assigns(i, verif_exc, levels_owned, items_owned, g_live_blocks)
__CPROVER_loop_invariant(i <= num_levels && verif_exc == 0 && levels_owned == levels && items_owned == NULL && g_live_blocks == 1 && levels[0] <= levels[i])
__CPROVER_decreases(num_levels - i)
'''},
    "unwind": "do { if (levels_owned) { kll_free(levels_owned); levels_owned = NULL; } if (items_owned) { kll_free(items_owned); items_owned = NULL; } } while (0)",
    "contract": r'''
__CPROVER_requires(size <= SIZE_CAP && __CPROVER_r_ok(bytes, size) && g_live_blocks == 0 && !g_result_built)
__CPROVER_assigns(verif_exc, g_live_blocks, g_result_built, g_res_levels0, g_res_capacity)
/* any length, any content: every read inside [bytes, bytes+size), every write inside the arrays allocated for the sketch, and a rejected image leaves nothing allocated */
__CPROVER_ensures(size < 8 ==> verif_exc != 0)
__CPROVER_ensures(verif_exc != 0 ==> (g_live_blocks == 0 && !g_result_built))
/* an accepted non-empty image yields items inside the items array */
__CPROVER_ensures((verif_exc == 0 && g_live_blocks > 0) ==> g_res_levels0 <= g_res_capacity)
''',
}

UNIT = {
    "id": "kll_reader", "property": "C11",
    "clause": "kll_sketch<float>::deserialize(bytes, size): for every length and content - empty, single-item and full layouts - preamble, n/min_k/num_levels, the levels array, "
              "min/max and the retained items are read inside the buffer and written inside the arrays allocated for them; a rejected image leaves neither array allocated",
    "consts": [{"file": KH, "pattern": r"static const (?P<type>uint8_t|size_t) (?P<name>DATA_START_SINGLE_ITEM|DATA_START|SERIAL_VERSION_1|SERIAL_VERSION_2|FAMILY|PREAMBLE_INTS_SHORT|PREAMBLE_INTS_FULL)\s*=\s*(?P<value>[^;]+);", "min_count": 7}],
    "prelude": PRELUDE,
    "parts": [crules.ensure_minimum_memory, crules.check_memory_size] + check_fns + [serde_deser, deser],
    "harness": "void h_kll(void) {" + crules.READER_INPUT + "  verif_exc = 0; kll_deserialize(in_bytes, in_size); VERIF_CANARY_POINT; }\n",
    "jobs": [{"name": "deserialize_bytes", "entry": "h_kll", "enforce": "kll_deserialize", "timeout": 900, "unwind": 65, "object_bits": 10, "loops": True, "expect_loop_steps": 1, "replace": ["compute_total_capacity"]}],
    "replay": {"*": {"template": "kll_reader.cpp", "vars": crules.READER_REPLAY_VARS}},
    "assumptions": ["T = float with the arithmetic serde (real code of common/include/serde.hpp); compute_total_capacity returns any value (over-approximation)",
                    "std::vector levels / std::unique_ptr items are heap blocks with VERIF_UNWIND releasing them on the throwing path; optional<T> is (value, has)",
                    "SIZE_CAP: symbolic buffer length 0..65536"],
}
