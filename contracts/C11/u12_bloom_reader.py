import crules
BF = "filters/include/bloom_filter_impl.hpp"
BH = "filters/include/bloom_filter.hpp"
PRELUDE = crules.MEMOPS_PRELUDE + r'''
#undef SIZE_CAP
#define SIZE_CAP ((size_t)1 << 33)     /* byte images of filters above 2^32 bits are in scope */
int g_live_blocks; bool g_built; uint64_t g_capacity_bits, g_alloc_bytes; bool g_owned; const uint8_t* g_bit_array; bool g_empty_built;
static uint8_t* bf_alloc(uint64_t bytes) { g_live_blocks++; g_alloc_bytes += bytes; return (uint8_t*)verif_alloc(bytes ? bytes : 1); }
/* constructors the reader ends in: recorded, not executed (the filter object is under contract in C15) */
#define BLOOM_EMPTY(num_bits, num_hashes, seed) do { g_built = 1; g_empty_built = 1; g_capacity_bits = (num_bits); } while (0)
#define BLOOM_FULL(seed, num_hashes, is_dirty, is_owned, read_only, capacity_bits, num_bits_set, bit_array, memory) \
  do { g_built = 1; g_capacity_bits = (capacity_bits); g_owned = (is_owned); g_bit_array = (bit_array); } while (0)
'''
deser = {
    "name": "internal_deserialize_or_wrap", "file": BF,
    "match": r"bloom_filter_alloc<A> bloom_filter_alloc<A>::internal_deserialize_or_wrap\(void\* bytes,\s*size_t length_bytes,\s*bool read_only,\s*bool wrap,\s*const A& allocator\)",
    "sig": "void internal_deserialize_or_wrap(void* bytes, size_t length_bytes, bool read_only, bool wrap)", "dropped_params": ["allocator"],
    "propagate": ["ensure_minimum_memory"],
    "rules": [(r"return bloom_filter_alloc<A>\(([^,]*), num_hashes, seed, allocator\);", r"{ BLOOM_EMPTY(\1, num_hashes, seed); return; }", 1),
              (r"AllocUint8 alloc\(allocator\);", "", 1), (r"alloc\.allocate\(num_bytes\)", "bf_alloc(num_bytes)", 1),
              (r"throw std::bad_alloc\(\);", "VERIF_THROW;", "any"),
              (r"copy_from_mem\(ptr, bit_array, num_bytes\);", "copy_from_mem_n(ptr, bit_array, num_bytes);", 1),
              (r"return bloom_filter_alloc<A>\(seed, num_hashes, is_dirty, !wrap, read_only, ([^,]*), num_bits_set, bit_array, memory, allocator\);",
               r"{ g_num_longs = num_longs; BLOOM_FULL(seed, num_hashes, is_dirty, !wrap, read_only, \1, num_bits_set, bit_array, memory); return; }", 1)],
    "inserts": [(r"ptr \+= copy_from_mem\(ptr, num_longs\);", "g_num_longs = num_longs;", "after", 1)],
    "contract": r'''
__CPROVER_requires(length_bytes <= SIZE_CAP && (bytes == NULL || __CPROVER_rw_ok(bytes, length_bytes)) && verif_exc == 0 && g_live_blocks == 0 && !g_built && g_alloc_bytes == 0 && !g_empty_built)
__CPROVER_assigns(verif_exc, g_live_blocks, g_built, g_capacity_bits, g_alloc_bytes, g_owned, g_bit_array, g_empty_built, g_num_longs)
/* any length, any content, deserialize and wrap: the preamble is read inside the buffer */
__CPROVER_ensures(length_bytes < 24 ==> verif_exc != 0)
__CPROVER_ensures(verif_exc != 0 ==> (!g_built && g_live_blocks == 0))
/* the filter is built with exactly 64 bits per long of the image (no 32-bit truncation) */
__CPROVER_ensures(g_built ==> g_capacity_bits == (uint64_t)g_num_longs * 64)
/* a wrapped filter's bit array lies inside the caller's buffer; a deserialized one is a copy of exactly that many bytes */
__CPROVER_ensures((g_built && !g_empty_built && wrap) ==> (g_bit_array == (const uint8_t*)bytes + 32 && 32 + (uint64_t)g_num_longs * 8 <= length_bytes))
__CPROVER_ensures((g_built && !g_empty_built && !wrap) ==> (g_alloc_bytes == (uint64_t)g_num_longs * 8 && 32 + (uint64_t)g_num_longs * 8 <= length_bytes && g_live_blocks == 1))
''',
}
HARNESS = r'''
uint32_t g_num_longs;
void h_bloom(void) {
  size_t in_size = nondet_size(); __CPROVER_assume(in_size <= SIZE_CAP);
  uint8_t* in_bytes = malloc(in_size); __CPROVER_assume(in_bytes != NULL);
  uint8_t in_img[64]; for (int wi_ = 0; wi_ < 64; wi_++) in_img[wi_] = ((size_t)wi_ < in_size) ? in_bytes[wi_] : 0;
  verif_exc = 0; g_live_blocks = 0; g_built = 0; g_alloc_bytes = 0; g_empty_built = 0;
  internal_deserialize_or_wrap(in_bytes, in_size, nondet_bool(), nondet_bool()); VERIF_CANARY_POINT; }
'''
UNIT = {
    "id": "bloom_reader", "property": "C11",
    "clause": "bloom_filter::internal_deserialize_or_wrap (deserialize and both wrap modes) for every length and content: the preamble including the bit count of a non-empty image is read inside "
              "the buffer, the capacity is exactly 64 bits per long of the image, a wrapped filter's bit array lies inside the caller's buffer, a deserialized one is a copy of exactly that size",
    "consts": [{"file": BH, "pattern": r"static const (?P<type>uint8_t|uint64_t) (?P<name>DIRTY_BITS_VALUE|BIT_ARRAY_OFFSET_BYTES|PREAMBLE_LONGS_EMPTY|PREAMBLE_LONGS_STANDARD|FAMILY_ID|SER_VER|EMPTY_FLAG_MASK)\s*=\s*(?P<value>[^;]+);", "min_count": 7}],
    "prelude": PRELUDE.replace("int g_live_blocks;", "extern uint32_t g_num_longs; int g_live_blocks;"),
    "parts": [crules.ensure_minimum_memory, deser], "harness": HARNESS,
    "jobs": [{"name": "deserialize_or_wrap", "entry": "h_bloom", "enforce": "internal_deserialize_or_wrap", "timeout": 900, "unwind": 65, "object_bits": 10}],
    "replay": {"*": {"template": "bloom_reader.cpp", "vars": crules.READER_REPLAY_VARS}},
    "assumptions": ["the two constructors the reader ends in are recorded, not executed (bloom_filter methods are under contract in C15)", "symbolic buffer length 0..2^33"],
}
