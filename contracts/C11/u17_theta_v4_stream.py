import crules, importlib.util, os
_spec = importlib.util.spec_from_file_location("c11parser", os.path.join(os.path.dirname(__file__), "u01_theta_parser.py"))
_tp = importlib.util.module_from_spec(_spec); _spec.loader.exec_module(_tp)
TS = "theta/include/theta_sketch_impl.hpp"
PRELUDE = r'''
enum { flags_IS_BIG_ENDIAN, flags_IS_READ_ONLY, flags_IS_EMPTY, flags_IS_COMPACT, flags_IS_ORDERED };
/* std::istream as a byte source: a read past the end delivers nothing more and clears good() (failbit/eofbit) */
struct vis { const uint8_t* buf; size_t size; size_t pos; bool good; };
static void vis_read(struct vis* is, void* dst, size_t n) { size_t avail_ = is->good ? is->size - is->pos : 0; size_t take_ = n < avail_ ? n : avail_; if (take_ > 0) memcpy(dst, is->buf + is->pos, take_); is->pos += take_; if (take_ < n) is->good = 0; }
static uint8_t vis_u8(struct vis* is) { uint8_t v = 0; vis_read(is, &v, 1); return v; }
static uint16_t vis_u16(struct vis* is) { uint16_t v = 0; vis_read(is, &v, 2); return v; }
static uint64_t vis_u64(struct vis* is) { uint64_t v = 0; vis_read(is, &v, 8); return v; }
uint16_t compute_seed_hash(uint64_t seed) __CPROVER_assigns() __CPROVER_ensures(1) { return (uint16_t)nondet_u32(); }
bool g_reached; uint8_t g_entry_bits, g_num_entries_bytes; uint32_t g_num_entries;
'''
HEAD = {"raw": r"""
/* header part of compact_theta_sketch::deserialize_v4(std::istream&): the statements from the first read up to the allocation of the block buffer, extracted as a region */
void v4_stream_header(uint8_t preamble_longs, struct vis* is, uint64_t seed)
__CPROVER_requires(__CPROVER_rw_ok(is, sizeof(*is)) && is->size <= ((size_t)1 << 16) && is->pos <= is->size && __CPROVER_r_ok(is->buf, is->size) && verif_exc == 0 && !g_reached)
__CPROVER_assigns(verif_exc, is->pos, is->good, g_entry_bits, g_num_entries_bytes, g_num_entries, g_reached)
/* the entry count is assembled from at most 4 bytes (no undefined shift), and the delta width handed to the unpackers is one they support */
__CPROVER_ensures(g_reached ==> (verif_exc == 0 && g_num_entries_bytes <= 4 && g_entry_bits >= 1 && g_entry_bits <= 63))
{
"""}
REGION = {"name": "deserialize_v4_stream_header", "file": TS, "propagate": ["check_seed_hash"],
          "begin": r"const auto entry_bits = read<uint8_t>\(is\);", "include_begin": True, "end": r"vector_bytes buffer\(entry_bits, 0, allocator\);",
          "rules": [(r"const auto (\w+) = read<uint8_t>\(is\);", r"const uint8_t \1 = vis_u8(is);", 3), (r"const auto seed_hash = read<uint16_t>\(is\);", "const uint16_t seed_hash = vis_u16(is);", 1),
                    (r"read<uint64_t>\(is\)", "vis_u64(is)", 1), (r"read<uint8_t>\(is\)", "vis_u8(is)", 1),
                    (r"is\.good\(\)", "is->good", "any"), (r"flags::", "flags_", "any"), (r"checker<true>::", "", "any"), (r"theta_constants::MAX_THETA", "theta_constants_MAX_THETA", 1),
                    (r"for \(unsigned i = 0; i < num_entries_bytes; \+\+i\)", "for (unsigned i = 0; i < num_entries_bytes; ++i)\n__CPROVER_assigns(i, num_entries, is->pos, is->good)\n"
                     "__CPROVER_loop_invariant(i <= num_entries_bytes && is->pos <= is->size)\n__CPROVER_decreases(num_entries_bytes - i)\n", 1)]}
TAIL = {"raw": "\n  g_reached = 1; g_entry_bits = entry_bits; g_num_entries_bytes = num_entries_bytes; g_num_entries = num_entries;\n}\n"}
HARNESS = r'''
void h_v4(void) {
  struct vis* is = malloc(sizeof(*is)); __CPROVER_assume(is != NULL); __CPROVER_assume(is->size <= ((size_t)1 << 16)); size_t n_ = is->size; uint8_t* b = malloc(n_); __CPROVER_assume(b != NULL); is->buf = b; is->pos = 0; is->good = 1;
  uint8_t in_img[64]; for (int wi_ = 0; wi_ < 64; wi_++) in_img[wi_] = ((size_t)wi_ < n_) ? b[wi_] : 0;
  size_t in_size = n_; verif_exc = 0; g_reached = 0;
  v4_stream_header(nondet_u8(), is, nondet_u64()); VERIF_CANARY_POINT; }
'''
UNIT = {
    "id": "theta_v4_stream", "property": "C11",
    "clause": "compact_theta_sketch::deserialize_v4(std::istream&), header part (from the first read up to the block buffer, extracted as a region) for every stream length and content: the entry count is "
              "assembled from at most 4 bytes without an undefined shift and the delta width handed to the unpackers is 1..63",
    "consts": crules.THETA_CONSTS,
    "prelude": PRELUDE, "parts": [_tp.check_value_u8, _tp.check_value_u16, _tp.check_seed_hash, HEAD, REGION, TAIL], "harness": HARNESS,
    "jobs": [{"name": "v4_stream_header", "entry": "h_v4", "enforce": "v4_stream_header", "loops": True, "expect_loop_steps": 1, "timeout": 600, "unwind": 65, "object_bits": 10}],
    "replay": {"*": {"template": "theta_v4_stream.cpp", "vars": {"SIZE": "val('in_size')", "BYTES": "''.join('%d,' % (int(x) & 255) for x in arr('in_img', 64))"}}},
    "assumptions": ["std::istream is a byte source with a good flag (a read past the end delivers nothing and clears good())",
                    "the block / remainder loops and the is.good() check after them are not under contract (pointer-moving unpack loop; a bounded stand-in ran out of memory)"],
}
