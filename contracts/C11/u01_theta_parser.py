F = "theta/include/compact_theta_sketch_parser_impl.hpp"
H = "theta/include/compact_theta_sketch_parser.hpp"
TH = "theta/include/theta_helpers.hpp"

PRELUDE = r'''
#include <limits.h>
typedef struct { bool is_empty; bool is_ordered; uint16_t seed_hash; uint32_t num_entries; uint64_t theta;
                 const void* entries_start_ptr; uint8_t entry_bits; } compact_theta_sketch_data;
/* seed hash of the caller-supplied seed: any 16-bit value (Murmur is decided in C10) */
uint16_t compute_seed_hash(uint64_t seed) __CPROVER_assigns() __CPROVER_ensures(1);
#define SIZE_CAP 65536
'''

check_value_u8 = {
    "name": "check_value_u8", "file": TH, "match": r"static void check_value\(T actual, T expected, const char\* description\)",
    "sig": "void check_value_u8(uint8_t actual, uint8_t expected, const char* description)",
}
check_value_u16 = dict(check_value_u8, name="check_value_u16",
                       sig="void check_value_u16(uint16_t actual, uint16_t expected, const char* description)")
check_sketch_type = {
    "name": "check_sketch_type", "file": TH, "match": r"static void check_sketch_type\(uint8_t actual, uint8_t expected\)",
    "sig": "void check_sketch_type(uint8_t actual, uint8_t expected)",
    "rules": [(r"\bcheck_value\(", "check_value_u8(", 1)], "propagate": ["check_value"],
}
check_seed_hash = {
    "name": "check_seed_hash", "file": TH, "match": r"static void check_seed_hash\(uint16_t actual, uint16_t expected\)",
    "sig": "void check_seed_hash(uint16_t actual, uint16_t expected)",
    "rules": [(r"\bcheck_value\(", "check_value_u16(", 1)], "propagate": ["check_value"],
}
check_memory_size = {
    "name": "check_memory_size", "file": F,
    "match": r"void compact_theta_sketch_parser<dummy>::check_memory_size\(const void\* ptr, size_t actual_bytes, size_t expected_bytes, bool dump_on_error\)",
    "sig": "void check_memory_size(const void* ptr, size_t actual_bytes, size_t expected_bytes, bool dump_on_error)",
}
whole_bytes = {
    "name": "whole_bytes_to_hold_bits", "file": F, "match": r"T whole_bytes_to_hold_bits\(T bits\)",
    "sig": "size_t whole_bytes_to_hold_bits(size_t bits)",
    "rules": [(r"static_assert\([^;]*\);", "", 1)],
}

parse = {
    "name": "parse", "file": F,
    "match": r"auto compact_theta_sketch_parser<dummy>::parse\(const void\* ptr, size_t size, uint64_t seed, bool dump_on_error\)",
    "sig": "compact_theta_sketch_data parse(const void* ptr, size_t size, uint64_t seed, bool dump_on_error)",
    "throw_rv": "(compact_theta_sketch_data){0}",
    "propagate": ["check_memory_size", "checker<true>::check_sketch_type", "checker<true>::check_seed_hash"],
    "rules": [
        (r"checker<true>::", "", 4),
        (r"return \{", "return (compact_theta_sketch_data){", None),
    ],
    "contract": r'''
__CPROVER_requires(size <= SIZE_CAP && __CPROVER_is_fresh(ptr, size))
__CPROVER_assigns(verif_exc)
/* an accepted image describes an entry area that lies inside the supplied buffer */
__CPROVER_ensures((verif_exc == 0 && !__CPROVER_return_value.is_empty) ==> (
    __CPROVER_same_object(__CPROVER_return_value.entries_start_ptr, ptr) &&
    __CPROVER_return_value.entry_bits >= 1 && __CPROVER_return_value.entry_bits <= 64 &&
    __CPROVER_POINTER_OFFSET(__CPROVER_return_value.entries_start_ptr) +
      (((size_t)__CPROVER_return_value.entry_bits * __CPROVER_return_value.num_entries + 7) >> 3) <= size))
__CPROVER_ensures((verif_exc == 0 && __CPROVER_return_value.is_empty) ==> __CPROVER_return_value.num_entries == 0)
/* fewer than 8 bytes can never be accepted */
__CPROVER_ensures(size < 8 ==> verif_exc != 0)
''',
    "nloops": 1,
}

UNIT = {
    "id": "theta_parser", "property": "C11",
    "clause": "compact theta images (serial versions 1-4), bytes path incl. wrap: for every buffer length 0..65536 and every content, "
              "parse() touches no byte outside [ptr, ptr+size), performs no undefined shift/overflow on image fields, and an accepted image "
              "describes an entry area inside the buffer (what deserialize(bytes) and the wrapped iterator then read)",
    "consts": [
        {"file": H, "pattern": r"static const (?P<type>size_t|uint8_t) (?P<name>COMPACT_SKETCH_\w+) = (?P<value>[^;]+);", "min_count": 18},
        {"name": "theta_constants_MAX_THETA", "file": "theta/include/theta_constants.hpp",
         "match": r"const uint64_t MAX_THETA = ([^;]+);", "ctype": "uint64_t"},
    ],
    "prelude": PRELUDE,
    "parts": [check_value_u8 | {"typedefs": {"T": "uint8_t"}}, check_value_u16 | {"typedefs": {"T": "uint16_t"}},
              check_sketch_type, check_seed_hash, check_memory_size, whole_bytes, parse],
    "harness": r'''
void h_parse(void) {
  const void* p; size_t size; uint64_t seed; bool dump;
  verif_exc = 0;
  compact_theta_sketch_data d = parse(p, size, seed, dump);
  VERIF_CANARY_POINT;
}
''',
    "jobs": [
        {"name": "parse", "entry": "h_parse", "enforce": "parse", "replace": ["compute_seed_hash"],
         "unwind": 6, "timeout": 300, "kind": "proved",
         "bound_note": "the only loop runs num_entries_bytes <= 4 times (checked just before it); unwinding assertion proves 6 suffices"},
    ],
    "assumptions": ["SIZE_CAP: symbolic buffer length ranges over every value 0..65536 (all reads are at constant offsets or affine in validated header fields)",
                    "compute_seed_hash(seed) is any 16-bit value here (its definition is decided in C10)"],
    "replay": {"parse": {"template": "theta_parse.cpp",
                         "vars": {"SIZE": "val('size')", "BYTES": "''.join('%d,' % (int(x) & 255) for x in arr(val('ptr')))"}}},
}
