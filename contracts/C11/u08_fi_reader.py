import crules
FS = "fi/include/frequent_items_sketch_impl.hpp"
FH = "fi/include/frequent_items_sketch.hpp"
SD = "common/include/serde.hpp"
PRELUDE = crules.MEMOPS_PRELUDE + r'''
typedef uint64_t T;
typedef uint64_t W;
enum { flags_IS_EMPTY_1 = 0, flags_IS_EMPTY_2 = 2 };
int g_live_blocks; size_t g_alloc_bytes; bool g_built; uint8_t g_lg_cur, g_lg_max;
static void* fr_alloc(size_t bytes) { g_live_blocks++; g_alloc_bytes += bytes; return verif_alloc(bytes ? bytes : 1); }
static void fr_free(void* p) { g_live_blocks--; free(p); }
/* frequent_items_sketch(lg_max_map_size, lg_start_map_size): builds a reverse-purge map of 2^lg_start slots whose code computes '1 << lg' in int everywhere
   (reverse_purge_hash_map_impl.hpp): sizes above 30 are undefined there, so they are the constructor's precondition */
void fi_sketch_ctor(uint8_t lg_max_map_size, uint8_t lg_start_map_size)
  __CPROVER_requires(lg_start_map_size <= lg_max_map_size && lg_max_map_size <= 30)
  __CPROVER_assigns(g_built, g_lg_cur, g_lg_max) __CPROVER_ensures(g_built && g_lg_cur == lg_start_map_size && g_lg_max == lg_max_map_size);
void fi_sketch_update(T item, W weight) __CPROVER_assigns() __CPROVER_ensures(1);
'''
serde_deser = {"name": "serde_deserialize", "file": SD,
               "match": r"size_t deserialize\(const void\* ptr, size_t capacity, T\* items, unsigned num\) const(?=\s*\{\s*const size_t bytes_read = sizeof\(T\) \* num;)",
               "sig": "size_t serde_deserialize(const void* ptr, size_t capacity, T* items, unsigned num)", "throw_rv": "0", "propagate": ["check_memory_size"]}
checks = [{"name": n, "file": FS, "match": r"void frequent_items_sketch<T, W, H, E, A>::%s\(%s\)" % (n, p_), "sig": "void %s(%s)" % (n, p_), "rules": crules.OSTREAM}
          for n, p_ in [("check_preamble_longs", "uint8_t preamble_longs, bool is_empty"), ("check_serial_version", "uint8_t serial_version"), ("check_family_id", "uint8_t family_id"),
                        ("check_size", "uint8_t lg_cur_size, uint8_t lg_max_size")]]
deser = {
    "name": "fi_deserialize", "file": FS,
    "match": r"frequent_items_sketch<T, W, H, E, A> frequent_items_sketch<T, W, H, E, A>::deserialize\(const void\* bytes, size_t size,\s*const SerDe& sd, const E& equal, const A& allocator\)",
    "sig": "void fi_deserialize(const void* bytes, size_t size)", "dropped_params": ["sd", "equal", "allocator"], "nloops": 1,
    "propagate": ["ensure_minimum_memory", "check_preamble_longs", "check_serial_version", "check_family_id", "check_size", "sd.deserialize"],
    "rules": [(r"flags::", "flags_", "any"),
              (r"frequent_items_sketch sketch\(lg_max_size, lg_cur_size, equal, allocator\);", "fi_sketch_ctor(lg_max_size, lg_cur_size);", 1),
              (r"using AllocW = [^;]*;", "", 1),
              (r"std::vector<W, AllocW> weights\(num_items, 0, allocator\);", "W* weights = (W*)fr_alloc((size_t)num_items * sizeof(W)); weights_owned = weights;", 1),
              (r"copy_from_mem\(ptr, weights\.data\(\), sizeof\(W\) \* num_items\)", "copy_from_mem_n(ptr, weights, sizeof(W) * num_items)", 1), (r"A alloc\(allocator\);", "", 1),
              (r"std::unique_ptr<T, items_deleter> items\(alloc\.allocate\(num_items\), items_deleter\(num_items, false, alloc\)\);", "T* items = (T*)fr_alloc((size_t)num_items * sizeof(T)); items_owned = items;", 1),
              (r"sd\.deserialize\(ptr, bytes_remaining, items\.get\(\), num_items\)", "serde_deserialize(ptr, bytes_remaining, items, num_items)", 1),
              (r"items\.get_deleter\(\)\.set_destroy\(true\);", "", 1),
              (r"sketch\.update\(std::move\(items\.get\(\)\[i\]\), weights\[i\]\);", "fi_sketch_update(items[i], weights[i]);", 1),
              (r"sketch\.total_weight = total_weight;", "(void)total_weight;", 1), (r"sketch\.offset = offset;", "(void)offset; fr_free(items_owned); items_owned = NULL; fr_free(weights_owned); weights_owned = NULL;  /* scope exit of the two owners */", 1),
              (r"return sketch;", "return;", 1)],
    "inserts": [(r"^\{", "W* weights_owned = NULL; T* items_owned = NULL;  /* std::vector / std::unique_ptr: released by VERIF_UNWIND on the throwing path and at scope exit */", "after", 1)],
    "unwind": "do { if (weights_owned) { fr_free(weights_owned); weights_owned = NULL; } if (items_owned) { fr_free(items_owned); items_owned = NULL; } } while (0)",
    "contract": r'''
__CPROVER_requires(size <= SIZE_CAP && __CPROVER_r_ok(bytes, size) && verif_exc == 0 && g_live_blocks == 0 && g_alloc_bytes == 0 && !g_built)
__CPROVER_assigns(verif_exc, g_live_blocks, g_alloc_bytes, g_built, g_lg_cur, g_lg_max)
/* any length, any content: reads inside the buffer; the map is only ever built with sizes its own code can handle; the temporary arrays are bounded by the image and released on every path */
__CPROVER_ensures(size < 8 ==> verif_exc != 0)
__CPROVER_ensures(g_live_blocks == 0)
__CPROVER_ensures(g_alloc_bytes <= 2 * size)
__CPROVER_ensures(verif_exc == 0 ==> (g_built && g_lg_cur >= LG_MIN_MAP_SIZE && g_lg_cur <= g_lg_max && g_lg_max <= 30))
''',
    "loops": {1: r'''
__CPROVER_assigns(i)
__CPROVER_loop_invariant(i <= num_items)
__CPROVER_decreases(num_items - i)
'''},
}
UNIT = {
    "id": "fi_reader", "property": "C11",
    "clause": "frequent_items_sketch<uint64_t>::deserialize(bytes, size) for every length and content: preamble, counts, weights and items are read inside the buffer, the map is built only with "
              "lg sizes in 3..30 (beyond that its own '1 << lg' is undefined), the temporary weight and item arrays are bounded by the image and released on every path",
    "consts": [{"file": FH, "pattern": r"static const (?P<type>uint8_t) (?P<name>LG_MIN_MAP_SIZE|SERIAL_VERSION|FAMILY_ID|PREAMBLE_LONGS_EMPTY|PREAMBLE_LONGS_NONEMPTY)\s*=\s*(?P<value>[^;]+);", "min_count": 5}],
    "prelude": PRELUDE,
    "parts": [crules.ensure_minimum_memory, crules.check_memory_size, serde_deser] + checks + [deser],
    "harness": "void h_fi(void) {" + crules.READER_INPUT + "  verif_exc = 0; g_live_blocks = 0; g_alloc_bytes = 0; g_built = 0; fi_deserialize(in_bytes, in_size); VERIF_CANARY_POINT; }\n",
    "jobs": [{"name": "deserialize_bytes", "entry": "h_fi", "enforce": "fi_deserialize", "replace": ["fi_sketch_ctor", "fi_sketch_update"], "loops": True, "expect_loop_steps": 1, "timeout": 900, "unwind": 65, "object_bits": 10}],
    "replay": {"*": {"template": "fi_reader.cpp", "vars": crules.READER_REPLAY_VARS}},
    "assumptions": ["T = W = uint64_t with the arithmetic serde; the sketch constructor and update enter by contracts (constructor: lg sizes <= 30 required - every '1 << lg_cur_size_' in reverse_purge_hash_map_impl.hpp is an int shift; "
                    "update: proved in C12 unit fi_sketch)", "std::vector weights / std::unique_ptr items = heap blocks released on the throwing path and at scope exit"],
}
