import crules
CS = "cpc/include/cpc_sketch_impl.hpp"
CH = "cpc/include/cpc_sketch.hpp"
PRELUDE = crules.MEMOPS_PRELUDE + r'''
enum { flags_IS_BIG_ENDIAN, flags_IS_COMPRESSED, flags_HAS_HIP, flags_HAS_TABLE, flags_HAS_WINDOW };
struct compressed_state { uint32_t* table_data; uint32_t table_data_words; uint32_t table_num_entries; uint32_t* window_data; uint32_t window_data_words; };
int g_live_blocks; size_t g_alloc_bytes; bool g_uncompressed; uint8_t g_lg_k;
static uint32_t* cp_alloc_words(size_t words) { g_live_blocks++; g_alloc_bytes += words * 4; return (uint32_t*)verif_alloc(words ? words * 4 : 1); }
uint16_t compute_seed_hash(uint64_t seed) __CPROVER_assigns() __CPROVER_ensures(1);
/* get_compressor().uncompress(compressed, uncompressed, lg_k, num_coupons) followed by the sketch constructor: entered only with a configuration the sketch supports
   (k = 1 << lg_k is computed in 32 bits throughout cpc_compressor / cpc_sketch); the decoding kernels it ends in are under contract in unit cpc_decoder */
void cpc_uncompress_and_build(const struct compressed_state* c, uint8_t lg_k, uint32_t num_coupons)
  __CPROVER_requires(lg_k >= 4 && lg_k <= 26 && __CPROVER_r_ok(c, sizeof(*c)))
  __CPROVER_assigns(g_uncompressed, g_lg_k, verif_exc) __CPROVER_ensures(g_uncompressed && g_lg_k == lg_k);
'''
preints = {"name": "get_preamble_ints", "file": CS, "match": r"uint8_t cpc_sketch_alloc<A>::get_preamble_ints\(uint32_t num_coupons, bool has_hip, bool has_table, bool has_window\)",
           "sig": "uint8_t get_preamble_ints(uint32_t num_coupons, bool has_hip, bool has_table, bool has_window)"}
check_lg_k = {"name": "check_lg_k", "file": CS, "match": r"void cpc_sketch_alloc<A>::check_lg_k\(uint8_t lg_k\)", "sig": "void check_lg_k(uint8_t lg_k)"}
deser = {
    "name": "cpc_deserialize", "file": CS,
    "match": r"cpc_sketch_alloc<A> cpc_sketch_alloc<A>::deserialize\(const void\* bytes, size_t size, uint64_t seed, const A& allocator\)",
    "sig": "void cpc_deserialize(const void* bytes, size_t size, uint64_t seed)", "dropped_params": ["allocator"],
    "propagate": ["ensure_minimum_memory", "check_memory_size", "check_lg_k"],
    "pre_rules": [(r"compressed_state<A> compressed\(allocator\);", "struct compressed_state compressed; compressed.table_data = NULL; compressed.window_data = NULL;", 1),
                  (r"compressed\.window_data\.resize\(compressed\.window_data_words\);", "compressed.window_data = cp_alloc_words(compressed.window_data_words); window_owned = compressed.window_data;", 1),
                  (r"compressed\.table_data\.resize\(compressed\.table_data_words\);", "compressed.table_data = cp_alloc_words(compressed.table_data_words); table_owned = compressed.table_data;", 1),
                  (r"copy_from_mem\(ptr, compressed\.window_data\.data\(\), compressed\.window_data_words \* sizeof\(uint32_t\)\)", "copy_from_mem_n(ptr, compressed.window_data, compressed.window_data_words * sizeof(uint32_t))", 1),
                  (r"copy_from_mem\(ptr, compressed\.table_data\.data\(\), compressed\.table_data_words \* sizeof\(uint32_t\)\)", "copy_from_mem_n(ptr, compressed.table_data, compressed.table_data_words * sizeof(uint32_t))", 1),
                  (r"uncompressed_state<A> uncompressed\(allocator\);", "", 1),
                  (r"get_compressor<A>\(\)\.uncompress\(compressed, uncompressed, lg_k, num_coupons\);", "cpc_uncompress_and_build(&compressed, lg_k, num_coupons); VERIF_PROPAGATE;", 1),
                  (r"return cpc_sketch_alloc\(lg_k, num_coupons, first_interesting_column, std::move\(uncompressed\.table\),\s*std::move\(uncompressed\.window\), has_hip, kxp, hip_est_accum, seed\);",
                   "{ VERIF_UNWIND; return; }  /* the compressed state is a local: destroyed at scope exit */", 1)],
    "rules": [(r"flags::", "flags_", "any")],
    "inserts": [(r"^\{", "uint32_t* window_owned = NULL; uint32_t* table_owned = NULL;  /* the two vectors of the local compressed_state: released on every exit */", "after", 1)],
    "unwind": "do { if (window_owned) { g_live_blocks--; free(window_owned); window_owned = NULL; } if (table_owned) { g_live_blocks--; free(table_owned); table_owned = NULL; } } while (0)",
    "contract": r'''
__CPROVER_requires(size <= SIZE_CAP && __CPROVER_r_ok(bytes, size) && verif_exc == 0 && g_live_blocks == 0 && g_alloc_bytes == 0 && !g_uncompressed)
__CPROVER_assigns(verif_exc, g_live_blocks, g_alloc_bytes, g_uncompressed, g_lg_k)
/* any length, any content: preamble and both data areas are read inside the buffer; the temporary word arrays are bounded by the image and released on every path; decompression only ever starts for lg_k in 4..26 */
__CPROVER_ensures(size < 8 ==> verif_exc != 0)
__CPROVER_ensures(g_live_blocks == 0)
__CPROVER_ensures(g_alloc_bytes <= size)
__CPROVER_ensures(g_uncompressed ==> (g_lg_k >= 4 && g_lg_k <= 26))
''',
}
UNIT = {
    "id": "cpc_reader", "property": "C11",
    "clause": "cpc_sketch::deserialize(bytes, size, seed) for every length and content: preamble fields, window words and table words are read inside the buffer, the temporary word arrays are "
              "bounded by the image, and decompression is only entered for lg_k in 4..26",
    "consts": [{"file": "cpc/include/cpc_common.hpp", "prefix": "cpc_constants_", "pattern": r"const (?P<type>uint8_t) (?P<name>MIN_LG_K|MAX_LG_K)\s*=\s*(?P<value>[^;]+);", "min_count": 2}, {"file": CH, "pattern": r"static const (?P<type>uint8_t) (?P<name>SERIAL_VERSION|FAMILY)\s*=\s*(?P<value>[^;]+);", "min_count": 2}],
    "prelude": PRELUDE, "parts": [crules.ensure_minimum_memory, crules.check_memory_size, preints, check_lg_k, deser],
    "harness": "void h_cpc(void) {" + crules.READER_INPUT + "  verif_exc = 0; g_live_blocks = 0; g_alloc_bytes = 0; g_uncompressed = 0; cpc_deserialize(in_bytes, in_size, nondet_u64()); VERIF_CANARY_POINT; }\n",
    "jobs": [{"name": "deserialize_bytes", "entry": "h_cpc", "enforce": "cpc_deserialize", "replace": ["compute_seed_hash", "cpc_uncompress_and_build"], "timeout": 900, "unwind": 65, "object_bits": 10}],
    "replay": {"*": {"template": "cpc_reader.cpp", "vars": crules.READER_REPLAY_VARS}},
    "assumptions": ["compressed_state's two vectors = heap word arrays released at every exit; uncompress + sketch constructor enter by a contract whose precondition is lg_k in 4..26",
                    "compute_seed_hash(seed): any 16-bit value"],
}
