import crules
QS = "quantiles/include/quantiles_sketch_impl.hpp"
SD = "common/include/serde.hpp"
PRELUDE = crules.MEMOPS_PRELUDE + r'''
typedef float T;
enum { flags_RESERVED0, flags_RESERVED1, flags_IS_EMPTY, flags_IS_COMPACT, flags_IS_SORTED };
bool g_stopped; size_t g_off;
uint8_t compute_levels_needed(uint16_t k, uint64_t n) __CPROVER_assigns() __CPROVER_ensures(1);
uint64_t compute_bit_pattern(uint16_t k, uint64_t n) __CPROVER_assigns() __CPROVER_ensures(1);
uint32_t compute_base_buffer_items(uint16_t k, uint64_t n) __CPROVER_assigns() __CPROVER_ensures(1);
/* deserialize_array(bytes, size, num_items, capacity): reads inside [bytes, bytes+size) or throws; returns the bytes consumed (ASSUMED here: same shape as req deserialize_items, proved in unit req_reader) */
size_t deserialize_array(const void* bytes, size_t size, uint32_t num_items, uint32_t capacity)
  __CPROVER_requires(__CPROVER_r_ok(bytes, size)) __CPROVER_assigns(verif_exc) __CPROVER_ensures(verif_exc != 0 || __CPROVER_return_value <= size);
'''
serde_deser = {"name": "serde_deserialize", "file": SD,
               "match": r"size_t deserialize\(const void\* ptr, size_t capacity, T\* items, unsigned num\) const(?=\s*\{\s*const size_t bytes_read = sizeof\(T\) \* num;)",
               "sig": "size_t serde_deserialize(const void* ptr, size_t capacity, T* items, unsigned num)", "throw_rv": "0", "propagate": ["check_memory_size"]}
QH = "quantiles/include/quantiles_sketch.hpp"
checks = [{"name": n, "file": QS, "match": r"void quantiles_sketch<T, C, A>::%s\(%s\)" % (n, p_), "sig": "void %s(%s)" % (n, p_), "rules": [(r"flags::", "flags_", "any")] + crules.OSTREAM}
          for n, p_ in [("check_k", "uint16_t k"), ("check_serial_version", "uint8_t serial_version"), ("check_family_id", "uint8_t family_id"),
                        ("check_header_validity", "uint8_t preamble_longs, uint8_t flags_byte, uint8_t serial_version")]]
deser = {
    "name": "quantiles_deserialize_prefix", "file": QS,
    "match": r"auto quantiles_sketch<T, C, A>::deserialize\(const void\* bytes, size_t size, const SerDe& serde,\s*const C& comparator, const A &allocator\)",
    "sig": "void quantiles_deserialize_prefix(const void* bytes, size_t size)", "dropped_params": ["serde", "comparator", "allocator"],
    "propagate": ["ensure_minimum_memory", "check_k", "check_serial_version", "check_family_id", "check_header_validity", "serde.deserialize", "deserialize_array"],
    "rules": [(r"flags::", "flags_", "any"),
              (r"return quantiles_sketch\(k, comparator, allocator\);", "return;", 1),
              (r"optional<T> tmp;", "T tmp_v;", 1), (r"optional<T> min_item;", "T min_v; bool min_has = 0;", 1), (r"optional<T> max_item;", "T max_v; bool max_has = 0;", 1),
              (r"serde\.deserialize\(ptr, end_ptr - ptr, &\*tmp, 1\)", "serde_deserialize(ptr, end_ptr - ptr, &tmp_v, 1)", 2),
              (r"min_item\.emplace\(\*tmp\);", "min_v = tmp_v; min_has = 1;", 1), (r"max_item\.emplace\(\*tmp\);", "max_v = tmp_v; max_has = 1;", 1), (r"\(\*tmp\)\.~T\(\);", "(void)0;", 2),
              (r"auto base_buffer_pair = deserialize_array\(ptr, end_ptr - ptr, bb_items, 2 \* k, serde, allocator\);", "const size_t base_buffer_pair_second = deserialize_array(ptr, end_ptr - ptr, bb_items, 2 * k);", 1),
              (r"base_buffer_pair\.second", "base_buffer_pair_second", 1),
              (r"auto extras = deserialize_array\(ptr, end_ptr - ptr, items_to_read - bb_items, items_to_read - bb_items, serde, allocator\);", "const size_t extras_second = deserialize_array(ptr, end_ptr - ptr, items_to_read - bb_items, items_to_read - bb_items);", 1),
              (r"extras\.second", "extras_second", 1),
              (r"VectorLevels levels\(allocator\);", "", 1), (r"levels\.reserve\(levels_needed\);", "", 1),
              (crules.stop_before_loop_block(1, "{ g_stopped = 1; g_off = (size_t)(ptr - (const char*)bytes); return; }"), "block containing the level loop -> stop", 1),
              (r"return quantiles_sketch\(k, items_seen, bit_pattern,\s*std::move\(base_buffer_pair\.first\), std::move\(levels\), std::move\(min_item\), std::move\(max_item\), is_sorted,\s*comparator, allocator\);", "return;", 1)],
    "contract": r'''
__CPROVER_requires(size <= SIZE_CAP && __CPROVER_r_ok(bytes, size) && verif_exc == 0 && !g_stopped)
__CPROVER_assigns(verif_exc, g_stopped, g_off)
/* preamble, item count, min, max, the unused long of serial version 1 and the base buffer are read inside the buffer for every length and content */
__CPROVER_ensures(size < 8 ==> verif_exc != 0)
__CPROVER_ensures(g_stopped ==> (verif_exc == 0 && g_off <= size))
''',
}
UNIT = {
    "id": "quantiles_reader", "property": "C11",
    "clause": "quantiles_sketch<float>::deserialize(bytes, size), cut before the level loop: for every length and content the preamble, the item count, min, max, the unused long of serial version 1 "
              "and the base buffer are read inside the buffer (array readers by contract)",
    "prelude": PRELUDE,
    "consts": [{"file": QH, "pattern": r"static const (?P<type>uint8_t) (?P<name>SERIAL_VERSION_1|SERIAL_VERSION_2|SERIAL_VERSION|FAMILY)\s*=\s*(?P<value>[^;]+);", "min_count": 4},
               {"file": QH, "prefix": "quantiles_constants_", "pattern": r"const (?P<type>uint16_t) (?P<name>MIN_K|MAX_K)\s*=\s*(?P<value>[^;]+);", "min_count": 2}],
    "parts": [crules.ensure_minimum_memory, crules.check_memory_size, serde_deser] + checks + [deser],
    "harness": "void h_q(void) {" + crules.READER_INPUT + "  verif_exc = 0; g_stopped = 0; quantiles_deserialize_prefix(in_bytes, in_size); VERIF_CANARY_POINT; }\n",
    "jobs": [{"name": "deserialize_prefix", "entry": "h_q", "enforce": "quantiles_deserialize_prefix", "timeout": 600, "unwind": 65, "object_bits": 10,
              "replace": ["compute_levels_needed", "compute_bit_pattern", "compute_base_buffer_items", "deserialize_array"]}],
    "replay": {"*": {"template": "quantiles_reader.cpp", "vars": crules.READER_REPLAY_VARS}},
    "assumptions": ["T = float with the arithmetic serde; header checks are the real functions; compute_* helpers by frame-only contracts (any value); deserialize_array by an ASSUMED contract (reads inside its buffer or throws)",
                    "the level loop and leak-freedom of rejected images are not under contract for this reader"],
}
