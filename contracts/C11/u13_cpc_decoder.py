import importlib.util, os
_spec = importlib.util.spec_from_file_location("c03coupon", os.path.join(os.path.dirname(__file__), "..", "C03", "u01_coupon.py"))
_c03 = importlib.util.module_from_spec(_spec); _spec.loader.exec_module(_c03)
CC = "cpc/include/cpc_compressor_impl.hpp"
PRELUDE = r'''
/* decoding tables of compression_data.hpp enter through an accessor: every entry's code length (high byte) is 1..12 (ASSUMED here; the repo's validate_decoding_table checks it for the shipped tables) */
uint16_t decode_entry(const uint16_t* table, size_t peek12)
  __CPROVER_requires(peek12 < 4096) __CPROVER_assigns() __CPROVER_ensures((__CPROVER_return_value >> 8) >= 1 && (__CPROVER_return_value >> 8) <= 12);
const uint16_t* length_limited_unary_decoding_table65;
#define WORDS_OK(w, n) ((n) <= ((uint32_t)1 << 28) && __CPROVER_r_ok(w, (size_t)(n) * 4))
'''
fill = {"name": "maybe_fill_bitbuf", "file": CC,
        "match": r"static inline void maybe_fill_bitbuf\(uint64_t& bitbuf, uint8_t& bufbits, const uint32_t\* wordarr, uint32_t& wordindex, uint8_t minbits(?:, uint32_t num_words)?\)",
        "sig": "static inline void maybe_fill_bitbuf(uint64_t* bitbuf, uint8_t* bufbits, const uint32_t* wordarr, uint32_t* wordindex, uint8_t minbits, uint32_t num_words)",
        "refs": ["bitbuf", "bufbits", "wordindex"], "optional_params": ["num_words"],
        "contract": r'''
__CPROVER_requires(__CPROVER_rw_ok(bitbuf, 8) && __CPROVER_rw_ok(bufbits, 1) && __CPROVER_rw_ok(wordindex, 4) && WORDS_OK(wordarr, num_words) && *wordindex <= num_words && minbits <= 32 && *bufbits <= 63 && verif_exc == 0)
__CPROVER_requires((*bitbuf >> *bufbits) == 0)
__CPROVER_assigns(verif_exc, *bitbuf, *bufbits, *wordindex)
/* afterwards at least minbits bits are buffered, or the words are exhausted and the call is refused; no word outside the array is ever read */
__CPROVER_ensures(verif_exc == 0 ==> (*bufbits >= minbits && *bufbits <= 63 && *wordindex <= num_words && *wordindex >= __CPROVER_old(*wordindex) && *wordindex <= __CPROVER_old(*wordindex) + 1))
__CPROVER_ensures(verif_exc != 0 ==> (__CPROVER_old(*wordindex) == num_words && *wordindex == num_words))
__CPROVER_ensures(verif_exc == 0 ==> *bufbits == __CPROVER_old(*bufbits) + 32 * (*wordindex - __CPROVER_old(*wordindex)))
__CPROVER_ensures(*bufbits <= 63 && (*bitbuf >> *bufbits) == 0)
'''}
read_unary = {"name": "read_unary", "file": CC,
              "match": r"(?<!inline )uint64_t read_unary\(\s*const uint32_t\* compressed_words,\s*uint32_t& next_word_index,\s*uint64_t& bitbuf,\s*uint8_t& bufbits(?:,\s*uint32_t num_compressed_words)?\s*\)",
              "sig": "uint64_t read_unary(const uint32_t* compressed_words, uint32_t* next_word_index, uint64_t* bitbuf, uint8_t* bufbits, uint32_t num_compressed_words)",
              "refs": ["next_word_index", "bitbuf", "bufbits"], "optional_params": ["num_compressed_words"], "throw_rv": "0", "nloops": 1,
              "propagate": ["maybe_fill_bitbuf"],
              "post_rules": [(r"maybe_fill_bitbuf\(\(\*bitbuf\), \(\*bufbits\), compressed_words, \(\*next_word_index\), 8(, num_compressed_words)?\)", r"maybe_fill_bitbuf(bitbuf, bufbits, compressed_words, next_word_index, 8\1)", 1)],
              "contract": r'''
__CPROVER_requires(__CPROVER_rw_ok(bitbuf, 8) && __CPROVER_rw_ok(bufbits, 1) && __CPROVER_rw_ok(next_word_index, 4) && (compressed_words == NULL || WORDS_OK(compressed_words, num_compressed_words)) && *next_word_index <= num_compressed_words && *bufbits <= 63 && verif_exc == 0)
__CPROVER_requires((*bitbuf >> *bufbits) == 0)
__CPROVER_assigns(verif_exc, *bitbuf, *bufbits, *next_word_index)
/* terminates (each round consumes 8 buffered bits and the words are finite) and never reads outside the array */
__CPROVER_ensures(*next_word_index <= num_compressed_words && *bufbits <= 63 && (*bitbuf >> *bufbits) == 0)
/* the decoded value is bounded by the number of bits available */
__CPROVER_ensures(__CPROVER_return_value <= (uint64_t)num_compressed_words * 32 + 72)
''',
              "loops": {1: r'''
__CPROVER_assigns(verif_exc, subtotal, *bitbuf, *bufbits, *next_word_index)
__CPROVER_loop_invariant(verif_exc == 0 && *next_word_index <= num_compressed_words && *bufbits <= 63 && ((*bitbuf >> *bufbits) == 0))
__CPROVER_loop_invariant(subtotal <= (uint64_t)*next_word_index * 32 + 64 && subtotal + *bufbits <= (uint64_t)*next_word_index * 32 + 64)
__CPROVER_decreases(((uint64_t)(num_compressed_words - *next_word_index)) * 32 + *bufbits)
'''}}
DEC_FRAME = "__CPROVER_assigns(verif_exc, __CPROVER_object_upto(%s, (size_t)%s * %d))\n"
unc_bytes = {"name": "low_level_uncompress_bytes", "file": CC,
             "match": r"void cpc_compressor<A>::low_level_uncompress_bytes\(\s*uint8_t\* byte_array,\s*uint32_t num_bytes_to_decode,\s*const uint16_t\* decoding_table,\s*const uint32_t\* compressed_words,\s*uint32_t num_compressed_words\s*\) const",
             "sig": "void low_level_uncompress_bytes(uint8_t* byte_array, uint32_t num_bytes_to_decode, const uint16_t* decoding_table, const uint32_t* compressed_words, uint32_t num_compressed_words)",
             "nloops": 1, "propagate": ["maybe_fill_bitbuf"],
             "rules": [(r"maybe_fill_bitbuf\(bitbuf, bufbits, compressed_words, word_index, 12(, num_compressed_words)?\)", r"maybe_fill_bitbuf(&bitbuf, &bufbits, compressed_words, &word_index, 12\1)", 1),
                       (r"decoding_table\[peek12\]", "decode_entry(decoding_table, peek12)", 1)],
             "contract": r'''
__CPROVER_requires(num_bytes_to_decode <= ((uint32_t)1 << 27) && (byte_array == NULL || __CPROVER_rw_ok(byte_array, num_bytes_to_decode)) && (compressed_words == NULL || WORDS_OK(compressed_words, num_compressed_words)) && verif_exc == 0)
''' + DEC_FRAME % ("byte_array", "num_bytes_to_decode", 1) + r'''
/* whatever the counts say, decoding never reads a word outside compressed_words[0 .. num_compressed_words) and never writes outside byte_array */
__CPROVER_ensures(1)
''',
             "loops": {1: r'''
__CPROVER_assigns(byte_index, verif_exc, bitbuf, bufbits, word_index, __CPROVER_object_upto(byte_array, (size_t)num_bytes_to_decode))
__CPROVER_loop_invariant(byte_index <= num_bytes_to_decode && verif_exc == 0 && word_index <= num_compressed_words && bufbits <= 63 && ((bitbuf >> bufbits) == 0))
__CPROVER_decreases(num_bytes_to_decode - byte_index)
'''}}
unc_pairs = {"name": "low_level_uncompress_pairs", "file": CC,
             "match": r"void cpc_compressor<A>::low_level_uncompress_pairs\(\s*uint32_t\* pair_array,\s*uint32_t num_pairs_to_decode,\s*uint8_t num_base_bits,\s*const uint32_t\* compressed_words,\s*uint32_t num_compressed_words\s*\) const",
             "sig": "void low_level_uncompress_pairs(uint32_t* pair_array, uint32_t num_pairs_to_decode, uint8_t num_base_bits, const uint32_t* compressed_words, uint32_t num_compressed_words)",
             "nloops": 1, "propagate": ["maybe_fill_bitbuf", "read_unary"],
             "rules": [(r"maybe_fill_bitbuf\(bitbuf, bufbits, compressed_words, word_index, (12|num_base_bits)(, num_compressed_words)?\)", r"maybe_fill_bitbuf(&bitbuf, &bufbits, compressed_words, &word_index, \1\2)", 2),
                       (r"read_unary\(compressed_words, word_index, bitbuf, bufbits(, num_compressed_words)?\)", r"read_unary(compressed_words, &word_index, &bitbuf, &bufbits\1)", 1),
                       (r"length_limited_unary_decoding_table65\[peek12\]", "decode_entry(length_limited_unary_decoding_table65, peek12)", 1)],
             "contract": r'''
__CPROVER_requires(num_pairs_to_decode <= ((uint32_t)1 << 27) && __CPROVER_rw_ok(pair_array, (size_t)num_pairs_to_decode * 4) && WORDS_OK(compressed_words, num_compressed_words) && num_base_bits <= 26 && verif_exc == 0)
''' + DEC_FRAME % ("pair_array", "num_pairs_to_decode", 4) + r'''
__CPROVER_ensures(1)
''',
             "loops": {1: r'''
__CPROVER_assigns(pair_index, verif_exc, bitbuf, bufbits, word_index, predicted_row_index, predicted_col_index, __CPROVER_object_upto(pair_array, (size_t)num_pairs_to_decode * 4))
__CPROVER_loop_invariant(pair_index <= num_pairs_to_decode && verif_exc == 0 && word_index <= num_compressed_words && bufbits <= 63 && ((bitbuf >> bufbits) == 0))
__CPROVER_decreases(num_pairs_to_decode - pair_index)
'''}}
HARNESS = r'''
static const uint32_t* mkwords(uint32_t* n) { *n = nondet_u32(); __CPROVER_assume(*n <= ((uint32_t)1 << 28)); const uint32_t* w = malloc(sizeof(uint32_t) * (size_t)*n); __CPROVER_assume(w != NULL); return w; }
void h_fill(void) { uint64_t bb = nondet_u64(); uint8_t nb = nondet_u8(); uint32_t wi = nondet_u32(); uint32_t n; const uint32_t* w = mkwords(&n); verif_exc = 0; maybe_fill_bitbuf(&bb, &nb, w, &wi, nondet_u8(), n); VERIF_CANARY_POINT; }
void h_unary(void) { uint64_t bb = nondet_u64(); uint8_t nb = nondet_u8(); uint32_t wi = nondet_u32(); uint32_t n; const uint32_t* w = mkwords(&n); verif_exc = 0; (void)read_unary(w, &wi, &bb, &nb, n); VERIF_CANARY_POINT; }
void h_bytes(void) { uint32_t n; const uint32_t* w = mkwords(&n); uint32_t nb = nondet_u32(); __CPROVER_assume(nb <= ((uint32_t)1 << 27)); uint8_t* out = malloc(nb); __CPROVER_assume(out != NULL);
  const uint16_t* table = malloc(sizeof(uint16_t) * 4096); verif_exc = 0; low_level_uncompress_bytes(out, nb, table, w, n); VERIF_CANARY_POINT; }
void h_pairs(void) { uint32_t n; const uint32_t* w = mkwords(&n); uint32_t np = nondet_u32(); __CPROVER_assume(np <= ((uint32_t)1 << 27)); uint32_t* out = malloc(sizeof(uint32_t) * (size_t)np); __CPROVER_assume(out != NULL);
  length_limited_unary_decoding_table65 = malloc(sizeof(uint16_t) * 4096); verif_exc = 0; low_level_uncompress_pairs(out, np, nondet_u8(), w, n); VERIF_CANARY_POINT; }
'''
UNIT = {
    "id": "cpc_decoder", "property": "C11",
    "clause": "CPC decompression kernels (maybe_fill_bitbuf, read_unary, low_level_uncompress_bytes, low_level_uncompress_pairs): whatever item counts the preamble of an image claims, decoding "
              "reads only words inside the compressed array it was given, writes only inside its output array, and the unary reader terminates",
    "prelude": PRELUDE, "parts": [_c03.tables, fill, read_unary, unc_bytes, unc_pairs], "harness": HARNESS,
    "jobs": [{"name": "maybe_fill_bitbuf", "entry": "h_fill", "enforce": "maybe_fill_bitbuf", "timeout": 300},
             {"name": "read_unary", "entry": "h_unary", "enforce": "read_unary", "replace": ["maybe_fill_bitbuf"], "loops": True, "expect_loop_steps": 1, "timeout": 600},
             {"name": "low_level_uncompress_bytes", "entry": "h_bytes", "enforce": "low_level_uncompress_bytes", "replace": ["maybe_fill_bitbuf", "decode_entry"], "loops": True, "expect_loop_steps": 1, "timeout": 600},
             {"name": "low_level_uncompress_pairs", "entry": "h_pairs", "enforce": "low_level_uncompress_pairs", "replace": ["maybe_fill_bitbuf", "read_unary", "decode_entry"], "loops": True, "expect_loop_steps": 1, "timeout": 600}],
    "replay": {"*": {"template": "cpc_decoder.cpp", "vars": {}}},
    "assumptions": ["decoding table entries have code lengths 1..12 (accessor contract, ASSUMED; validate_decoding_table in the repo asserts it for the shipped tables)",
                    "cpc_sketch::deserialize itself (preamble and word counts) and the uncompress_* flavor functions are not under contract"],
}
