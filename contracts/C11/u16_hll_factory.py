import crules
HF = "hll/include/HllSketchImplFactory.hpp"
PRELUDE = r'''
struct hllimpl;
bool g_dispatched;
/* the three readers the factory dispatches to: under contract in units hll_array_reader / hll_coupon_readers; here only their frame */
struct hllimpl* HllArray_newHll(const void* bytes, size_t len) __CPROVER_requires(__CPROVER_r_ok(bytes, len)) __CPROVER_assigns(verif_exc, g_dispatched) __CPROVER_ensures(g_dispatched);
struct hllimpl* CouponHashSet_newSet(const void* bytes, size_t len) __CPROVER_requires(__CPROVER_r_ok(bytes, len)) __CPROVER_assigns(verif_exc, g_dispatched) __CPROVER_ensures(g_dispatched);
struct hllimpl* CouponList_newList(const void* bytes, size_t len) __CPROVER_requires(__CPROVER_r_ok(bytes, len)) __CPROVER_assigns(verif_exc, g_dispatched) __CPROVER_ensures(g_dispatched);
#define SIZE_CAP ((size_t)1 << 16)
'''
factory = {
    "name": "factory_deserialize", "file": HF, "match": r"HllSketchImpl<A>\* HllSketchImplFactory<A>::deserialize\(const void\* bytes, size_t len, const A& allocator\)",
    "sig": "struct hllimpl* factory_deserialize(const void* bytes, size_t len)", "dropped_params": ["allocator"], "throw_rv": "NULL",
    "pre_rules": [(r"HllArray<A>::newHll\(bytes, len, allocator\)", "HllArray_newHll(bytes, len)", 1), (r"CouponHashSet<A>::newSet\(bytes, len, allocator\)", "CouponHashSet_newSet(bytes, len)", 1),
                  (r"CouponList<A>::newList\(bytes, len, allocator\)", "CouponList_newList(bytes, len)", 1)],
    "contract": r'''
__CPROVER_requires(len <= SIZE_CAP && __CPROVER_r_ok(bytes, len) && verif_exc == 0 && !g_dispatched)
__CPROVER_assigns(verif_exc, g_dispatched)
/* the first byte selects the reader: it is read only if the buffer has one; an empty buffer is refused */
__CPROVER_ensures(len < 1 ==> (verif_exc != 0 && !g_dispatched))
''',
}
UNIT = {
    "id": "hll_factory", "property": "C11",
    "clause": "HllSketchImplFactory::deserialize(bytes, len) (entry point of hll_sketch::deserialize): the mode byte is read only from a non-empty buffer, an empty buffer is refused, and the image is "
              "handed to the list / set / array reader with the same length",
    "consts": crules.HLL_CONSTS, "prelude": PRELUDE, "parts": [factory],
    "harness": "void h_f(void) { size_t n = nondet_size(); __CPROVER_assume(n <= SIZE_CAP); uint8_t* b = malloc(n); __CPROVER_assume(b != NULL); uint8_t in_img[64]; for (int wi_ = 0; wi_ < 64; wi_++) in_img[wi_] = ((size_t)wi_ < n) ? b[wi_] : 0;\n"
               "  size_t in_size = n; verif_exc = 0; g_dispatched = 0; (void)factory_deserialize(b, n); VERIF_CANARY_POINT; }\n",
    "jobs": [{"name": "deserialize_dispatch", "entry": "h_f", "enforce": "factory_deserialize", "replace": ["HllArray_newHll", "CouponHashSet_newSet", "CouponList_newList"], "timeout": 300, "unwind": 65, "object_bits": 10}],
    "replay": {"*": {"template": "hll_factory.cpp", "vars": {}}},
    "assumptions": ["the three mode-specific readers enter by frame-only contracts (their own contracts: units hll_array_reader, hll_coupon_readers)"],
}
