import crules
RS = "req/include/req_sketch_impl.hpp"
RC = "req/include/req_compactor_impl.hpp"
SD = "common/include/serde.hpp"

PRELUDE = crules.MEMOPS_PRELUDE + r'''
typedef float T;
int g_live_blocks;          /* ghost: item arrays allocated and not yet released */
size_t g_alloc_bytes;       /* ghost: bytes requested from the allocator by the last reader call */
static void* rq_alloc(size_t bytes) { g_live_blocks++; g_alloc_bytes += bytes; return verif_alloc(bytes ? bytes : 1); }
static void rq_free(void* p) { g_live_blocks--; free(p); }
struct comp { T* items; uint32_t num_items; uint8_t lg_weight; uint8_t num_sections; };
'''
serde_deser = {"name": "serde_deserialize", "file": SD,
               "match": r"size_t deserialize\(const void\* ptr, size_t capacity, T\* items, unsigned num\) const(?=\s*\{\s*const size_t bytes_read = sizeof\(T\) \* num;)",
               "sig": "size_t serde_deserialize(const void* ptr, size_t capacity, T* items, unsigned num)", "throw_rv": "0", "propagate": ["check_memory_size"]}

deser_items = {
    "name": "deserialize_items", "file": RC,
    "match": r"auto req_compactor<T, C, A>::deserialize_items\(const void\* bytes, size_t size, const S& serde, const A& allocator, uint32_t num\)",
    "sig": "size_t deserialize_items(const void* bytes, size_t size, uint32_t num, T** out_items)", "dropped_params": ["serde", "allocator"], "extra_params": ["out_items"], "throw_rv": "0",
    "propagate": ["serde.deserialize"],
    "rules": [(r"A alloc\(allocator\);", "", 1),
              (r"std::unique_ptr<T, items_deleter> items\(alloc\.allocate\(num\), items_deleter\(allocator, false, num\)\);", "T* items = (T*)rq_alloc((size_t)num * sizeof(T)); items_owned = items;", 1),
              (r"serde\.deserialize\(ptr, end_ptr - ptr, items\.get\(\), num\)", "serde_deserialize(ptr, end_ptr - ptr, items, num)", 1),
              (r"items\.get_deleter\(\)\.set_destroy\(true\);", "", 1),
              (r"return std::pair<std::unique_ptr<T, items_deleter>, size_t>\(\s*std::move\(items\),\s*ptr - \(\(const char\*\)\(bytes\)\)\s*\);", "{ *out_items = items; items_owned = NULL; return ptr - ((const char*)(bytes)); }", 1)],
    "inserts": [(r"^\{", "T* items_owned = NULL;  /* std::unique_ptr: released by VERIF_UNWIND on the throwing path */", "after", 1)],
    "unwind": "do { if (items_owned) { rq_free(items_owned); items_owned = NULL; } } while (0)",
    "contract": r'''
__CPROVER_requires(size <= SIZE_CAP && __CPROVER_r_ok(bytes, size) && __CPROVER_rw_ok(out_items, sizeof(*out_items)) && verif_exc == 0 && g_live_blocks >= 0 && g_live_blocks < 1000 && g_alloc_bytes == 0)
__CPROVER_assigns(verif_exc, g_live_blocks, g_alloc_bytes, *out_items)
/* num items are read from inside the buffer into an array of exactly num items; a short buffer is rejected with nothing left allocated */
__CPROVER_ensures((verif_exc != 0) == ((size_t)num * sizeof(T) > size))
__CPROVER_ensures(verif_exc == 0 ==> (__CPROVER_return_value == (size_t)num * sizeof(T) && g_live_blocks == __CPROVER_old(g_live_blocks) + 1))
__CPROVER_ensures(verif_exc != 0 ==> g_live_blocks == __CPROVER_old(g_live_blocks))
/* the image cannot drive the allocation: at most one item per byte of the image is ever requested */
__CPROVER_ensures(g_alloc_bytes <= size * sizeof(T))
''',
}
comp_deser = {
    "name": "compactor_deserialize", "file": RC,
    "match": r"std::pair<req_compactor<T, C, A>, size_t> req_compactor<T, C, A>::deserialize\(const void\* bytes, size_t size,\s*const S& serde, const C& comparator, const A& allocator, bool sorted, bool hra\)",
    "sig": "size_t compactor_deserialize(const void* bytes, size_t size, bool sorted, bool hra, struct comp* out)", "dropped_params": ["serde", "comparator", "allocator"], "extra_params": ["out"], "throw_rv": "0",
    "propagate": ["ensure_minimum_memory", "deserialize_items"],
    "rules": [(r"auto pair = deserialize_items\(ptr, end_ptr - ptr, serde, allocator, num_items\);", "T* pair_first; const size_t pair_second = deserialize_items(ptr, end_ptr - ptr, num_items, &pair_first);", 1),
              (r"pair\.second", "pair_second", 1),
              (r"return std::pair<req_compactor, size_t>\(\s*req_compactor\(hra, lg_weight, sorted, section_size_raw, num_sections, state, std::move\(pair\.first\), num_items,\s*comparator, allocator\),\s*ptr - \(\(const char\*\)\(bytes\)\)\s*\);",
               "{ out->items = pair_first; out->num_items = num_items; out->lg_weight = lg_weight; out->num_sections = num_sections; return ptr - ((const char*)(bytes)); }", 1)],
    "contract": r'''
__CPROVER_requires(size <= SIZE_CAP && __CPROVER_r_ok(bytes, size) && __CPROVER_rw_ok(out, sizeof(*out)) && verif_exc == 0 && g_live_blocks >= 0 && g_live_blocks < 1000 && g_alloc_bytes == 0)
__CPROVER_assigns(verif_exc, g_live_blocks, g_alloc_bytes, __CPROVER_object_whole(out))
/* 20 header bytes (state, section size, lg weight, sections, padding, item count) and the items are all read inside the buffer */
__CPROVER_ensures(size < 20 ==> verif_exc != 0)
__CPROVER_ensures(verif_exc == 0 ==> (__CPROVER_return_value == 20 + (size_t)out->num_items * sizeof(T) && __CPROVER_return_value <= size && g_live_blocks == __CPROVER_old(g_live_blocks) + 1))
__CPROVER_ensures(verif_exc != 0 ==> g_live_blocks == __CPROVER_old(g_live_blocks))
__CPROVER_ensures(g_alloc_bytes <= size * sizeof(T))
''',
}
HARNESS = ("void h_items(void) {" + crules.READER_INPUT + "  T* out; verif_exc = 0; g_alloc_bytes = 0; (void)deserialize_items(in_bytes, in_size, nondet_u32(), &out); VERIF_CANARY_POINT; }\n"
           "void h_comp(void) {" + crules.READER_INPUT + "  struct comp out; verif_exc = 0; g_alloc_bytes = 0; (void)compactor_deserialize(in_bytes, in_size, nondet_bool(), nondet_bool(), &out); VERIF_CANARY_POINT; }\n")
UNIT = {
    "id": "req_reader", "property": "C11",
    "clause": "req_compactor::deserialize(bytes, size) and deserialize_items for every length and content: the 20 header bytes and the items are read inside the buffer, the item array "
              "allocated is bounded by the image size (one item per byte), and a rejected image leaves nothing allocated",
    "prelude": PRELUDE,
    "parts": [crules.ensure_minimum_memory, crules.check_memory_size, serde_deser, deser_items, comp_deser],
    "harness": HARNESS,
    "jobs": [{"name": "deserialize_items", "entry": "h_items", "enforce": "deserialize_items", "timeout": 600, "unwind": 65, "object_bits": 10},
             {"name": "compactor_deserialize", "entry": "h_comp", "enforce": "compactor_deserialize", "replace": ["deserialize_items"], "timeout": 600, "unwind": 65, "object_bits": 10}],
    "replay": {"compactor_deserialize": {"template": "req_reader.cpp", "vars": crules.READER_REPLAY_VARS}},
    "assumptions": ["T = float with the arithmetic serde (real code of common/include/serde.hpp); std::unique_ptr items = heap block released by VERIF_UNWIND on the throwing path",
                    "SIZE_CAP: symbolic buffer length 0..65536; req_sketch::deserialize (the caller that loops over compactors) is not under contract: a bounded stand-in with the real compactor readers inlined did not finish (memcpy of symbolic length), see DESIGN.md 11.3"],
}

