import crules
DS = "density/include/density_sketch_impl.hpp"
DH = "density/include/density_sketch.hpp"
PRELUDE = r'''
typedef float T;
#ifndef MAXSTREAM
#define MAXSTREAM 44
#endif
enum { flags_RESERVED0, flags_RESERVED1, flags_IS_EMPTY };
/* std::istream as a byte source: a read past the end clears good() and leaves the destination INDETERMINATE (what read<T>() returns then is an uninitialised local) */
struct vis { const uint8_t* buf; size_t size; size_t pos; bool good; };
static void vis_read(struct vis* is, void* dst, size_t n) { size_t avail_ = is->good ? is->size - is->pos : 0; if (n <= avail_) { if (n > 0) memcpy(dst, is->buf + is->pos, n); is->pos += n; } else { is->pos = is->size; is->good = 0; } }
static uint8_t vis_u8(struct vis* is) { uint8_t v = nondet_u8(); vis_read(is, &v, 1); return v; }
static uint16_t vis_u16(struct vis* is) { uint16_t v = (uint16_t)nondet_u32(); vis_read(is, &v, 2); return v; }
static uint32_t vis_u32(struct vis* is) { uint32_t v = nondet_u32(); vis_read(is, &v, 4); return v; }
static uint64_t vis_u64(struct vis* is) { uint64_t v = nondet_u64(); vis_read(is, &v, 8); return v; }
int g_live_blocks; bool g_accepted; size_t g_points;
static void* dr_alloc(size_t bytes) { g_live_blocks++; return verif_alloc(bytes ? bytes : 1); }
static void dr_free(void* p) { g_live_blocks--; free(p); }
'''
checks = [{"name": n, "file": DS, "match": r"void density_sketch<T, K, A>::%s\(%s\)" % (n, p_), "sig": "void %s(%s)" % (n, p_), "rules": [(r"flags::", "flags_", "any")] + crules.OSTREAM}
          for n, p_ in [("check_k", "uint16_t k"), ("check_serial_version", "uint8_t serial_version"), ("check_family_id", "uint8_t family_id"),
                        ("check_header_validity", "uint8_t preamble_ints, uint8_t flags_byte, uint8_t serial_version")]]
deser = {
    "name": "density_deserialize_stream", "file": DS,
    "match": r"density_sketch<T, K, A> density_sketch<T, K, A>::deserialize\(std::istream& is, const K& kernel, const A& allocator\)",
    "sig": "void density_deserialize_stream(struct vis* is)", "dropped_params": ["kernel", "allocator"],
    "propagate": ["check_k", "check_serial_version", "check_family_id", "check_header_validity"],
    "pre_rules": [(r"const auto (\w+) = read<uint8_t>\(is\);", r"const uint8_t \1 = vis_u8(is);", 4), (r"const auto k = read<uint16_t>\(is\);", "const uint16_t k = vis_u16(is);", 1),
                  (r"read<uint16_t>\(is\);", "(void)vis_u16(is);", 1), (r"const auto (\w+) = read<uint32_t>\(is\);", r"const uint32_t \1 = vis_u32(is);", 3),
                  (r"const auto n = read<uint64_t>\(is\);", "const uint64_t n = vis_u64(is);", 1), (r"is\.good\(\)", "is->good", "any"),
                  (r"return density_sketch\(k, dim, kernel, allocator\);", "{ g_accepted = 1; return; }", 1),
                  (r"Levels levels\(allocator\);", "", 1), (r"Level lvl\(allocator\);", "size_t lvl_size = 0;", 1),
                  (r"lvl\.reserve\(level_size\);", "__CPROVER_assert((int64_t)level_size <= num_to_read, \"VERIF a level is reserved only for points that remain to be read (a failed read must not size it)\");", 1),
                  (r"Vector pt\(dim, 0, allocator\);", "T* pt = (T*)dr_alloc((size_t)dim * sizeof(T));", 1),
                  (r"read\(is, pt\.data\(\), pt_size\);", "vis_read(is, pt, pt_size);", 1),
                  (r"lvl\.push_back\(pt\);", "lvl_size++; g_points++; dr_free(pt);", 1), (r"levels\.push_back\(lvl\);", "(void)0;", 1), (r"lvl\.size\(\)", "lvl_size", 1),
                  (r"return density_sketch\(k, dim, num_retained, n, std::move\(levels\), kernel\);", "{ g_accepted = 1; return; }", 1)],
    "rules": [(r"flags::", "flags_", "any")],
    # the temporary point vector is destroyed when an exception leaves the loop body
    "unwind": "",
}
HARNESS = r'''
void h_ds(void) {
  struct vis is; is.size = nondet_size(); __CPROVER_assume(is.size <= MAXSTREAM); uint8_t* b = malloc(is.size); __CPROVER_assume(b != NULL); is.buf = b; is.pos = 0; is.good = 1;
  uint8_t in_img[64]; for (int wi_ = 0; wi_ < 64; wi_++) in_img[wi_] = ((size_t)wi_ < is.size) ? b[wi_] : 0;
  size_t in_size = is.size;
  /* bounds of the stand-in: dimension 1..2, at most 6 retained points claimed */
  __CPROVER_assume(is.size < 12 || (b[8] >= 1 && b[8] <= 2 && b[9] == 0 && b[10] == 0 && b[11] == 0));
  __CPROVER_assume(is.size < 16 || (b[12] <= 6 && b[13] == 0 && b[14] == 0 && b[15] == 0));
  verif_exc = 0; g_accepted = 0; g_points = 0; g_live_blocks = 0;
  density_deserialize_stream(&is);
  __CPROVER_assert(g_accepted ==> is.good, "a stream that ends inside the image is refused");
  __CPROVER_assert(g_points <= 6, "no more points are read than the image claims to retain");
  VERIF_CANARY_POINT; }
'''
UNIT = {
    "id": "density_stream_reader", "property": "C11",
    "clause": "density_sketch<float>::deserialize(std::istream&), bounded stand-in (streams of 0..44 bytes, dimension 1..2, at most 6 retained points claimed): a value left indeterminate by a failed "
              "read never sizes a level or bounds a loop, no more points are read than the image claims, and a stream that ends inside the image is refused",
    "consts": [{"file": DH, "pattern": r"static const (?P<type>uint8_t) (?P<name>PREAMBLE_INTS_SHORT|PREAMBLE_INTS_LONG|FAMILY_ID|SERIAL_VERSION)\s*=\s*(?P<value>[^;]+);", "min_count": 4}],
    "prelude": PRELUDE, "parts": checks + [deser], "harness": HARNESS,
    "jobs": [{"name": "deserialize_stream_44bytes", "entry": "h_ds", "unwind": 9, "cbmc_args": ["--unwindset", "h_ds.0:66"], "timeout": 900, "object_bits": 10, "kind": "bounded",
              "bound": "streams of 0..44 bytes, dimension 1..2, at most 6 retained points claimed; content fully symbolic; indeterminate values after a failed read are nondeterministic"}],
    "replay": {"*": {"template": "demo_density_stream.cpp", "vars": {}}},
    "assumptions": ["std::istream is a byte source; read<T>() after a failed read returns an arbitrary value (the real function returns an uninitialised local)", "levels_ represented by counts; each point is read into a temporary"],
}
