import crules
TS = "tdigest/include/tdigest_impl.hpp"
TH = "tdigest/include/tdigest.hpp"
PRELUDE = crules.MEMOPS_PRELUDE + r'''
typedef double T;
typedef uint64_t W;
struct centroid { T mean_; W weight_; };
enum { flags_IS_EMPTY, flags_IS_SINGLE_VALUE, flags_REVERSE_MERGE };
int g_live_blocks; size_t g_alloc_bytes; bool g_built; uint16_t g_k;
static void* td_alloc(size_t bytes) { g_live_blocks++; g_alloc_bytes += bytes; return verif_alloc(bytes ? bytes : 1); }
static void td_free(void* p) { g_live_blocks--; free(p); }
/* reference-implementation formats: separate reader, not under contract here */
void deserialize_compat(const void* bytes, size_t size) __CPROVER_requires(__CPROVER_r_ok(bytes, size)) __CPROVER_assigns(verif_exc, g_built) __CPROVER_ensures(1);
/* tdigest constructors the reader ends in: recorded (k < 10 is refused there) */
#define TDIGEST_BUILD(k) do { if ((k) < 10) VERIF_THROW; g_built = 1; g_k = (k); } while (0)
'''
deser = {
    "name": "tdigest_deserialize", "file": TS, "match": r"tdigest<T, A> tdigest<T, A>::deserialize\(const void\* bytes, size_t size, const A& allocator\)",
    "sig": "void tdigest_deserialize(const void* bytes, size_t size)", "dropped_params": ["allocator"], "nloops": 1,
    "propagate": ["ensure_minimum_memory", "deserialize_compat"],
    "rules": [(r"flags::", "flags_", "any"),
              (r"return deserialize_compat\(ptr, end_ptr - ptr, allocator\);", "{ deserialize_compat(ptr, end_ptr - ptr); return; }", 1),
              (r"return tdigest\(k, allocator\);", "{ TDIGEST_BUILD(k); return; }", 1),
              (r"return tdigest\(reverse_merge, k, value, value, vector_centroid\(1, centroid\(value, 1\), allocator\), 1, vector_t\(allocator\)\);", "{ TDIGEST_BUILD(k); return; }", 1),
              (r"vector_centroid centroids\(num_centroids, centroid\(0, 0\), allocator\);", "struct centroid* centroids = (struct centroid*)td_alloc((size_t)num_centroids * sizeof(struct centroid)); centroids_owned = centroids;", 1),
              (r"copy_from_mem\(ptr, centroids\.data\(\), num_centroids \* sizeof\(centroid\)\)", "copy_from_mem_n(ptr, centroids, num_centroids * sizeof(struct centroid))", 1),
              (r"vector_t buffer\(num_buffered, 0, allocator\);", "T* buffer = (T*)td_alloc((size_t)num_buffered * sizeof(T)); buffer_owned = buffer;", 1),
              (r"copy_from_mem\(ptr, buffer\.data\(\), num_buffered \* sizeof\(T\)\)", "copy_from_mem_n(ptr, buffer, num_buffered * sizeof(T))", 1),
              (r"sizeof\(centroid\)", "sizeof(struct centroid)", "any"),
              (r"for \(const auto& c: centroids\) weight \+= c\.get_weight\(\);", "for (size_t ci_ = 0; ci_ < num_centroids; ci_++) weight += centroids[ci_].weight_;", 1),
              (r"return tdigest\(reverse_merge, k, min, max, std::move\(centroids\), weight, std::move\(buffer\)\);", "{ TDIGEST_BUILD(k); centroids_owned = NULL; buffer_owned = NULL; g_live_blocks -= 2;  /* ownership moves into the sketch */ return; }", 1)],
    "inserts": [(r"^\{", "struct centroid* centroids_owned = NULL; T* buffer_owned = NULL;  /* the two vectors: released by VERIF_UNWIND on the throwing path */", "after", 1)],
    "unwind": "do { if (centroids_owned) { td_free(centroids_owned); centroids_owned = NULL; } if (buffer_owned) { td_free(buffer_owned); buffer_owned = NULL; } } while (0)",
    "contract": r'''
__CPROVER_requires(size <= SIZE_CAP && __CPROVER_r_ok(bytes, size) && verif_exc == 0 && g_live_blocks == 0 && g_alloc_bytes == 0 && !g_built)
__CPROVER_assigns(verif_exc, g_live_blocks, g_alloc_bytes, g_built, g_k)
/* any length, any content: preamble, counts, min, max, centroids and buffered values are read inside the buffer; the two arrays are bounded by the image; nothing is left allocated by a rejection */
__CPROVER_ensures(size < 8 ==> verif_exc != 0)
__CPROVER_ensures(g_live_blocks == 0)
__CPROVER_ensures(g_alloc_bytes <= size)
''',
    "loops": {1: r'''
__CPROVER_assigns(ci_, weight)
__CPROVER_loop_invariant(ci_ <= num_centroids)
__CPROVER_decreases(num_centroids - ci_)
'''},
}
UNIT = {
    "id": "tdigest_reader", "property": "C11",
    "clause": "tdigest<double>::deserialize(bytes, size) (native format) for every length and content: preamble, counts, min, max, centroids and buffered values are read inside the buffer, the "
              "centroid and buffer arrays are bounded by the image, a rejected image leaves nothing allocated",
    "consts": [{"file": TH, "pattern": r"static const (?P<type>uint8_t) (?P<name>SERIAL_VERSION|SKETCH_TYPE|PREAMBLE_LONGS_EMPTY_OR_SINGLE|PREAMBLE_LONGS_MULTIPLE)\s*=\s*(?P<value>[^;]+);", "min_count": 4}],
    "prelude": PRELUDE, "parts": [crules.ensure_minimum_memory, deser],
    "harness": "void h_td(void) {" + crules.READER_INPUT + "  verif_exc = 0; g_live_blocks = 0; g_alloc_bytes = 0; g_built = 0; tdigest_deserialize(in_bytes, in_size); VERIF_CANARY_POINT; }\n",
    "jobs": [{"name": "deserialize_bytes", "entry": "h_td", "enforce": "tdigest_deserialize", "replace": ["deserialize_compat"], "loops": True, "expect_loop_steps": 1, "timeout": 900, "unwind": 65, "object_bits": 10}],
    "assumptions": ["T = double; the two std::vectors = heap arrays released on the throwing path; the constructors are recorded (k < 10 refused); deserialize_compat (reference-implementation formats) by a frame-only contract"],
}
