import crules
DS = "density/include/density_sketch_impl.hpp"
DH = "density/include/density_sketch.hpp"
PRELUDE = crules.MEMOPS_PRELUDE + r'''
typedef float T;
#ifndef MAXIMG
#define MAXIMG 44
#endif
enum { flags_RESERVED0, flags_RESERVED1, flags_IS_EMPTY };
int g_live_blocks; bool g_accepted; size_t g_levels;
static void* dr_alloc(size_t bytes) { g_live_blocks++; return verif_alloc(bytes ? bytes : 1); }
static void dr_free(void* p) { g_live_blocks--; free(p); }
'''
checks = [{"name": n, "file": DS, "match": r"void density_sketch<T, K, A>::%s\(%s\)" % (n, p_), "sig": "void %s(%s)" % (n, p_), "rules": [(r"flags::", "flags_", "any")] + crules.OSTREAM}
          for n, p_ in [("check_k", "uint16_t k"), ("check_serial_version", "uint8_t serial_version"), ("check_family_id", "uint8_t family_id"),
                        ("check_header_validity", "uint8_t preamble_ints, uint8_t flags_byte, uint8_t serial_version")]]
deser = {
    "name": "density_deserialize", "file": DS,
    "match": r"density_sketch<T, K, A> density_sketch<T, K, A>::deserialize\(const void\* bytes, size_t size, const K& kernel, const A& allocator\)",
    "sig": "void density_deserialize(const void* bytes, size_t size)", "dropped_params": ["kernel", "allocator"],
    "propagate": ["ensure_minimum_memory", "check_k", "check_serial_version", "check_family_id", "check_header_validity"],
    "rules": [(r"flags::", "flags_", "any"),
              (r"return density_sketch\(k, dim, kernel, allocator\);", "{ g_accepted = 1; return; }", 1),
              (r"Levels levels\(allocator\);", "g_levels = 0;", 1),
              (r"Level lvl\(allocator\);", "size_t lvl_size = 0;", 1), (r"lvl\.reserve\(level_size\);", "(void)0;", 1),
              (r"Vector pt\(dim, 0, allocator\);", "T* pt = (T*)dr_alloc((size_t)dim * sizeof(T));", 1),
              (r"copy_from_mem\(ptr, pt\.data\(\), pt_size\);", "copy_from_mem_n(ptr, pt, pt_size);", 1),
              (r"lvl\.push_back\(pt\);", "lvl_size++; dr_free(pt);  /* the point is copied into the level (data dropped) and the temporary destroyed */", 1),
              (r"levels\.push_back\(lvl\);", "g_levels++;", 1), (r"lvl\.size\(\)", "lvl_size", 1),
              (r"return density_sketch\(k, dim, num_retained, n, std::move\(levels\), kernel\);", "{ g_accepted = 1; return; }", 1)],
}
HARNESS = ("void h_density(void) {\n  size_t in_size = nondet_size(); __CPROVER_assume(in_size <= MAXIMG);\n  uint8_t* in_bytes = malloc(in_size); __CPROVER_assume(in_bytes != NULL);\n"
           "  uint8_t in_img[64]; for (int wi_ = 0; wi_ < 64; wi_++) in_img[wi_] = ((size_t)wi_ < in_size) ? in_bytes[wi_] : 0;\n"
           "  __CPROVER_assume(in_size < 12 || (in_bytes[8] >= 1 && in_bytes[8] <= 2 && in_bytes[9] == 0 && in_bytes[10] == 0 && in_bytes[11] == 0));   /* bound: dimension 1..2 */\n"
           "  verif_exc = 0; g_live_blocks = 0; g_accepted = 0; density_deserialize(in_bytes, in_size);\n"
           "  __CPROVER_assert(g_live_blocks == 0, \"no temporary point is left allocated\");\n"
           "  VERIF_CANARY_POINT; }\n")
UNIT = {
    "id": "density_reader", "property": "C11",
    "clause": "density_sketch<float>::deserialize(bytes, size), bounded stand-in (every image of 0..44 bytes quick / 0..60 thorough with dimension 1..2): preamble, counts, every level size and every "
              "point are read inside the buffer, and the level loop ends (by the end of the buffer at the latest)",
    "consts": [{"file": DH, "pattern": r"static const (?P<type>uint8_t) (?P<name>PREAMBLE_INTS_SHORT|PREAMBLE_INTS_LONG|FAMILY_ID|SERIAL_VERSION)\s*=\s*(?P<value>[^;]+);", "min_count": 4}],
    "prelude": PRELUDE,
    "parts": [crules.ensure_minimum_memory] + checks + [deser],
    "harness": HARNESS,
    "jobs": [{"name": "deserialize_%dbytes" % nb, "entry": "h_density", "defines": {"MAXIMG": nb}, "unwind": nb // 4, "cbmc_args": ["--unwindset", "h_density.0:66"], "timeout": to, "object_bits": 10,
              "kind": "bounded", "tier": tier, "bound": "images of 0..%d bytes, dimension 1..2, content fully symbolic" % nb} for (nb, to, tier) in [(44, 900, "quick"), (60, 7200, "thorough")]],
    "replay": {"*": {"template": "density_reader.cpp", "vars": crules.READER_REPLAY_VARS}},
    "assumptions": ["levels_ represented by counts (point data dropped after the read); each point is read into a temporary of dim floats", "dimension 0 images are outside the bound (see DESIGN.md 11.3)"],
}
