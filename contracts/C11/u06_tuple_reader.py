import crules, importlib.util, os
_spec = importlib.util.spec_from_file_location("c11parser", os.path.join(os.path.dirname(__file__), "u01_theta_parser.py"))
_tp = importlib.util.module_from_spec(_spec); _spec.loader.exec_module(_tp)
TS = "tuple/include/tuple_sketch_impl.hpp"
TH = "tuple/include/tuple_sketch.hpp"
SD = "common/include/serde.hpp"
HP = "theta/include/theta_helpers.hpp"

PRELUDE = crules.MEMOPS_PRELUDE + r'''
#ifndef MAXIMG
#define MAXIMG 56
#endif
typedef float S;      /* summary type: float with the arithmetic serde */
typedef float T;
struct entry { uint64_t key; S summary; };
enum { flags_IS_BIG_ENDIAN, flags_IS_READ_ONLY, flags_IS_EMPTY, flags_IS_COMPACT, flags_IS_ORDERED };
uint16_t compute_seed_hash(uint64_t seed) __CPROVER_assigns() __CPROVER_ensures(1)   /* any 16-bit value (Murmur is decided in C10) */
{ return (uint16_t)nondet_u32(); }
int g_live_blocks; size_t g_alloc_bytes; bool g_accepted; uint32_t g_num_entries; bool g_stopped; uint32_t g_hdr_entries; size_t g_hdr_off;
static void* tp_alloc(size_t bytes) { g_live_blocks++; g_alloc_bytes += bytes; return verif_alloc(bytes ? bytes : 1); }
static void tp_free(void* p) { g_live_blocks--; free(p); }
'''
serde_deser = {"name": "serde_deserialize", "file": SD,
               "match": r"size_t deserialize\(const void\* ptr, size_t capacity, T\* items, unsigned num\) const(?=\s*\{\s*const size_t bytes_read = sizeof\(T\) \* num;)",
               "sig": "size_t serde_deserialize(const void* ptr, size_t capacity, T* items, unsigned num)", "throw_rv": "0", "propagate": ["check_memory_size"]}
check_family = {"name": "check_sketch_family", "file": HP, "match": r"static void check_sketch_family\(uint8_t actual, uint8_t expected\)", "sig": "void check_sketch_family(uint8_t actual, uint8_t expected)",
                "rules": [(r"\bcheck_value\(", "check_value_u8(", 1)], "propagate": ["check_value"]}

deser = {
    "name": "tuple_deserialize", "file": TS,
    "match": r"compact_tuple_sketch<S, A> compact_tuple_sketch<S, A>::deserialize\(const void\* bytes, size_t size, uint64_t seed, const SerDe& sd, const A& allocator\)",
    "sig": "void tuple_deserialize(const void* bytes, size_t size, uint64_t seed)", "dropped_params": ["sd", "allocator"], "nloops": 1,
    "propagate": ["ensure_minimum_memory", "check_sketch_family", "check_seed_hash", "sd.deserialize"],
    "rules": [(r"flags::", "flags_", "any"), (r"checker<true>::", "", "any"), (r"theta_constants::MAX_THETA", "theta_constants_MAX_THETA", 1),
              (r"A alloc\(allocator\);", "", 1),
              (r"std::vector<Entry, AllocEntry> entries\(alloc\);", "struct entry* entries = NULL; size_t entries_n = 0;", 1),
              (r"entries\.reserve\(num_entries\);", "entries = (struct entry*)tp_alloc((size_t)num_entries * sizeof(struct entry)); entries_owned = entries;", 1),
              (r"std::unique_ptr<S, deleter_of_summaries> summary\(alloc\.allocate\(1\), deleter_of_summaries\(1, false, allocator\)\);", "S* summary = (S*)tp_alloc(sizeof(S)); summary_owned = summary;", 1),
              (r"sd\.deserialize\(ptr, base \+ size - ptr, summary\.get\(\), 1\)", "serde_deserialize(ptr, base + size - ptr, summary, 1)", 1),
              (r"entries\.push_back\(Entry\(key, std::move\(\*summary\)\)\);", "{ entries[entries_n].key = key; entries[entries_n].summary = *summary; entries_n++; }", 1),
              (r"\(\*summary\)\.~S\(\);", "(void)0;", 1),
              (r"return compact_tuple_sketch\(is_empty, is_ordered, seed_hash, theta, std::move\(entries\)\);",
               "{ g_accepted = 1; g_num_entries = (uint32_t)entries_n; if (summary_owned) { tp_free(summary_owned); summary_owned = NULL; } entries_owned = NULL; return; }", 1)],
    "inserts": [(r"^\{", "struct entry* entries_owned = NULL; S* summary_owned = NULL;  /* std::vector / std::unique_ptr: released by VERIF_UNWIND on the throwing path (the summary holder also at scope exit) */", "after", 1)],
    "unwind": "do { if (entries_owned) { tp_free(entries_owned); entries_owned = NULL; } if (summary_owned) { tp_free(summary_owned); summary_owned = NULL; } } while (0)",
    "contract": r'''
__CPROVER_requires(size <= SIZE_CAP && __CPROVER_r_ok(bytes, size) && verif_exc == 0 && g_live_blocks == 0 && g_alloc_bytes == 0 && !g_accepted)
__CPROVER_assigns(verif_exc, g_live_blocks, g_alloc_bytes, g_accepted, g_num_entries)
/* any length, any content: every read inside [bytes, bytes+size); a rejected image leaves nothing allocated; an accepted one keeps only its entry array, whose size is bounded by the image */
__CPROVER_ensures(size < 8 ==> verif_exc != 0)
__CPROVER_ensures(verif_exc != 0 ==> (g_live_blocks == 0 && !g_accepted))
__CPROVER_ensures(verif_exc == 0 ==> (g_accepted && g_live_blocks <= 1 && (size_t)g_num_entries * (8 + sizeof(S)) <= size))
__CPROVER_ensures(g_alloc_bytes <= 2 * size + sizeof(S))
''',
    "loops": {1: r'''
__CPROVER_assigns(i, ptr, entries_n, verif_exc, g_live_blocks, entries_owned, summary_owned, __CPROVER_object_whole(entries), __CPROVER_object_whole(summary))
__CPROVER_loop_invariant(i <= num_entries && entries_n == i && verif_exc == 0 && entries_owned == entries && summary_owned == summary && g_live_blocks == 2)
__CPROVER_loop_invariant(__CPROVER_same_object(ptr, base) && __CPROVER_POINTER_OFFSET(ptr) <= size && __CPROVER_POINTER_OFFSET(ptr) >= i * (8 + sizeof(S)))
__CPROVER_decreases(num_entries - i)
'''},
}
import copy
# prefix job: everything before the entry loop (all header reads), for every length and content
deser_hdr = copy.deepcopy(deser)
deser_hdr.update({"name": "tuple_deserialize_header", "sig": "void tuple_deserialize_header(const void* bytes, size_t size, uint64_t seed)", "loops": {}, "nloops": 0, "inserts": [], "unwind": "",
                  "rules": [r for r in deser["rules"] if "entries" not in r[0] and "summary" not in r[0] and "return compact_tuple_sketch" not in r[0]]
                           + [(crules.stop_before_loop_block(1, "{ g_stopped = 1; g_hdr_entries = num_entries; g_hdr_off = (size_t)(ptr - base); return; }"), "block containing the entry loop -> stop", 1),
                              (r"std::vector<Entry, AllocEntry> entries\(alloc\);", "", 1), (r"const bool is_ordered = [^;]*;", "", 1),
                              (r"return compact_tuple_sketch\(is_empty, is_ordered, seed_hash, theta, std::move\(entries\)\);", "return;", 1)],
                  "contract": r"""
__CPROVER_requires(size <= SIZE_CAP && __CPROVER_r_ok(bytes, size) && verif_exc == 0 && !g_stopped)
__CPROVER_assigns(verif_exc, g_stopped, g_hdr_entries, g_hdr_off)
/* preamble longs, entry count and theta are read inside the buffer for every length; when the entry loop is reached all the keys fit behind the header */
__CPROVER_ensures(size < 8 ==> verif_exc != 0)
__CPROVER_ensures(g_stopped ==> (verif_exc == 0 && g_hdr_off <= size && (size_t)g_hdr_entries * 8 <= size - g_hdr_off))
"""})
UNIT = {
    "id": "tuple_reader", "property": "C11",
    "clause": "compact_tuple_sketch<float>::deserialize(bytes, size, seed): for every length and content the preamble, entry count and theta are read inside the buffer and the keys fit behind the header (proved, "
              "function cut before the entry loop); the entry loop with its interleaved keys and summaries, the bound on the entry array and leak-freedom of rejected images: bounded stand-in (images up to 56 / 96 bytes)",
    "consts": crules.THETA_CONSTS + [{"file": TH, "pattern": r"static const (?P<type>uint8_t) (?P<name>SERIAL_VERSION_LEGACY|SERIAL_VERSION|SKETCH_FAMILY|SKETCH_TYPE|SKETCH_TYPE_LEGACY)\s*=\s*(?P<value>[^;]+);", "min_count": 5}],
    "prelude": PRELUDE,
    "parts": [crules.ensure_minimum_memory, crules.check_memory_size, _tp.check_value_u8, _tp.check_value_u16, check_family, _tp.check_seed_hash, serde_deser, deser_hdr, deser],
    "harness": "void h_hdr(void) {" + crules.READER_INPUT + "  verif_exc = 0; g_stopped = 0; tuple_deserialize_header(in_bytes, in_size, nondet_u64()); VERIF_CANARY_POINT; }\n"
               "void h_tuple(void) {\n  size_t in_size = nondet_size(); __CPROVER_assume(in_size <= MAXIMG);\n  uint8_t* in_bytes = malloc(in_size); __CPROVER_assume(in_bytes != NULL);\n"
               "  uint8_t in_img[64]; for (int wi_ = 0; wi_ < 64; wi_++) in_img[wi_] = ((size_t)wi_ < in_size) ? in_bytes[wi_] : 0;\n"
               "  verif_exc = 0; g_live_blocks = 0; g_alloc_bytes = 0; g_accepted = 0; tuple_deserialize(in_bytes, in_size, nondet_u64());\n"
               "  __CPROVER_assert(verif_exc != 0 ==> (g_live_blocks == 0 && !g_accepted), \"a rejected image leaves nothing allocated\");\n"
               "  __CPROVER_assert(verif_exc == 0 ==> (g_accepted && g_live_blocks <= 1 && (size_t)g_num_entries * (8 + sizeof(S)) <= in_size), \"an accepted image keeps only its entry array, bounded by the image\");\n"
               "  VERIF_CANARY_POINT; }\n",
    "jobs": [{"name": "header", "entry": "h_hdr", "enforce": "tuple_deserialize_header", "replace": ["compute_seed_hash"], "timeout": 600, "unwind": 65, "object_bits": 10}] + [
             {"name": "entries_%dbytes" % nb, "entry": "h_tuple", "defines": {"MAXIMG": nb}, "unwind": nb // 8 + 2, "cbmc_args": ["--unwindset", "h_tuple.0:66"], "timeout": to, "object_bits": 10, "kind": "bounded", "tier": tier,
              "bound": "images of 0..%d bytes (up to %d entries), content fully symbolic" % (nb, nb // 8)} for (nb, to, tier) in [(56, 900, "quick"), (96, 7200, "thorough")]],
    "replay": {"*": {"template": "tuple_reader.cpp", "vars": crules.READER_REPLAY_VARS}},
    "assumptions": ["Summary = float with the arithmetic serde (real code of common/include/serde.hpp); std::vector entries = heap array of num_entries entries, std::unique_ptr summary holder = heap block; "
                    "both released by VERIF_UNWIND on the throwing path", "compute_seed_hash(seed): any 16-bit value", "SIZE_CAP: symbolic buffer length 0..65536"],
}
