import crules
F = "count/include/count_min_impl.hpp"
H = "count/include/count_min.hpp"

PRELUDE = crules.MEMOPS_PRELUDE + r'''
typedef uint64_t W;
struct cms { uint8_t _num_hashes; uint32_t _num_buckets; W* _sketch_array; uint64_t _sketch_array_size; uint64_t _seed; W _total_weight; };
enum { flags_IS_EMPTY = 0 };
uint16_t compute_seed_hash(uint64_t seed) __CPROVER_assigns() __CPROVER_ensures(1);
/* the constructor, by its contract (proved in C14): refuses < 3 buckets and >= 2^30 cells, else allocates exactly hashes*buckets cells */
void cm_ctor_c(struct cms* c, uint8_t num_hashes, uint32_t num_buckets, uint64_t seed)
  __CPROVER_assigns(verif_exc, *c)
  __CPROVER_ensures((verif_exc != 0) == (num_buckets < 3 || (uint64_t)num_hashes * num_buckets >= ((uint64_t)1 << 30)))
  __CPROVER_ensures(verif_exc == 0 ==> (c->_num_hashes == num_hashes && c->_num_buckets == num_buckets && c->_total_weight == 0 && c->_sketch_array_size == (uint64_t)num_hashes * num_buckets &&
                                         __CPROVER_is_fresh(c->_sketch_array, (c->_sketch_array_size ? c->_sketch_array_size : 1) * sizeof(W))));
'''

check_header = {"name": "check_header_validity", "file": F,
                "match": r"void count_min_sketch<W,A>::check_header_validity\(uint8_t preamble_longs, uint8_t serial_version,\s*uint8_t family_id, uint8_t flags_byte\)",
                "sig": "void check_header_validity(uint8_t preamble_longs, uint8_t serial_version, uint8_t family_id, uint8_t flags_byte)",
                "pre_rules": crules.OSTREAM, "rules": [(r"1 << flags::IS_EMPTY", "1 << flags_IS_EMPTY", 1)]}

deser = {
    "name": "cm_deserialize", "file": F,
    "match": r"auto count_min_sketch<W,A>::deserialize\(const void\* bytes, size_t size, uint64_t seed, const A& allocator\)",
    "sig": "void cm_deserialize(const void* bytes, size_t size, uint64_t seed, struct cms* c)", "dropped_params": ["allocator"], "extra_params": ["c"], "nloops": 1,
    "propagate": ["ensure_minimum_memory", "check_header_validity"],
    "rules": [(r"count_min_sketch c\(nhashes, nbuckets, seed, allocator\);", "cm_ctor_c(c, nhashes, nbuckets, seed); VERIF_PROPAGATE;", 1),
              (r"return c;", "return;", 2), (r"\bc\._", "c->_", None), (r"1 << flags::IS_EMPTY", "1 << flags_IS_EMPTY", 1)],
    "contract": r'''
__CPROVER_requires(size <= SIZE_CAP && __CPROVER_r_ok(bytes, size) && __CPROVER_is_fresh(c, sizeof(*c)))
__CPROVER_assigns(verif_exc, __CPROVER_object_whole(c))
/* (from the property) whatever the length and content: no byte outside [bytes, bytes+size) is read (pointer checks), and an image shorter than its header is rejected */
__CPROVER_ensures(size < 16 ==> verif_exc != 0)
''',
    "loops": {1: r'''
__CPROVER_assigns(i, ptr, __CPROVER_object_whole(c->_sketch_array))
__CPROVER_loop_invariant(i <= (size_t)c->_num_buckets * c->_num_hashes && __CPROVER_same_object(ptr, bytes) && __CPROVER_POINTER_OFFSET(ptr) == 24 + 8 * i)
__CPROVER_decreases((size_t)c->_num_buckets * c->_num_hashes - i)
'''},
}

UNIT = {
    "id": "count_min_reader", "property": "C11",
    "clause": "count-min deserialize(bytes, size): for every buffer length 0..65536 and every content, every read stays inside the buffer (header fields, total weight and every table cell), "
              "the table copied is exactly hashes*buckets cells into an array of that size, and images shorter than the 16-byte header are rejected",
    "consts": [{"file": H, "pattern": r"static const (?P<type>uint8_t|uint32_t) (?P<name>PREAMBLE_LONGS_SHORT|SERIAL_VERSION_1|FAMILY_ID|NULL_8|NULL_32) = (?P<value>[^;]+);", "min_count": 5}],
    "prelude": PRELUDE,
    "parts": [crules.ensure_minimum_memory, check_header, deser],
    "harness": "void h_deser(void) {" + crules.READER_INPUT + "  uint64_t seed; struct cms* c; verif_exc = 0; cm_deserialize(in_bytes, in_size, seed, c); VERIF_CANARY_POINT; }\n",
    "jobs": [{"name": "deserialize_bytes", "entry": "h_deser", "enforce": "cm_deserialize", "replace": ["compute_seed_hash", "cm_ctor_c"], "loops": True, "expect_loop_steps": 1, "timeout": 600, "unwind": 65}],
    "replay": {"deserialize_bytes": {"template": "count_min_reader.cpp", "vars": crules.READER_REPLAY_VARS}},
    "assumptions": ["SIZE_CAP: symbolic buffer length 0..65536", "the constructor is used by its contract (proved in C14 unit count_min job constructor); W = uint64_t"],
}
