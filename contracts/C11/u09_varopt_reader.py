import crules, importlib.util, os
_spec = importlib.util.spec_from_file_location("c03coupon", os.path.join(os.path.dirname(__file__), "..", "C03", "u01_coupon.py"))
_c03 = importlib.util.module_from_spec(_spec); _spec.loader.exec_module(_c03)
VS = "sampling/include/var_opt_sketch_impl.hpp"
VH = "sampling/include/var_opt_sketch.hpp"
CP = "common/include/ceiling_power_of_2.hpp"
SD = "common/include/serde.hpp"
VO = "var_opt_sketch<T, A>"
PRELUDE = crules.MEMOPS_PRELUDE + r'''
typedef uint64_t T;
typedef uint8_t resize_factor;
int g_live_blocks; bool g_accepted, g_stopped;
uint32_t g_k, g_h, g_m, g_r, g_arr; uint64_t g_n;
static void* vr_alloc(size_t bytes) { g_live_blocks++; return verif_alloc(bytes ? bytes : 1); }
static void vr_free(void* p) { g_live_blocks--; free(p); }
#define var_opt_constants_MAX_K ((((uint32_t)1) << 31) - 2)
#define MAX_K var_opt_constants_MAX_K
/* std::fill(first, last, v) on doubles: requires first <= last inside one array (otherwise the real loop runs off the array) */
void fill_doubles(double* a, size_t from, size_t to, double v)
  __CPROVER_requires(from <= to && __CPROVER_rw_ok(a, to * sizeof(double))) __CPROVER_assigns(__CPROVER_object_upto(a, to * sizeof(double)));
'''
def fn(name, params, csig, ret="void", **kw):
    d = {"name": name, "file": VS, "match": r"%s %s::%s\(%s\)" % (ret, VO, name, params), "sig": csig}
    d.update(kw)
    return d
cp2 = {"name": "ceiling_power_of_2", "file": CP, "match": r"static inline uint32_t ceiling_power_of_2\(uint32_t n\)", "sig": "static inline uint32_t ceiling_power_of_2(uint32_t n)"}
is_pow2 = fn("is_power_of_2", "uint32_t v", "bool is_power_of_2(uint32_t v)", ret="bool")
to_log_2 = fn("to_log_2", "uint32_t v", "uint32_t to_log_2(uint32_t v)", ret="uint32_t", throw_rv="0")
ssm = fn("starting_sub_multiple", "uint32_t lg_target, uint32_t lg_rf, uint32_t lg_min", "uint32_t starting_sub_multiple(uint32_t lg_target, uint32_t lg_rf, uint32_t lg_min)", ret="uint32_t")
gas = fn("get_adjusted_size", "uint32_t max_size, uint32_t resize_target", "uint32_t get_adjusted_size(uint32_t max_size, uint32_t resize_target)", ret="uint32_t")
validate = fn("validate_and_get_target_size", r"uint32_t preamble_longs, uint32_t k, uint64_t n,\s*uint32_t h, uint32_t r, resize_factor rf",
              "uint32_t validate_and_get_target_size(uint32_t preamble_longs, uint32_t k, uint64_t n, uint32_t h, uint32_t r, resize_factor rf)", ret="uint32_t", throw_rv="0", propagate=["to_log_2"])
chk_pre = fn("check_preamble_longs", "uint8_t preamble_longs, uint8_t flags", "void check_preamble_longs(uint8_t preamble_longs, uint8_t flags)")
chk_fam = fn("check_family_and_serialization_version", "uint8_t family_id, uint8_t ser_ver", "void check_family_and_serialization_version(uint8_t family_id, uint8_t ser_ver)")
serde_deser = {"name": "serde_deserialize", "file": SD,
               "match": r"size_t deserialize\(const void\* ptr, size_t capacity, T\* items, unsigned num\) const(?=\s*\{\s*const size_t bytes_read = sizeof\(T\) \* num;)",
               "sig": "size_t serde_deserialize(const void* ptr, size_t capacity, T* items, unsigned num)", "throw_rv": "0", "propagate": ["check_memory_size"]}
deser = {
    "name": "varopt_deserialize", "file": VS,
    "match": r"var_opt_sketch<T, A> var_opt_sketch<T, A>::deserialize\(const void\* bytes, size_t size, const SerDe& sd, const A& allocator\)",
    "sig": "void varopt_deserialize(const void* bytes, size_t size)", "dropped_params": ["sd", "allocator"], "nloops": 1,
    "propagate": ["ensure_minimum_memory", "check_memory_size", "check_preamble_longs", "check_family_and_serialization_version", "validate_and_get_target_size", "sd.deserialize"],
    "rules": [(r"return var_opt_sketch\(k, rf, is_gadget, allocator\);", "{ g_accepted = 1; g_k = k; g_h = 0; g_m = 0; g_r = 0; g_n = 0; g_arr = 0; return; }", 1),
              (r"std::unique_ptr<double, weights_deleter> weights\(AllocDouble\(allocator\)\.allocate\(array_size\),\s*weights_deleter\(array_size, allocator\)\);", "double* weights = (double*)vr_alloc((size_t)array_size * sizeof(double)); weights_owned = weights;", 1),
              (r"double\* wts = weights\.get\(\);", "double* wts = weights;", 1),
              (r"copy_from_mem\(ptr, wts, h \* sizeof\(double\)\)", "copy_from_mem_n(ptr, wts, h * sizeof(double))", 1),
              (r"std::fill\(wts \+ h, wts \+ array_size, -1\.0\);", "fill_doubles(wts, h, array_size, -1.0);", 1),
              (r"std::unique_ptr<bool, marks_deleter> marks\((?:nullptr|NULL), marks_deleter\(array_size, allocator\)\);", "", 1),
              # gadget images (mark bytes): the block is cut out of this job (prefix semantics for them)
              (crules.stop_before_loop_block(2, "{ g_stopped = 1; VERIF_UNWIND; return; }", keep=1), "gadget mark block -> stop", 1),
              (r"items_deleter deleter\(array_size, allocator\);", "", 1),
              (r"std::unique_ptr<T, items_deleter> items\(A\(allocator\)\.allocate\(array_size\), deleter\);", "T* items = (T*)vr_alloc((size_t)array_size * sizeof(T)); items_owned = items;", 1),
              (r"sd\.deserialize\(ptr, end_ptr - ptr, items\.get\(\), h\)", "serde_deserialize(ptr, end_ptr - ptr, items, h)", 1),
              # r == 0 in warm-up mode: the real call copies zero bytes to &items[h + 1], which may lie past the array (no access happens); cbmc checks memcpy's pointer even for length 0,
              # so the zero-length call is rendered as the no-op it is (recorded in DESIGN.md section 9)
              (r"sd\.deserialize\(ptr, end_ptr - ptr, &\(items\.get\(\)\[h \+ 1\]\), r\)", "(r == 0 ? (size_t)0 : serde_deserialize(ptr, end_ptr - ptr, &(items[h + 1]), r))", 1),
              (r"items\.get_deleter\(\)\.set_h\(h\);", "", 1), (r"items\.get_deleter\(\)\.set_r\(r\);", "", 1),
              (r"return var_opt_sketch\(k, h, ([^,]*), r, n, total_wt_r, rf, array_size, false,\s*std::move\(items\), std::move\(weights\), num_marks_in_h, std::move\(marks\), allocator\);",
               r"{ g_accepted = 1; g_k = k; g_h = h; g_m = (\1); g_r = r; g_n = n; g_arr = array_size; items_owned = NULL; weights_owned = NULL; return; }", 1)],
    "inserts": [(r"^\{", "double* weights_owned = NULL; T* items_owned = NULL;  /* std::unique_ptr owners: released by VERIF_UNWIND on the throwing path */", "after", 1)],
    "unwind": "do { if (weights_owned) { vr_free(weights_owned); weights_owned = NULL; } if (items_owned) { vr_free(items_owned); items_owned = NULL; } } while (0)",
    "contract": r'''
__CPROVER_requires(size <= SIZE_CAP && __CPROVER_r_ok(bytes, size) && verif_exc == 0 && g_live_blocks == 0 && !g_accepted && !g_stopped)
__CPROVER_assigns(verif_exc, g_live_blocks, g_accepted, g_stopped, g_k, g_h, g_m, g_r, g_n, g_arr)
/* any length, any content: reads inside the buffer, writes inside the arrays allocated for the sketch; a rejected image leaves nothing allocated */
__CPROVER_ensures(size < 8 ==> verif_exc != 0)
__CPROVER_ensures((verif_exc != 0 || g_stopped) ==> (g_live_blocks == 0 && !g_accepted))
/* an accepted image is a sketch the update path can continue from: the representation invariant of var_opt_sketch between updates (C16 unit varopt_update) */
__CPROVER_ensures((g_accepted && g_n > 0) ==> (g_m == 0 && g_k >= 1 && ((g_r == 0 && g_h == g_n && g_h <= g_k && g_h <= g_arr) || (g_r >= 1 && (uint64_t)g_h + g_r == g_k && g_arr == g_k + 1 && g_n > g_k))))
''',
    "loops": {1: r'''
__CPROVER_assigns(i, verif_exc, g_live_blocks, weights_owned, items_owned)
__CPROVER_loop_invariant(i <= h && verif_exc == 0 && weights_owned == weights && items_owned == NULL && g_live_blocks == 1)
__CPROVER_decreases(h - i)
'''},
}
UNIT = {
    "id": "varopt_reader", "property": "C11",
    "clause": "var_opt_sketch<uint64_t>::deserialize(bytes, size) for every length and content (non-gadget images; the mark-byte block of gadget images is cut out): preamble, counts, weights and "
              "items are read inside the buffer and written inside the arrays allocated from the validated sizes, a rejected image leaves nothing allocated, and an accepted image satisfies the "
              "sketch's representation invariant (empty middle region, h == n <= k in warm-up, h + r == k with k + 1 slots otherwise), so updating can continue",
    "consts": [{"file": VH, "pattern": r"static const (?P<type>uint8_t|uint32_t) (?P<name>MIN_LG_ARR_ITEMS|PREAMBLE_LONGS_EMPTY|PREAMBLE_LONGS_WARMUP|PREAMBLE_LONGS_FULL|SER_VER|FAMILY_ID|EMPTY_FLAG_MASK|GADGET_FLAG_MASK)\s*=\s*(?P<value>[^;]+);", "min_count": 8}],
    "prelude": PRELUDE,
    "parts": [_c03.tables, _c03.ctz32, crules.ensure_minimum_memory, crules.check_memory_size, serde_deser, cp2, is_pow2, to_log_2, ssm, gas, validate, chk_pre, chk_fam, deser],
    "harness": "void h_vo(void) {" + crules.READER_INPUT + "  verif_exc = 0; g_live_blocks = 0; g_accepted = 0; g_stopped = 0; varopt_deserialize(in_bytes, in_size); VERIF_CANARY_POINT; }\n",
    "jobs": [{"name": "deserialize_bytes", "entry": "h_vo", "enforce": "varopt_deserialize", "replace": ["fill_doubles", "count_trailing_zeros_in_u32"], "loops": True, "expect_loop_steps": 1, "timeout": 900, "unwind": 65, "object_bits": 10}],
    "replay": {"*": {"template": "varopt_reader.cpp", "vars": crules.READER_REPLAY_VARS}},
    "assumptions": ["T = uint64_t with the arithmetic serde; unique_ptr owners = heap blocks released on the throwing path; std::fill by a contract that requires first <= last",
                    "gadget images (marks) are accepted only up to the mark block: their mark loop moves the read pointer conditionally and is not under contract"],
}
