import crules
ES = "sampling/include/ebpps_sample_impl.hpp"
SD = "common/include/serde.hpp"
PRELUDE = crules.MEMOPS_PRELUDE + r'''
typedef uint64_t T;
int g_live_blocks; size_t g_alloc_bytes; bool g_accepted; uint32_t g_items; bool g_partial;
static void* eb_alloc(size_t bytes) { g_live_blocks++; g_alloc_bytes += bytes; return verif_alloc(bytes ? bytes : 1); }
static void eb_free(void* p) { g_live_blocks--; free(p); }
'''
serde_deser = {"name": "serde_deserialize", "file": SD,
               "match": r"size_t deserialize\(const void\* ptr, size_t capacity, T\* items, unsigned num\) const(?=\s*\{\s*const size_t bytes_read = sizeof\(T\) \* num;)",
               "sig": "size_t serde_deserialize(const void* ptr, size_t capacity, T* items, unsigned num)", "throw_rv": "0", "propagate": ["check_memory_size"]}
deser = {
    "name": "sample_deserialize", "file": ES,
    "match": r"std::pair<ebpps_sample<T, A>, size_t> ebpps_sample<T, A>::deserialize\(const uint8_t\* ptr, size_t size, const SerDe& sd, const A& allocator\)",
    "sig": "size_t sample_deserialize(const uint8_t* ptr, size_t size)", "dropped_params": ["sd", "allocator"], "throw_rv": "0",
    "propagate": ["ensure_minimum_memory", "sd.deserialize"],
    "pre_rules": [(r"std::modf\(", "modf(", 1)],
    "rules": [(r"A alloc\(allocator\);", "", 1),
              (r"std::unique_ptr<T, items_deleter> items\(alloc\.allocate\(num_full_items\), items_deleter\(allocator, false, num_full_items\)\);", "T* items = (T*)eb_alloc((size_t)num_full_items * sizeof(T)); items_owned = items;", 1),
              (r"sd\.deserialize\(ptr, end_ptr - ptr, items\.get\(\), num_full_items\)", "serde_deserialize(ptr, end_ptr - ptr, items, num_full_items)", 1),
              (r"items\.get_deleter\(\)\.set_destroy\(true\);", "", 1),
              (r"std::vector<T, A> data\(std::make_move_iterator\(items\.get\(\)\),\s*std::make_move_iterator\(items\.get\(\) \+ num_full_items\),\s*allocator\);", "(void)0;  /* items move into the sample's vector (the temporary array is released at scope exit) */", 1),
              (r"optional<T> partial_item;", "T partial_v; bool partial_has = 0;", 1), (r"optional<T> tmp;", "T tmp_v;", 1),
              (r"sd\.deserialize\(ptr, end_ptr - ptr, &\*tmp, 1\)", "serde_deserialize(ptr, end_ptr - ptr, &tmp_v, 1)", 1),
              (r"partial_item\.emplace\(\*tmp\);", "partial_v = tmp_v; partial_has = 1;", 1), (r"\(\*tmp\)\.~T\(\);", "(void)0;", 1),
              (r"return std::pair<ebpps_sample<T,A>, size_t>\(\s*ebpps_sample<T,A>\(std::move\(data\), std::move\(partial_item\), c, allocator\),\s*ptr - st_ptr\);",
               "{ g_accepted = 1; g_items = num_full_items; g_partial = partial_has; eb_free(items_owned); items_owned = NULL; return ptr - st_ptr; }", 1)],
    "inserts": [(r"^\{", "T* items_owned = NULL;  /* std::unique_ptr: released by VERIF_UNWIND on the throwing path and at scope exit */", "after", 1)],
    "unwind": "do { if (items_owned) { eb_free(items_owned); items_owned = NULL; } } while (0)",
    "contract": r'''
__CPROVER_requires(size <= SIZE_CAP && __CPROVER_r_ok(ptr, size) && verif_exc == 0 && g_live_blocks == 0 && g_alloc_bytes == 0 && !g_accepted)
__CPROVER_assigns(verif_exc, g_live_blocks, g_alloc_bytes, g_accepted, g_items, g_partial)
/* any length, any content: c, the full items and the partial item are read inside the buffer; the item array requested from the allocator is bounded by the image; nothing stays allocated */
__CPROVER_ensures(size < 8 ==> verif_exc != 0)
__CPROVER_ensures(g_live_blocks == 0)
__CPROVER_ensures(g_alloc_bytes <= size * sizeof(T))
__CPROVER_ensures(verif_exc == 0 ==> (g_accepted && __CPROVER_return_value <= size && __CPROVER_return_value == 8 + ((size_t)g_items + (g_partial ? 1 : 0)) * sizeof(T)))
''',
}
UNIT = {
    "id": "ebpps_reader", "property": "C11",
    "clause": "ebpps_sample<uint64_t>::deserialize(bytes, size) for every length and content: the sample size c, the full items and the partial item are read inside the buffer, the item array "
              "requested from the allocator is bounded by the image, nothing stays allocated after a rejection",
    "prelude": PRELUDE, "parts": [crules.ensure_minimum_memory, crules.check_memory_size, serde_deser, deser],
    "harness": "void h_eb(void) {" + crules.READER_INPUT + "  verif_exc = 0; g_live_blocks = 0; g_alloc_bytes = 0; g_accepted = 0; (void)sample_deserialize(in_bytes, in_size); VERIF_CANARY_POINT; }\n",
    "jobs": [{"name": "sample_deserialize", "entry": "h_eb", "enforce": "sample_deserialize", "timeout": 900, "unwind": 65, "object_bits": 10}],
    "replay": {"*": {"template": "ebpps_reader.cpp", "vars": crules.READER_REPLAY_VARS}},
    "assumptions": ["T = uint64_t with the arithmetic serde; std::modf by cbmc's math model; the conversion static_cast<uint32_t>(c_int) is evaluated as cbmc does (values >= 2^32 are undefined in C++: not flagged by the checks in use)"],
}
