import crules
CZ = "common/include/count_zeros.hpp"
HU = "hll/include/HllUtil.hpp"

tables = {"name": "byte_leading_zeros_table, byte_trailing_zeros_table, FCLZ masks", "file": CZ,
          "begin": r"static const uint8_t byte_leading_zeros_table\[256\] = \{", "include_begin": True,
          "end": r"static inline uint8_t count_leading_zeros_in_u64", "rules": []}
clz64 = {"name": "count_leading_zeros_in_u64", "file": CZ, "match": r"static inline uint8_t count_leading_zeros_in_u64\(uint64_t input\)",
         "sig": "static inline uint8_t count_leading_zeros_in_u64(uint64_t input)",
         "contract": "__CPROVER_assigns() __CPROVER_ensures(__CPROVER_return_value == (input == 0 ? 64 : __builtin_clzll(input)))"}
clz32 = {"name": "count_leading_zeros_in_u32", "file": CZ, "match": r"static inline uint8_t count_leading_zeros_in_u32\(uint32_t input\)",
         "sig": "static inline uint8_t count_leading_zeros_in_u32(uint32_t input)",
         "contract": "__CPROVER_assigns() __CPROVER_ensures(__CPROVER_return_value == (input == 0 ? 32 : __builtin_clz(input)))"}
ctz32 = {"name": "count_trailing_zeros_in_u32", "file": CZ, "match": r"static inline uint8_t count_trailing_zeros_in_u32\(uint32_t input\)",
         "sig": "static inline uint8_t count_trailing_zeros_in_u32(uint32_t input)",
         "contract": "__CPROVER_assigns() __CPROVER_ensures(__CPROVER_return_value == (input == 0 ? 32 : __builtin_ctz(input)))"}
ctz64 = {"name": "count_trailing_zeros_in_u64", "file": CZ, "match": r"static inline uint8_t count_trailing_zeros_in_u64\(uint64_t input\)",
         "sig": "static inline uint8_t count_trailing_zeros_in_u64(uint64_t input)",
         "contract": "__CPROVER_assigns() __CPROVER_ensures(__CPROVER_return_value == (input == 0 ? 64 : __builtin_ctzll(input)))"}

coupon = {"name": "coupon", "file": HU, "match": r"inline uint32_t HllUtil<A>::coupon\(const HashState& hashState\)",
          "sig": "static inline uint32_t coupon(const HashState* hashState)", "refs": ["hashState"],
          "contract": r'''
__CPROVER_requires(__CPROVER_is_fresh(hashState, sizeof(*hashState)))
__CPROVER_assigns()
/* coupon = (min(leading zeros of h2, 62) + 1) << 26 | low 26 bits of h1 : value in 1..63, never the EMPTY coupon */
__CPROVER_ensures((__CPROVER_return_value >> 26) == ((hashState->h2 == 0 ? 64 : __builtin_clzll(hashState->h2)) > 62 ? 62 : (hashState->h2 == 0 ? 64 : __builtin_clzll(hashState->h2))) + 1)
__CPROVER_ensures((__CPROVER_return_value & 0x3ffffff) == (uint32_t)(hashState->h1 & 0x3ffffff))
__CPROVER_ensures(__CPROVER_return_value != 0 && (__CPROVER_return_value >> 26) >= 1 && (__CPROVER_return_value >> 26) <= 63)
'''}
coupon_arr = {"name": "coupon_arr", "file": HU, "match": r"inline uint32_t HllUtil<A>::coupon\(const uint64_t hash\[\]\)",
              "sig": "static inline uint32_t coupon_arr(const uint64_t hash[])",
              "contract": r'''
__CPROVER_requires(__CPROVER_is_fresh(hash, 16))
__CPROVER_assigns()
__CPROVER_ensures((__CPROVER_return_value >> 26) == ((hash[1] == 0 ? 64 : __builtin_clzll(hash[1])) > 62 ? 62 : (hash[1] == 0 ? 64 : __builtin_clzll(hash[1]))) + 1)
__CPROVER_ensures((__CPROVER_return_value & 0x3ffffff) == (uint32_t)(hash[0] & 0x3ffffff))
'''}
pair = {"name": "pair", "file": HU, "match": r"inline uint32_t HllUtil<A>::pair\(uint32_t slotNo, uint8_t value\)",
        "sig": "static inline uint32_t pair(uint32_t slotNo, uint8_t value)",
        "contract": "__CPROVER_requires(value <= 63) __CPROVER_assigns() __CPROVER_ensures((__CPROVER_return_value >> 26) == value && (__CPROVER_return_value & 0x3ffffff) == (slotNo & 0x3ffffff))"}
getLow26 = {"name": "getLow26", "file": HU, "match": r"inline uint32_t HllUtil<A>::getLow26\(uint32_t coupon\)",
            "sig": "static inline uint32_t getLow26(uint32_t coupon)",
            "contract": "__CPROVER_assigns() __CPROVER_ensures(__CPROVER_return_value == (coupon & 0x3ffffff))"}
getValue = {"name": "getValue", "file": HU, "match": r"inline uint8_t HllUtil<A>::getValue\(uint32_t coupon\)",
            "sig": "static inline uint8_t getValue(uint32_t coupon)",
            "contract": "__CPROVER_assigns() __CPROVER_ensures(__CPROVER_return_value == (coupon >> 26))"}

UNIT = {
    "id": "hll_coupon", "property": "C03",
    "clause": "coupon derivation for all 2^128 hash pairs: value = min(leading zeros of h2, 62) + 1 in 1..63, address = low 26 bits of h1, never EMPTY; "
              "pair/getLow26/getValue are inverse field accessors; the table-driven leading/trailing-zero counters equal clz/ctz on the full domain",
    "consts": crules.HLL_CONSTS,
    "prelude": "typedef struct { uint64_t h1; uint64_t h2; } HashState;\n",
    "parts": [tables, clz64, clz32, ctz32, ctz64, coupon, coupon_arr, pair, getLow26, getValue],
    "harness": "\n".join("void h_%s(void) { %s; VERIF_CANARY_POINT; }" % (n, c) for n, c in [
        ("clz64", "uint64_t x; count_leading_zeros_in_u64(x)"), ("clz32", "uint32_t x; count_leading_zeros_in_u32(x)"),
        ("ctz32", "uint32_t x; count_trailing_zeros_in_u32(x)"), ("ctz64", "uint64_t x; count_trailing_zeros_in_u64(x)"),
        ("coupon", "const HashState* h; coupon(h)"), ("coupon_arr", "const uint64_t* h; coupon_arr(h)"),
        ("pair", "uint32_t s; uint8_t v; pair(s, v)"), ("getLow26", "uint32_t c; getLow26(c)"), ("getValue", "uint32_t c; getValue(c)")]),
    "jobs": [{"name": n, "entry": "h_" + n, "enforce": f, "unwind": 9, "replace": (["count_leading_zeros_in_u64"] if n.startswith("coupon") else [])}
             for n, f in [("clz64", "count_leading_zeros_in_u64"), ("clz32", "count_leading_zeros_in_u32"), ("ctz32", "count_trailing_zeros_in_u32"),
                          ("ctz64", "count_trailing_zeros_in_u64"), ("coupon", "coupon"), ("coupon_arr", "coupon_arr"), ("pair", "pair"),
                          ("getLow26", "getLow26"), ("getValue", "getValue")]],
}
