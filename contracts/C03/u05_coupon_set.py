import crules
F = "hll/include/CouponHashSet-internal.hpp"

HU = "hll/include/HllUtil.hpp"
# HllUtil field accessors (real code, inlined): a change that routes a comparison through them stays inside the extraction
pair = {"name": "pair", "file": HU, "match": r"inline uint32_t HllUtil<A>::pair\(uint32_t slotNo, uint8_t value\)", "sig": "static inline uint32_t pair(uint32_t slotNo, uint8_t value)"}
getLow26 = {"name": "getLow26", "file": HU, "match": r"inline uint32_t HllUtil<A>::getLow26\(uint32_t coupon\)", "sig": "static inline uint32_t getLow26(uint32_t coupon)"}
getValue = {"name": "getValue", "file": HU, "match": r"inline uint8_t HllUtil<A>::getValue\(uint32_t coupon\)", "sig": "static inline uint8_t getValue(uint32_t coupon)"}
HELPERS = [pair, getLow26, getValue]
HURULE = (r"HllUtil<A>::", "", "any")

find = {
    "name": "find", "file": F,
    "match": r"static int32_t find\(const uint32_t\* array, uint8_t lgArrInts, uint32_t coupon\)",
    "sig": "int32_t coupon_set_find(const uint32_t* array, uint8_t lgArrInts, uint32_t coupon)",
    "throw_rv": "0", "nloops": 1, "rules": [HURULE],
    "inserts": [(r"const uint32_t stride = [^;]*;", '__CPROVER_assert((stride & 1) == 1, "probe stride is odd (the probe orbit covers the whole power-of-two array)");', "after", 1)],
    "contract": r'''
/* the coupon array of a set has 2^5 .. 2^(lgConfigK-3) slots; every size the arithmetic supports is covered */
__CPROVER_requires(lgArrInts >= 1 && lgArrInts <= 26 && verif_exc == 0)
__CPROVER_requires(__CPROVER_r_ok(array, ((size_t)1 << lgArrInts) * sizeof(uint32_t)))
__CPROVER_assigns(verif_exc)
/* found: the index of a slot that holds the coupon; not found: the complement of the index of an empty slot (the insertion point) */
__CPROVER_ensures((verif_exc == 0 && __CPROVER_return_value >= 0) ==> ((uint32_t)__CPROVER_return_value < ((uint32_t)1 << lgArrInts) && array[__CPROVER_return_value] == coupon && coupon != hll_constants_EMPTY))
__CPROVER_ensures((verif_exc == 0 && __CPROVER_return_value < 0) ==> ((uint32_t)~__CPROVER_return_value < ((uint32_t)1 << lgArrInts) && array[~__CPROVER_return_value] == hll_constants_EMPTY))
/* the home slot (low bits of the coupon) is probed first: a coupon stored there, or an empty home slot, is reported */
__CPROVER_ensures((coupon != hll_constants_EMPTY && array[coupon & (((uint32_t)1 << lgArrInts) - 1)] == coupon) ==> (verif_exc == 0 && __CPROVER_return_value == (int32_t)(coupon & (((uint32_t)1 << lgArrInts) - 1))))
__CPROVER_ensures(array[coupon & (((uint32_t)1 << lgArrInts) - 1)] == hll_constants_EMPTY ==> (verif_exc == 0 && __CPROVER_return_value == (int32_t)~(coupon & (((uint32_t)1 << lgArrInts) - 1))))
/* an arbitrary slot g_i holding the coupon while no slot is empty... (set semantics over whole probe orbits are not decided here); the search is refused only when the home slot is occupied by another coupon */
__CPROVER_ensures(verif_exc != 0 ==> (array[coupon & (((uint32_t)1 << lgArrInts) - 1)] != hll_constants_EMPTY && array[coupon & (((uint32_t)1 << lgArrInts) - 1)] != coupon))
''',
    "loops": {1: r'''
__CPROVER_assigns(probe)
__CPROVER_loop_invariant(probe <= arrMask && arrMask == ((uint32_t)1 << lgArrInts) - 1 && loopIndex == (coupon & arrMask))
'''},
}

CL = "hll/include/CouponList-internal.hpp"
MEMBERS = ["lgConfigK_", "tgtHllType_", "mode_", "couponCount_", "oooFlag_", "coupons_"]
PRELUDE2 = r"""
struct couponlist { uint8_t lgConfigK_; uint8_t tgtHllType_; uint8_t mode_; uint32_t couponCount_; bool oooFlag_; uint32_t* coupons_; size_t coupons_size; };
/* ghost: an arbitrary slot and its content before the call; the slot where the coupon ends up; whether a slot was written; which promotion was requested */
size_t g_i; uint32_t g_old; size_t g_w; int g_written; int g_promoted;
/* promotion of a full list (assumed: defined elsewhere, returns the new implementation object) */
void* promote_to_hll(struct couponlist* s) __CPROVER_assigns(g_promoted) __CPROVER_ensures(g_promoted == 2);
void* promote_to_set(struct couponlist* s) __CPROVER_assigns(g_promoted) __CPROVER_ensures(g_promoted == 1);
"""
list_update = {
    "name": "list_couponUpdate", "file": CL, "members": MEMBERS,
    "match": r"HllSketchImpl<A>\* CouponList<A>::couponUpdate\(uint32_t coupon\)",
    "sig": "void* list_couponUpdate(struct couponlist* self, uint32_t coupon)", "throw_rv": "0", "nloops": 1,
    "pre_rules": [(r"coupons_\.size\(\)", "coupons_size", "any"), (r"return this;", "return self;", "any"),
                  (r"promoteHeapListOrSetToHll\(\*this\)", "promote_to_hll(self)", 1), (r"promoteHeapListToSet\(\*this\)", "promote_to_set(self)", 1)],
    "rules": [(r"(?<![\w>])coupons_size", "self->coupons_size", "any"), HURULE],
    "inserts": [(r"self->coupons_\[i\] = coupon;", "g_w = i; g_written = 1;", "after", 1),
                (r"return self;(?=\s*\}\s*\})", "g_w = i;", "before", 1)],
    "contract": r"""
__CPROVER_requires(__CPROVER_rw_ok(self, sizeof(*self)) && self->coupons_size >= 1 && self->coupons_size <= ((size_t)1 << 26) && __CPROVER_rw_ok(self->coupons_, self->coupons_size * sizeof(uint32_t)))
__CPROVER_requires(verif_exc == 0 && coupon != hll_constants_EMPTY && g_i < self->coupons_size && g_old == self->coupons_[g_i] && g_written == 0 && g_promoted == 0)
__CPROVER_assigns(verif_exc, self->couponCount_, g_w, g_written, g_promoted, __CPROVER_object_whole(self->coupons_))
/* accepted: the coupon is in the list afterwards, at slot g_w */
__CPROVER_ensures(verif_exc == 0 ==> (g_w < self->coupons_size && self->coupons_[g_w] == coupon))
/* the count grows exactly when a slot was written, and a slot is written only if no earlier slot already holds the coupon (no coupon twice) and the slot was EMPTY */
__CPROVER_ensures(self->couponCount_ == __CPROVER_old(self->couponCount_) + (uint32_t)g_written)
__CPROVER_ensures((verif_exc == 0 && g_written && g_i < g_w) ==> (g_old != coupon && g_old != hll_constants_EMPTY))
/* every other slot keeps its content; a written slot was EMPTY */
__CPROVER_ensures(self->coupons_[g_i] == g_old || (g_written && g_i == g_w && g_old == hll_constants_EMPTY && self->coupons_[g_i] == coupon))
/* a duplicate leaves everything as it was and returns the same object */
__CPROVER_ensures((verif_exc == 0 && !g_written) ==> (__CPROVER_return_value == self && g_promoted == 0))
/* promotion exactly when the write filled the list: to HLL below lgConfigK 8, else to a hash set */
__CPROVER_ensures((verif_exc == 0 && g_written) ==> (g_promoted == (self->couponCount_ == (uint32_t)self->coupons_size ? (self->lgConfigK_ < 8 ? 2 : 1) : 0) && (g_promoted != 0 || __CPROVER_return_value == self)))
/* refused only when the list has no EMPTY slot and does not hold the coupon */
__CPROVER_ensures(verif_exc != 0 ==> (g_old != hll_constants_EMPTY && g_old != coupon && !g_written))
""",
    "loops": {1: r"""
__CPROVER_assigns(i, verif_exc, self->couponCount_, g_w, g_written, g_promoted, __CPROVER_object_whole(self->coupons_))
__CPROVER_loop_invariant(i <= self->coupons_size && verif_exc == 0 && g_written == 0 && g_promoted == 0 && self->couponCount_ == __CPROVER_loop_entry(self->couponCount_) && self->coupons_[g_i] == g_old)
__CPROVER_loop_invariant(g_i < i ==> (g_old != coupon && g_old != hll_constants_EMPTY))
__CPROVER_decreases(self->coupons_size - i)
"""},
}

PRELUDE3 = PRELUDE2 + r"""
/* ghost: snapshots taken between the store and the grow/promote decision; what growHashSet was asked for */
uint32_t g_slot_after, g_count_after; int g_present; int g_grow_lg; int g_checked;
#define POW2(n) ((n) >= 2 && (n) <= ((size_t)1 << 26) && ((n) & ((n) - 1)) == 0)
uint8_t count_trailing_zeros_in_u32(uint32_t input) __CPROVER_assigns() __CPROVER_ensures(__CPROVER_return_value == (input == 0 ? 32 : __builtin_ctz(input)));   /* proved in unit hll_coupon */
/* the probe, by its contract (proved in unit hll_coupon_set_find) */
int32_t coupon_set_find(const uint32_t* array, uint8_t lgArrInts, uint32_t coupon)
__CPROVER_requires(lgArrInts >= 1 && lgArrInts <= 26 && verif_exc == 0 && __CPROVER_r_ok(array, ((size_t)1 << lgArrInts) * sizeof(uint32_t)))
__CPROVER_assigns(verif_exc)
__CPROVER_ensures((verif_exc == 0 && __CPROVER_return_value >= 0) ==> ((uint32_t)__CPROVER_return_value < ((uint32_t)1 << lgArrInts) && array[__CPROVER_return_value] == coupon && coupon != hll_constants_EMPTY))
__CPROVER_ensures((verif_exc == 0 && __CPROVER_return_value < 0) ==> ((uint32_t)~__CPROVER_return_value < ((uint32_t)1 << lgArrInts) && array[~__CPROVER_return_value] == hll_constants_EMPTY));
/* ghost for growHashSet: an arbitrary source slot, its coupon, and the slot of the new array where that coupon went */
size_t g_s; uint32_t g_c; size_t g_nw;
#define SETINV(s) (POW2((s)->coupons_size) && (s)->lgConfigK_ >= 8 && (s)->lgConfigK_ <= 21 && (s)->coupons_size <= ((size_t)1 << ((s)->lgConfigK_ - 3)))
"""
CH_MEMBERS = MEMBERS

grow = {
    "name": "growHashSet", "file": F, "members": CH_MEMBERS,
    "match": r"void CouponHashSet<A>::growHashSet\(uint8_t tgtLgCoupArrSize\)", "sig": "void growHashSet(struct couponlist* self, uint8_t tgtLgCoupArrSize)", "nloops": 1,
    "pre_rules": [(r"vector_int coupons_new\(tgtLen, 0, this->coupons_\.get_allocator\(\)\);", "uint32_t* coupons_new = (uint32_t*)calloc(tgtLen, sizeof(uint32_t)); __CPROVER_assume(coupons_new != NULL); g_grow_lg = tgtLgCoupArrSize;", 1),
                  (r"this->coupons_\.size\(\)", "this->coupons_size", "any"), (r"coupons_new\.data\(\)", "coupons_new", 1), (r"find<A>\(", "coupon_set_find(", 1),
                  (r"this->coupons_ = std::move\(coupons_new\);", "this->coupons_ = coupons_new; this->coupons_size = tgtLen;", 1)],
    "propagate": ["coupon_set_find"],
    "inserts": [(r"coupons_new\[~idx\] = fetched;", "if (i == g_s) g_nw = (size_t)(uint32_t)~idx;", "after", 1)],
    "contract": r"""
__CPROVER_requires(__CPROVER_rw_ok(self, sizeof(*self)) && POW2(self->coupons_size) && __CPROVER_rw_ok(self->coupons_, self->coupons_size * sizeof(uint32_t)) && tgtLgCoupArrSize >= 1 && tgtLgCoupArrSize <= 26)
__CPROVER_requires(verif_exc == 0 && g_s < self->coupons_size && g_c == self->coupons_[g_s])
__CPROVER_assigns(verif_exc, g_grow_lg, g_nw, self->coupons_, self->coupons_size)
/* the new array has the requested size and an arbitrary coupon of the old array is in it (none lost); the requested size is recorded */
__CPROVER_ensures(g_grow_lg == tgtLgCoupArrSize)
__CPROVER_ensures(verif_exc == 0 ==> (self->coupons_size == ((size_t)1 << tgtLgCoupArrSize) && __CPROVER_is_fresh(self->coupons_, self->coupons_size * sizeof(uint32_t))
    && (g_c != hll_constants_EMPTY ==> (g_nw < self->coupons_size && self->coupons_[g_nw] == g_c))))
/* refused: the old array is still in place */
__CPROVER_ensures(verif_exc != 0 ==> (self->coupons_ == __CPROVER_old(self->coupons_) && self->coupons_size == __CPROVER_old(self->coupons_size)))
""",
    "loops": {1: r"""
__CPROVER_assigns(i, verif_exc, g_nw, __CPROVER_object_whole(coupons_new))
__CPROVER_loop_invariant(i <= srcLen && verif_exc == 0 && srcLen == (uint32_t)self->coupons_size && self->coupons_[g_s] == g_c)
__CPROVER_loop_invariant((g_s < i && g_c != hll_constants_EMPTY) ==> (g_nw < tgtLen && coupons_new[g_nw] == g_c))
__CPROVER_decreases(srcLen - i)
"""},
}
check_grow = {
    "name": "checkGrowOrPromote", "file": F, "members": CH_MEMBERS,
    "match": r"bool CouponHashSet<A>::checkGrowOrPromote\(\)", "sig": "bool checkGrowOrPromote(struct couponlist* self)", "throw_rv": "0", "nloops": 0,
    "pre_rules": [(r"this->coupons_\.size\(\)", "this->coupons_size", "any")],
    "methods": ["growHashSet"], "propagate": ["growHashSet"],
    "contract": r"""
__CPROVER_requires(__CPROVER_rw_ok(self, sizeof(*self)) && SETINV(self) && __CPROVER_rw_ok(self->coupons_, self->coupons_size * sizeof(uint32_t)) && verif_exc == 0 && g_grow_lg == 0)
__CPROVER_requires(g_s < self->coupons_size && g_c == self->coupons_[g_s])
__CPROVER_assigns(verif_exc, g_grow_lg, g_nw, self->coupons_, self->coupons_size)
/* above the 3/4 load factor: promote when the array has its maximum size 2^(lgConfigK-3), otherwise ask for twice the size; at or below it: nothing */
__CPROVER_ensures(verif_exc == 0 ==> __CPROVER_return_value == ((size_t)(4 * self->couponCount_) > 3 * __CPROVER_old(self->coupons_size) && __builtin_ctzll(__CPROVER_old(self->coupons_size)) == self->lgConfigK_ - 3))
__CPROVER_ensures(verif_exc == 0 ==> g_grow_lg == (((size_t)(4 * self->couponCount_) > 3 * __CPROVER_old(self->coupons_size) && __builtin_ctzll(__CPROVER_old(self->coupons_size)) != self->lgConfigK_ - 3) ? __builtin_ctzll(__CPROVER_old(self->coupons_size)) + 1 : 0))
/* growth doubles the array, keeps the set invariant and loses no coupon; without growth the array is untouched */
__CPROVER_ensures((verif_exc == 0 && g_grow_lg != 0) ==> (self->coupons_size == 2 * __CPROVER_old(self->coupons_size) && SETINV(self) && __CPROVER_is_fresh(self->coupons_, self->coupons_size * sizeof(uint32_t))
    && (g_c != hll_constants_EMPTY ==> (g_nw < self->coupons_size && self->coupons_[g_nw] == g_c))))
__CPROVER_ensures(g_grow_lg == 0 ==> (self->coupons_ == __CPROVER_old(self->coupons_) && self->coupons_size == __CPROVER_old(self->coupons_size)))
""",
}
set_update = {
    "name": "set_couponUpdate", "file": F, "members": CH_MEMBERS,
    "match": r"HllSketchImpl<A>\* CouponHashSet<A>::couponUpdate\(uint32_t coupon\)",
    "sig": "void* set_couponUpdate(struct couponlist* self, uint32_t coupon)", "throw_rv": "0", "nloops": 0,
    "pre_rules": [(r"this->coupons_\.size\(\)", "this->coupons_size", "any"), (r"this->coupons_\.data\(\)", "this->coupons_", "any"), (r"find<A>\(", "coupon_set_find(", 1),
                  (r"return this;", "return self;", "any"), (r"this->promoteHeapListOrSetToHll\(\*this\)", "promote_to_hll(self)", 1)],
    "methods": ["checkGrowOrPromote"], "propagate": ["coupon_set_find"],   # an exception out of checkGrowOrPromote (inside the if condition) leaves through the return statements that follow with the flag set
    "inserts": [(r"\+\+self->couponCount_;", "g_written = 1; g_w = (size_t)(uint32_t)~index; g_present = self->coupons_[g_w] == coupon; g_slot_after = self->coupons_[g_i]; g_count_after = self->couponCount_; g_checked = 1; g_c = self->coupons_[g_s];", "after", 1)],
    "contract": r"""
__CPROVER_requires(__CPROVER_rw_ok(self, sizeof(*self)) && SETINV(self) && __CPROVER_rw_ok(self->coupons_, self->coupons_size * sizeof(uint32_t)))
__CPROVER_requires(g_s < self->coupons_size)
__CPROVER_requires(verif_exc == 0 && coupon != hll_constants_EMPTY && g_i < self->coupons_size && g_old == self->coupons_[g_i] && g_written == 0 && g_promoted == 0 && g_grow_lg == 0 && g_checked == 0)
__CPROVER_assigns(verif_exc, self->couponCount_, g_w, g_written, g_promoted, g_grow_lg, g_present, g_slot_after, g_count_after, g_checked, g_nw, g_c, self->coupons_, self->coupons_size, __CPROVER_object_whole(self->coupons_))
/* a duplicate changes nothing: same object, no write, no growth, no promotion */
__CPROVER_ensures((verif_exc == 0 && !g_written) ==> (__CPROVER_return_value == self && self->couponCount_ == __CPROVER_old(self->couponCount_) && self->coupons_[g_i] == g_old && g_grow_lg == 0 && g_promoted == 0))
/* a new coupon is written into an EMPTY slot, exactly one slot changes, the count grows by one (state before the grow / promote decision) */
__CPROVER_ensures(g_written ==> (g_present && g_w < __CPROVER_old(self->coupons_size) && g_count_after == __CPROVER_old(self->couponCount_) + 1
    && (g_i == g_w ? (g_old == hll_constants_EMPTY && g_slot_after == coupon) : g_slot_after == g_old)))
/* promotion to HLL exactly when the load check says so */
__CPROVER_ensures((verif_exc == 0 && g_written) ==> (g_promoted == (((size_t)(4 * g_count_after) > 3 * __CPROVER_old(self->coupons_size) && __builtin_ctzll(__CPROVER_old(self->coupons_size)) == self->lgConfigK_ - 3) ? 2 : 0) && (g_promoted != 0 || __CPROVER_return_value == self)))
/* growth after the write keeps the set invariant and loses no coupon (g_c: the coupon of an arbitrary slot after the write) */
__CPROVER_ensures((verif_exc == 0 && g_written) ==> (SETINV(self) && (g_grow_lg != 0 ==> (self->coupons_size == 2 * __CPROVER_old(self->coupons_size) && (g_c != hll_constants_EMPTY ==> (g_nw < self->coupons_size && self->coupons_[g_nw] == g_c))))))
""",
}

UNIT = {
    "id": "hll_coupon_set_find", "property": "C03",
    "clause": "coupon hash set probe (find in CouponHashSet-internal.hpp): for every array size 2..2^26 and every content, the result is the index of a slot holding the coupon, or the "
              "complement of the index of an EMPTY slot; all reads stay inside the array, the array is never written, the stride is odd, and the home slot is honoured - the basis of "
              "'the set of distinct coupons' in SET mode",
    "consts": crules.HLL_CONSTS,
    "prelude": "",
    "parts": HELPERS + [find],
    "harness": r'''
void h_find(void) {
  uint8_t lg = nondet_u8(); uint32_t coupon = nondet_u32();
  __CPROVER_assume(lg >= 1 && lg <= 26);
  uint32_t* arr = malloc(sizeof(uint32_t) * ((size_t)1 << lg));
  verif_exc = 0;
  int32_t r = coupon_set_find(arr, lg, coupon);
  VERIF_CANARY_POINT;
}
''',
    "jobs": [{"name": "find", "entry": "h_find", "enforce": "coupon_set_find", "loops": True, "expect_loop_steps": 1, "timeout": 300}],
    "assumptions": ["set semantics over whole probe orbits (a coupon stored away from its home slot is found; no coupon is stored twice) are not decided: the contract is per call"],
}

UNIT2 = {
    "id": "hll_coupon_list_update", "property": "C03",
    "clause": "CouponList::couponUpdate for every list size and content: the coupon is in the list afterwards; a slot is written only if it was EMPTY and no earlier slot holds the coupon "
              "(distinct coupons, none twice); the count grows exactly with a write; every other slot is unchanged; promotion is requested exactly when the write filled the list "
              "(to HLL below lgConfigK 8, otherwise to a hash set)",
    "consts": crules.HLL_CONSTS,
    "prelude": PRELUDE2,
    "parts": HELPERS + [list_update],
    "harness": r"""
void h_list_update(void) {
  struct couponlist* s = malloc(sizeof(*s)); __CPROVER_assume(s != NULL); size_t n = nondet_size();
  __CPROVER_assume(n >= 1 && n <= ((size_t)1 << 26));
  s->coupons_ = malloc(sizeof(uint32_t) * n); __CPROVER_assume(s->coupons_ != NULL); s->coupons_size = n;
  verif_exc = 0;
  void* r = list_couponUpdate(s, nondet_u32());
  VERIF_CANARY_POINT;
}
""",
    "jobs": [{"name": "list_couponUpdate", "entry": "h_list_update", "enforce": "list_couponUpdate", "replace": ["promote_to_hll", "promote_to_set"], "loops": True, "expect_loop_steps": 1, "timeout": 300}],
    "assumptions": ["promoteHeapListOrSetToHll / promoteHeapListToSet enter by a frame contract (they build a new implementation object by replaying the coupons; the replay loop itself is not under contract)"],
}
UNIT3 = {
    "id": "hll_coupon_set_update", "property": "C03",
    "clause": "CouponHashSet::couponUpdate, checkGrowOrPromote and growHashSet (every coupon of the old array is in the new array of the requested size) for every array size 2..2^26 and content: a duplicate changes nothing; a new coupon goes into the EMPTY slot the probe "
              "returned, exactly that slot changes and the count grows by one; growth to twice the size is requested above the 3/4 load factor and promotion to HLL exactly when the array "
              "already has its maximum size 2^(lgConfigK-3)",
    "consts": crules.HLL_CONSTS,
    "prelude": PRELUDE3,
    "parts": [grow, check_grow, set_update],
    "harness": r"""
static struct couponlist* mk_set(void) {
  struct couponlist* s = malloc(sizeof(*s)); __CPROVER_assume(s != NULL); size_t n = nondet_size();
  __CPROVER_assume(POW2(n));
  s->coupons_ = malloc(sizeof(uint32_t) * n); __CPROVER_assume(s->coupons_ != NULL); s->coupons_size = n; return s;
}
void h_set_update(void) { struct couponlist* s = mk_set(); verif_exc = 0; void* r = set_couponUpdate(s, nondet_u32()); VERIF_CANARY_POINT; }
void h_grow(void) { struct couponlist* s = mk_set(); verif_exc = 0; growHashSet(s, nondet_u8()); VERIF_CANARY_POINT; }
void h_check_grow(void) { struct couponlist* s = mk_set(); verif_exc = 0; bool r = checkGrowOrPromote(s); VERIF_CANARY_POINT; }
""",
    "jobs": [{"name": "growHashSet", "entry": "h_grow", "enforce": "growHashSet", "replace": ["coupon_set_find"], "loops": True, "expect_loop_steps": 1, "timeout": 600},
             {"name": "checkGrowOrPromote", "entry": "h_check_grow", "enforce": "checkGrowOrPromote", "replace": ["growHashSet", "count_trailing_zeros_in_u32"], "timeout": 300},
             {"name": "set_couponUpdate", "entry": "h_set_update", "enforce": "set_couponUpdate", "replace": ["coupon_set_find", "checkGrowOrPromote", "promote_to_hll", "count_trailing_zeros_in_u32"], "timeout": 300}],
    "assumptions": ["promoteHeapListOrSetToHll enters by a frame contract", "growHashSet: the vector of zeros is calloc, the release of the old storage by the vector move assignment is not modelled; 'nothing extra in the new array' and the coupon count of the new array are not stated (only 'no coupon of the old array is lost')",
                    "coupon_set_find and count_trailing_zeros_in_u32 enter by the contracts proved in units hll_coupon_set_find and hll_coupon"],
}
UNITS = [UNIT, UNIT2, UNIT3]
