import crules
F = "hll/include/CouponHashSet-internal.hpp"

find = {
    "name": "find", "file": F,
    "match": r"static int32_t find\(const uint32_t\* array, uint8_t lgArrInts, uint32_t coupon\)",
    "sig": "int32_t coupon_set_find(const uint32_t* array, uint8_t lgArrInts, uint32_t coupon)",
    "throw_rv": "0", "nloops": 1,
    "inserts": [(r"const uint32_t stride = [^;]*;", '__CPROVER_assert((stride & 1) == 1, "probe stride is odd (the probe orbit covers the whole power-of-two array)");', "after", 1)],
    "contract": r'''
/* the coupon array of a set has 2^5 .. 2^(lgConfigK-3) slots; every size the arithmetic supports is covered */
__CPROVER_requires(lgArrInts >= 1 && lgArrInts <= 26 && verif_exc == 0)
__CPROVER_requires(__CPROVER_r_ok(array, ((size_t)1 << lgArrInts) * sizeof(uint32_t)))
__CPROVER_assigns(verif_exc)
/* found: the index of a slot that holds the coupon; not found: the complement of the index of an empty slot (the insertion point) */
__CPROVER_ensures((verif_exc == 0 && __CPROVER_return_value >= 0) ==> ((uint32_t)__CPROVER_return_value < ((uint32_t)1 << lgArrInts) && array[__CPROVER_return_value] == coupon && coupon != hll_constants_EMPTY))
__CPROVER_ensures((verif_exc == 0 && __CPROVER_return_value < 0) ==> ((uint32_t)~__CPROVER_return_value < ((uint32_t)1 << lgArrInts) && array[~__CPROVER_return_value] == hll_constants_EMPTY))
/* the home slot (low bits of the coupon) is probed first: a coupon stored there, or an empty home slot, is reported */
__CPROVER_ensures((coupon != hll_constants_EMPTY && array[coupon & (((uint32_t)1 << lgArrInts) - 1)] == coupon) ==> (verif_exc == 0 && __CPROVER_return_value == (int32_t)(coupon & (((uint32_t)1 << lgArrInts) - 1))))
__CPROVER_ensures(array[coupon & (((uint32_t)1 << lgArrInts) - 1)] == hll_constants_EMPTY ==> (verif_exc == 0 && __CPROVER_return_value == (int32_t)~(coupon & (((uint32_t)1 << lgArrInts) - 1))))
/* an arbitrary slot g_i holding the coupon while no slot is empty... (set semantics over whole probe orbits are not decided here); the search is refused only when the home slot is occupied by another coupon */
__CPROVER_ensures(verif_exc != 0 ==> (array[coupon & (((uint32_t)1 << lgArrInts) - 1)] != hll_constants_EMPTY && array[coupon & (((uint32_t)1 << lgArrInts) - 1)] != coupon))
''',
    "loops": {1: r'''
__CPROVER_assigns(probe)
__CPROVER_loop_invariant(probe <= arrMask && arrMask == ((uint32_t)1 << lgArrInts) - 1 && loopIndex == (coupon & arrMask))
'''},
}

UNIT = {
    "id": "hll_coupon_set_find", "property": "C03",
    "clause": "coupon hash set probe (find in CouponHashSet-internal.hpp): for every array size 2..2^26 and every content, the result is the index of a slot holding the coupon, or the "
              "complement of the index of an EMPTY slot; all reads stay inside the array, the array is never written, the stride is odd, and the home slot is honoured - the basis of "
              "'the set of distinct coupons' in SET mode",
    "consts": crules.HLL_CONSTS,
    "prelude": "",
    "parts": [find],
    "harness": r'''
void h_find(void) {
  uint8_t lg = nondet_u8(); uint32_t coupon = nondet_u32();
  __CPROVER_assume(lg >= 1 && lg <= 26);
  uint32_t* arr = malloc(sizeof(uint32_t) * ((size_t)1 << lg));
  verif_exc = 0;
  int32_t r = coupon_set_find(arr, lg, coupon);
  VERIF_CANARY_POINT;
}
''',
    "jobs": [{"name": "find", "entry": "h_find", "enforce": "coupon_set_find", "loops": True, "expect_loop_steps": 1, "timeout": 300}],
    "assumptions": ["set semantics over whole probe orbits (a coupon stored away from its home slot is found; no coupon is stored twice) are not decided: the contract is per call"],
}
