# emptiness is part of C03 as well: reuse the isEmpty contract job of the C04 merge unit
import importlib.util, os
_p = os.path.join(os.path.dirname(__file__), "..", "C04", "u01_merge.py")
_s = importlib.util.spec_from_file_location("c04_merge", _p); _m = importlib.util.module_from_spec(_s); _s.loader.exec_module(_m)
UNIT = dict(_m.UNIT, id="hll_isempty", property="C03", parts=[_m.isEmpty],
            clause="emptiness is reported correctly: isEmpty never reports an array with a non-zero register as empty (also while a KxQ/curMin rebuild is pending), "
                   "and never reports a valid array with curMin > 0 or fewer than k zero registers as empty",
            harness="void h_isEmpty(void) { const struct hllarr* s; hllarray_isEmpty(s); VERIF_CANARY_POINT; }\n",
            jobs=[j for j in _m.UNIT["jobs"] if j["name"] == "isEmpty"], assumptions=[])
