import crules
H4 = "hll/include/Hll4Array-internal.hpp"
H6 = "hll/include/Hll6Array-internal.hpp"
H8 = "hll/include/Hll8Array-internal.hpp"
HA = "hll/include/HllArray-internal.hpp"
M = crules.HLL_MEMBERS

PRELUDE = crules.HLL_STRUCT + r'''
#define LGK_OK(self) ((self)->lgConfigK_ >= 4 && (self)->lgConfigK_ <= 21)
#define K(self) ((uint32_t)1 << (self)->lgConfigK_)
#define BYTES4(self) ((uint32_t)1 << ((self)->lgConfigK_ - 1))
#define BYTES6(self) (((K(self) * 3) >> 2) + 1)
#define BYTES8(self) K(self)
#define WFARR(self, nbytes) (__CPROVER_is_fresh(self, sizeof(*self)) && LGK_OK(self) && __CPROVER_is_fresh((self)->hllByteArr_, nbytes))
/* specification of the packed register files (independent of the code under contract) */
#define SPEC_GET4(arr, s) (((s) & 1) ? ((arr)[(s) >> 1] >> 4) : ((arr)[(s) >> 1] & 0xf))
#define SPEC_GET6(arr, s) ((uint8_t)(((((uint32_t)(arr)[(((s) * 6) >> 3) + 1] << 8) | (arr)[((s) * 6) >> 3]) >> (((s) * 6) & 7)) & 0x3f))
uint32_t g_slot, g_other; uint8_t g_old_other, g_old_slot; uint8_t g_auxval;
uint32_t g_hip_calls; uint8_t g_hip_old, g_hip_new;
void hipAndKxQIncrementalUpdate(struct hllarr* self, uint8_t oldValue, uint8_t newValue)
  __CPROVER_assigns(g_hip_calls, g_hip_old, g_hip_new, self->hipAccum_, self->kxq0_, self->kxq1_)
  __CPROVER_ensures(g_hip_calls == __CPROVER_old(g_hip_calls) + 1 && g_hip_old == oldValue && g_hip_new == newValue);
uint32_t getLow26(uint32_t coupon) __CPROVER_assigns() __CPROVER_ensures(__CPROVER_return_value == (coupon & 0x3ffffff));
uint8_t getValue(uint32_t coupon) __CPROVER_assigns() __CPROVER_ensures(__CPROVER_return_value == (coupon >> 26));
'''

def meth(file, cls, name, ret, params, cparams, contract, **kw):
    d = {"name": kw.pop("cname", name), "file": file, "members": M,
         "match": r"%s %s<A>::%s\(%s\)" % (ret, cls, name, params),
         "sig": "%s %s(struct hllarr* self%s)" % (ret, kw.get("cname_sig", None) or (cls.lower() + "_" + name), (", " + cparams) if cparams else ""),
         "contract": contract}
    kw.pop("cname_sig", None)
    d["name"] = cls.lower() + "_" + name
    d.update(kw)
    return d

HUTIL = (r"HllUtil<A>::", "", "any")

# ---------------------------------------------------------------- sizes
def arrbytes(n, expr):
    return {"name": "hll%dArrBytes" % n, "file": HA, "match": r"uint32_t HllArray<A>::hll%dArrBytes\(uint8_t lgConfigK\)" % n,
            "sig": "uint32_t hll%dArrBytes(uint8_t lgConfigK)" % n,
            "contract": "__CPROVER_requires(lgConfigK >= 4 && lgConfigK <= 21) __CPROVER_assigns() __CPROVER_ensures(__CPROVER_return_value == %s)" % expr}
# 6-bit registers: slot s occupies bits [6s, 6s+6); the reader always loads two bytes, so one spare byte must exist: ceil(6k/8)+1 == 3k/4+1
b4 = arrbytes(4, "((uint32_t)1 << lgConfigK) / 2")
b6 = arrbytes(6, "(((uint32_t)1 << lgConfigK) * 6) / 8 + 1")
b8 = arrbytes(8, "((uint32_t)1 << lgConfigK)")

# ---------------------------------------------------------------- HLL_8
get8 = meth(H8, "Hll8Array", "getSlot", "uint8_t", "uint32_t slotNo", "uint32_t slotNo", r'''
__CPROVER_requires(WFARR(self, BYTES8(self)) && slotNo < K(self))
__CPROVER_assigns()
__CPROVER_ensures(__CPROVER_return_value == self->hllByteArr_[slotNo])
''')
put8 = meth(H8, "Hll8Array", "putSlot", "void", "uint32_t slotNo, uint8_t value", "uint32_t slotNo, uint8_t value", r'''
__CPROVER_requires(WFARR(self, BYTES8(self)) && slotNo < K(self) && g_other < K(self) && g_other != slotNo && g_old_other == self->hllByteArr_[g_other])
__CPROVER_assigns(__CPROVER_object_whole(self->hllByteArr_))
__CPROVER_ensures(self->hllByteArr_[slotNo] == value && self->hllByteArr_[g_other] == g_old_other)
''')
upd8 = meth(H8, "Hll8Array", "internalCouponUpdate", "void", "uint32_t coupon", "uint32_t coupon", r'''
__CPROVER_requires(WFARR(self, BYTES8(self)) && g_other < K(self) && g_old_other == self->hllByteArr_[g_other] && self->numAtCurMin_ <= K(self))
__CPROVER_requires(g_slot == ((coupon & 0x3ffffff) & (K(self) - 1)) && g_old_slot == self->hllByteArr_[g_slot])
__CPROVER_requires(g_old_slot == 0 ==> self->numAtCurMin_ >= 1)
__CPROVER_assigns(__CPROVER_object_whole(self->hllByteArr_), self->numAtCurMin_, g_hip_calls, g_hip_old, g_hip_new, self->hipAccum_, self->kxq0_, self->kxq1_)
/* the register addressed by the coupon becomes max(old, coupon value); every other register is untouched */
__CPROVER_ensures(self->hllByteArr_[g_slot] == ((coupon >> 26) > g_old_slot ? (coupon >> 26) : g_old_slot))
__CPROVER_ensures(g_other != g_slot ==> self->hllByteArr_[g_other] == g_old_other)
/* number of zero registers and the estimator registers are updated exactly when the register grows */
__CPROVER_ensures(self->numAtCurMin_ == __CPROVER_old(self->numAtCurMin_) - (((coupon >> 26) > g_old_slot && g_old_slot == 0) ? 1 : 0))
__CPROVER_ensures(g_hip_calls == __CPROVER_old(g_hip_calls) + ((coupon >> 26) > g_old_slot ? 1 : 0))
__CPROVER_ensures((coupon >> 26) > g_old_slot ==> (g_hip_old == g_old_slot && g_hip_new == (coupon >> 26)))
''', rules=[HUTIL], methods=["hipAndKxQIncrementalUpdate"])

# ---------------------------------------------------------------- HLL_6
get6 = meth(H6, "Hll6Array", "getSlot", "uint8_t", "uint32_t slotNo", "uint32_t slotNo", r'''
__CPROVER_requires(WFARR(self, BYTES6(self)) && slotNo < K(self))
__CPROVER_assigns()
__CPROVER_ensures(__CPROVER_return_value == SPEC_GET6(self->hllByteArr_, slotNo))
''')
put6 = meth(H6, "Hll6Array", "putSlot", "void", "uint32_t slotNo, uint8_t value", "uint32_t slotNo, uint8_t value", r'''
__CPROVER_requires(WFARR(self, BYTES6(self)) && slotNo < K(self) && g_other < K(self) && g_other != slotNo && g_old_other == SPEC_GET6(self->hllByteArr_, g_other))
__CPROVER_assigns(__CPROVER_object_whole(self->hllByteArr_))
__CPROVER_ensures(SPEC_GET6(self->hllByteArr_, slotNo) == (value & 0x3f) && SPEC_GET6(self->hllByteArr_, g_other) == g_old_other)
''')
upd6 = meth(H6, "Hll6Array", "internalCouponUpdate", "void", "uint32_t coupon", "uint32_t coupon", r'''
__CPROVER_requires(WFARR(self, BYTES6(self)) && g_other < K(self) && g_old_other == SPEC_GET6(self->hllByteArr_, g_other) && self->numAtCurMin_ <= K(self))
__CPROVER_requires(g_slot == ((coupon & 0x3ffffff) & (K(self) - 1)) && g_old_slot == SPEC_GET6(self->hllByteArr_, g_slot))
__CPROVER_requires(g_old_slot == 0 ==> self->numAtCurMin_ >= 1)
__CPROVER_assigns(__CPROVER_object_whole(self->hllByteArr_), self->numAtCurMin_, g_hip_calls, g_hip_old, g_hip_new, self->hipAccum_, self->kxq0_, self->kxq1_)
__CPROVER_ensures(SPEC_GET6(self->hllByteArr_, g_slot) == ((coupon >> 26) > g_old_slot ? (coupon >> 26) : g_old_slot))
__CPROVER_ensures(g_other != g_slot ==> SPEC_GET6(self->hllByteArr_, g_other) == g_old_other)
__CPROVER_ensures(self->numAtCurMin_ == __CPROVER_old(self->numAtCurMin_) - (((coupon >> 26) > g_old_slot && g_old_slot == 0) ? 1 : 0))
__CPROVER_ensures(g_hip_calls == __CPROVER_old(g_hip_calls) + ((coupon >> 26) > g_old_slot ? 1 : 0))
__CPROVER_ensures((coupon >> 26) > g_old_slot ==> (g_hip_old == g_old_slot && g_hip_new == (coupon >> 26)))
''', rules=[HUTIL, (r"(?<![\w>])getSlot\(", "hll6array_getSlot(self, ", 1), (r"(?<![\w>])putSlot\(", "hll6array_putSlot(self, ", 1)],
    methods=["hipAndKxQIncrementalUpdate"])

# ---------------------------------------------------------------- HLL_4 nibble file
get4 = meth(H4, "Hll4Array", "getSlot", "uint8_t", "uint32_t slotNo", "uint32_t slotNo", r'''
__CPROVER_requires(WFARR(self, BYTES4(self)) && slotNo < K(self))
__CPROVER_assigns()
__CPROVER_ensures(__CPROVER_return_value == SPEC_GET4(self->hllByteArr_, slotNo))
''')
put4 = meth(H4, "Hll4Array", "putSlot", "void", "uint32_t slotNo, uint8_t newValue", "uint32_t slotNo, uint8_t newValue", r'''
__CPROVER_requires(WFARR(self, BYTES4(self)) && slotNo < K(self) && g_other < K(self) && g_other != slotNo && g_old_other == SPEC_GET4(self->hllByteArr_, g_other))
__CPROVER_assigns(__CPROVER_object_whole(self->hllByteArr_))
__CPROVER_ensures(SPEC_GET4(self->hllByteArr_, slotNo) == (newValue & 0xf) && SPEC_GET4(self->hllByteArr_, g_other) == g_old_other)
''')

# the same nibble accessors against the shared byte-form contracts that other units use for replacement
get4b = dict(get4, name="hll4array_getSlot_b", sig="uint8_t hll4array_getSlot_b(struct hllarr* self, uint32_t slotNo)",
             contract="__CPROVER_requires(WFARR(self, BYTES4(self)))" + crules.HLL4_GET_CONTRACT)
put4b = dict(put4, name="hll4array_putSlot_b", sig="void hll4array_putSlot_b(struct hllarr* self, uint32_t slotNo, uint8_t newValue)",
             contract="__CPROVER_requires(WFARR(self, BYTES4(self)))" + crules.HLL4_PUT_CONTRACT)

def h(name, call):
    return "void h_%s(void) { struct hllarr* s; uint32_t a; uint8_t v; %s; VERIF_CANARY_POINT; }" % (name, call)

UNIT = {
    "id": "hll_arrays", "property": "C03",
    "clause": "register files for every lg_k 4..21 and every slot: 4-, 6- and 8-bit getSlot/putSlot read and write exactly the addressed register of the documented "
              "packing and no other (6-bit reader's second byte stays inside the 3k/4+1 bytes); HLL_6 and HLL_8 coupon update = per-slot max with exact "
              "zero-register count and estimator-register call",
    "consts": crules.HLL_CONSTS,
    "member_checks": [{"file": "hll/include/HllArray.hpp", "members": ["hipAccum_", "kxq0_", "kxq1_", "hllByteArr_", "curMin_", "numAtCurMin_", "oooFlag_", "rebuild_kxq_curmin_"]}],
    "prelude": PRELUDE,
    "parts": [b4, b6, b8, get8, put8, upd8, get6, put6, upd6, get4, put4, get4b, put4b],
    "harness": "\n".join([
        "void h_b4(void) { uint8_t l; hll4ArrBytes(l); VERIF_CANARY_POINT; }", "void h_b6(void) { uint8_t l; hll6ArrBytes(l); VERIF_CANARY_POINT; }",
        "void h_b8(void) { uint8_t l; hll8ArrBytes(l); VERIF_CANARY_POINT; }",
        h("get8", "hll8array_getSlot(s, a)"), h("put8", "hll8array_putSlot(s, a, v)"), h("upd8", "hll8array_internalCouponUpdate(s, a)"),
        h("get6", "hll6array_getSlot(s, a)"), h("put6", "hll6array_putSlot(s, a, v)"), h("upd6", "hll6array_internalCouponUpdate(s, a)"),
        h("get4", "hll4array_getSlot(s, a)"), h("put4", "hll4array_putSlot(s, a, v)"),
        h("get4b", "hll4array_getSlot_b(s, a)"), h("put4b", "hll4array_putSlot_b(s, a, v)")]),
    "jobs": [{"name": n, "entry": "h_" + n, "enforce": f, "replace": r, "timeout": 300} for n, f, r in [
        ("b4", "hll4ArrBytes", []), ("b6", "hll6ArrBytes", []), ("b8", "hll8ArrBytes", []),
        ("get8", "hll8array_getSlot", []), ("put8", "hll8array_putSlot", []),
        ("upd8", "hll8array_internalCouponUpdate", ["hipAndKxQIncrementalUpdate", "getLow26", "getValue"]),
        ("get6", "hll6array_getSlot", []), ("put6", "hll6array_putSlot", []),
        ("upd6", "hll6array_internalCouponUpdate", ["hipAndKxQIncrementalUpdate", "getLow26", "getValue"]),
        ("get4", "hll4array_getSlot", []), ("put4", "hll4array_putSlot", []),
        ("get4b", "hll4array_getSlot_b", []), ("put4b", "hll4array_putSlot_b", [])]],
    "assumptions": ["hipAndKxQIncrementalUpdate (floating-point estimator registers) is replaced by a call-recording contract",
                    "HLL_6 coupon update is verified with the real getSlot/putSlot bodies inlined (their own contracts are separate jobs)"],
}
