import crules
H4 = "hll/include/Hll4Array-internal.hpp"
M = crules.HLL_MEMBERS

PRELUDE = crules.HLL_STRUCT + r'''
#define LGK_OK(self) ((self)->lgConfigK_ >= 4 && (self)->lgConfigK_ <= 21)
#define K(self) ((uint32_t)1 << (self)->lgConfigK_)
#define BYTES4(self) ((uint32_t)1 << ((self)->lgConfigK_ - 1))
#define WFARR(self, nbytes) (__CPROVER_is_fresh(self, sizeof(*self)) && LGK_OK(self) && __CPROVER_is_fresh((self)->hllByteArr_, nbytes))
#define SPEC_GET4(arr, s) (((s) & 1) ? ((arr)[(s) >> 1] >> 4) : ((arr)[(s) >> 1] & 0xf))
struct auxmap { int dummy; };
uint32_t g_other; uint8_t g_old_other, g_raw; uint8_t g_auxval; uint8_t g_true_old;
uint32_t g_hip_calls; uint8_t g_hip_old, g_hip_new;
uint32_t g_find_calls, g_replace_calls, g_add_calls, g_new_calls; bool g_shifted; uint32_t g_aux_slot; uint8_t g_aux_val;
void hipAndKxQIncrementalUpdate(struct hllarr* self, uint8_t oldValue, uint8_t newValue)
  __CPROVER_assigns(g_hip_calls, g_hip_old, g_hip_new, self->hipAccum_, self->kxq0_, self->kxq1_)
  __CPROVER_ensures(g_hip_calls == __CPROVER_old(g_hip_calls) + 1 && g_hip_old == oldValue && g_hip_new == newValue);
uint32_t getLow26(uint32_t coupon) __CPROVER_assigns() __CPROVER_ensures(__CPROVER_return_value == (coupon & 0x3ffffff));
uint8_t getValue(uint32_t coupon) __CPROVER_assigns() __CPROVER_ensures(__CPROVER_return_value == (coupon >> 26));
/* the exception table, by contract: the value stored for the slot asked about is the ghost g_auxval; updates are recorded */
uint8_t aux_mustFindValueFor(struct auxmap* m, uint32_t slotNo)
  __CPROVER_requires(m != NULL) __CPROVER_assigns(g_find_calls) __CPROVER_ensures(g_find_calls == __CPROVER_old(g_find_calls) + 1 && __CPROVER_return_value == g_auxval);
void aux_mustReplace(struct auxmap* m, uint32_t slotNo, uint8_t value)
  __CPROVER_requires(m != NULL) __CPROVER_assigns(g_replace_calls, g_aux_slot, g_aux_val)
  __CPROVER_ensures(g_replace_calls == __CPROVER_old(g_replace_calls) + 1 && g_aux_slot == slotNo && g_aux_val == value);
void aux_mustAdd(struct auxmap* m, uint32_t slotNo, uint8_t value)
  __CPROVER_requires(m != NULL) __CPROVER_assigns(g_add_calls, g_aux_slot, g_aux_val)
  __CPROVER_ensures(g_add_calls == __CPROVER_old(g_add_calls) + 1 && g_aux_slot == slotNo && g_aux_val == value);
struct auxmap* aux_newAuxHashMap(uint8_t lgAuxArrInts, uint8_t lgConfigK)
  __CPROVER_assigns(g_new_calls) __CPROVER_ensures(g_new_calls == __CPROVER_old(g_new_calls) + 1 && __CPROVER_is_fresh(__CPROVER_return_value, sizeof(struct auxmap)));
void hll4array_shiftToBiggerCurMin_c(struct hllarr* self)
  __CPROVER_assigns(g_shifted, self->numAtCurMin_, self->curMin_, self->auxHashMap_, __CPROVER_object_whole(self->hllByteArr_))
  __CPROVER_ensures(g_shifted);
static const uint8_t hll_constants_LG_AUX_ARR_INTS[27] = {0};
'''

def meth(name, ret, params, cparams, contract, **kw):
    d = {"name": "hll4array_" + name, "file": H4, "members": M, "match": r"%s Hll4Array<A>::%s\(%s\)" % (ret, name, params),
         "sig": "%s hll4array_%s(struct hllarr* self%s)" % (ret, name, (", " + cparams) if cparams else ""), "contract": contract}
    d.update(kw)
    return d

HUTIL = (r"HllUtil<A>::", "", "any")
AUXR = [(r"(?:self->)?auxHashMap_->(mustFindValueFor|mustReplace|mustAdd)\(", r"aux_\1(self->auxHashMap_, ", None),
        (r"AuxHashMap<A>::newAuxHashMap\(([^;]*?),\s*self->getAllocator\(\)\)", r"aux_newAuxHashMap(\1)", "any")]
SLOTS = [(r"(?<![\w>])getSlot\(", "hll4array_getSlot(self, ", None), (r"(?<![\w>])putSlot\(", "hll4array_putSlot(self, ", "any")]

get4 = meth("getSlot", "uint8_t", "uint32_t slotNo", "uint32_t slotNo", crules.HLL4_GET_CONTRACT)
put4 = meth("putSlot", "void", "uint32_t slotNo, uint8_t newValue", "uint32_t slotNo, uint8_t newValue", crules.HLL4_PUT_CONTRACT)

adjust = meth("adjustRawValue", "uint8_t", "uint32_t slot, uint8_t value", "uint32_t slot, uint8_t value", r'''
__CPROVER_requires(__CPROVER_is_fresh(self, sizeof(*self)) && (value == 15 ==> __CPROVER_is_fresh(self->auxHashMap_, sizeof(struct auxmap))) && value <= 15 && self->curMin_ <= 48)
__CPROVER_assigns(g_find_calls)
/* the true register value: stored nibble + curMin, or the exception-table entry when the nibble is the AUX token */
__CPROVER_ensures(__CPROVER_return_value == (value != 15 ? value + self->curMin_ : g_auxval))
''', rules=AUXR[:1])

upd = meth("internalHll4Update", "void", "uint32_t slotNo, uint8_t newVal", "uint32_t slotNo, uint8_t newVal", r'''
__CPROVER_requires(WFARR(self, BYTES4(self)) && slotNo < K(self) && newVal >= 1 && newVal <= 63 && self->curMin_ <= 48)
__CPROVER_requires(self->auxHashMap_ == NULL || __CPROVER_is_fresh(self->auxHashMap_, sizeof(struct auxmap)))
__CPROVER_requires(g_other < K(self) && g_other != slotNo && g_old_other == SPEC_GET4(self->hllByteArr_, g_other))
__CPROVER_requires(g_raw == SPEC_GET4(self->hllByteArr_, slotNo) && (g_raw == 15 ==> self->auxHashMap_ != NULL))
/* representation invariant of the slot: an exception entry is >= curMin + 15; ghost true value of the slot */
__CPROVER_requires(g_auxval >= self->curMin_ + 15 && g_auxval <= 63 && g_true_old == (g_raw < 15 ? g_raw + self->curMin_ : g_auxval))
__CPROVER_requires(g_true_old == self->curMin_ ==> self->numAtCurMin_ >= 1)
__CPROVER_requires(!g_shifted && self->numAtCurMin_ >= 1 && g_hip_calls < 1000 && g_replace_calls < 1000 && g_add_calls < 1000 && g_find_calls < 1000 && g_new_calls < 1000)
__CPROVER_assigns(verif_exc, g_num_after, __CPROVER_object_whole(self->hllByteArr_), self->numAtCurMin_, self->curMin_, self->auxHashMap_, g_find_calls, g_replace_calls, g_add_calls,
                  g_shifted, g_new_calls, g_aux_slot, g_aux_val, g_hip_calls, g_hip_old, g_hip_new, self->hipAccum_, self->kxq0_, self->kxq1_)
/* no growth: nothing is written */
__CPROVER_ensures(newVal <= g_true_old ==> (SPEC_GET4(self->hllByteArr_, slotNo) == g_raw && g_replace_calls == __CPROVER_old(g_replace_calls) &&
     g_add_calls == __CPROVER_old(g_add_calls) && g_hip_calls == __CPROVER_old(g_hip_calls) && !g_shifted))
/* growth: the slot now represents exactly newVal - as a nibble relative to curMin, or as AUX token plus an exception entry (slot, newVal) */
__CPROVER_ensures((newVal > g_true_old && !g_shifted && newVal - __CPROVER_old(self->curMin_) < 15) ==>
     (SPEC_GET4(self->hllByteArr_, slotNo) == newVal - __CPROVER_old(self->curMin_) && g_replace_calls == __CPROVER_old(g_replace_calls) && g_add_calls == __CPROVER_old(g_add_calls)))
__CPROVER_ensures((newVal > g_true_old && !g_shifted && newVal - __CPROVER_old(self->curMin_) >= 15) ==>
     (SPEC_GET4(self->hllByteArr_, slotNo) == 15 && g_aux_slot == slotNo && g_aux_val == newVal &&
      g_replace_calls + g_add_calls == __CPROVER_old(g_replace_calls) + __CPROVER_old(g_add_calls) + 1 &&
      (g_raw == 15 ? g_replace_calls == __CPROVER_old(g_replace_calls) + 1 : g_add_calls == __CPROVER_old(g_add_calls) + 1)))
/* the estimator registers see exactly (true old value, new value) */
__CPROVER_ensures(newVal > g_true_old ==> (g_hip_calls == __CPROVER_old(g_hip_calls) + 1 && g_hip_old == g_true_old && g_hip_new == newVal))
/* other registers untouched unless curMin is shifted */
__CPROVER_ensures(!g_shifted ==> SPEC_GET4(self->hllByteArr_, g_other) == g_old_other)
/* count of registers at curMin decremented iff this one leaves curMin; curMin shifted exactly while that count is zero */
__CPROVER_ensures(!g_shifted ==> self->numAtCurMin_ == __CPROVER_old(self->numAtCurMin_) - ((newVal > g_true_old && g_true_old == __CPROVER_old(self->curMin_)) ? 1 : 0))
__CPROVER_ensures((!g_shifted) == !(newVal > g_true_old && g_true_old == __CPROVER_old(self->curMin_) && __CPROVER_old(self->numAtCurMin_) == 1))
__CPROVER_ensures(self->numAtCurMin_ != 0 || verif_exc != 0)
''', rules=[HUTIL] + AUXR + SLOTS + [(r"(?<![\w>])shiftToBiggerCurMin\(\)", "hll4array_shiftToBiggerCurMin_c(self)", 1)],
    methods=["hipAndKxQIncrementalUpdate"], propagate=["shiftToBiggerCurMin"], nloops=1,
    loops={1: r'''
__CPROVER_assigns(verif_exc, g_shifted, self->numAtCurMin_, self->curMin_, self->auxHashMap_, __CPROVER_object_whole(self->hllByteArr_))
__CPROVER_loop_invariant((g_shifted || self->numAtCurMin_ == g_num_after) && verif_exc == 0)
'''},
    inserts=[(r"--\(self->numAtCurMin_\);", "g_num_after = self->numAtCurMin_;", "after", 1)])

updc = meth("internalCouponUpdate", "void", "uint32_t coupon", "uint32_t coupon", r'''
__CPROVER_requires(__CPROVER_is_fresh(self, sizeof(*self)) && LGK_OK(self))
__CPROVER_assigns(g_upd_calls, g_upd_slot, g_upd_val)
/* a coupon whose value does not exceed curMin cannot raise any register; otherwise the register file update gets (slot = low bits of the address, value) */
__CPROVER_ensures((coupon >> 26) <= self->curMin_ ==> g_upd_calls == __CPROVER_old(g_upd_calls))
__CPROVER_ensures((coupon >> 26) > self->curMin_ ==> (g_upd_calls == __CPROVER_old(g_upd_calls) + 1 && g_upd_slot == ((coupon & 0x3ffffff) & (K(self) - 1)) && g_upd_val == (coupon >> 26)))
''', rules=[HUTIL, (r"(?<![\w>])internalHll4Update\(", "hll4array_internalHll4Update_c(self, ", 1)])

UNIT = {
    "id": "hll4_update", "property": "C03",
    "clause": "HLL_4 register update for every lg_k, slot, curMin and stored state: the true value of a slot is nibble + curMin or its exception-table entry; an update "
              "changes nothing unless the new value is larger, then stores it as nibble (value - curMin < 15) or as AUX token with exactly one exception entry "
              "(slot, value) (replace if the slot already was an exception, add otherwise); estimator registers get (true old, new); other registers untouched; "
              "count at curMin decremented iff the slot leaves curMin and curMin is shifted exactly while that count is zero",
    "consts": crules.HLL_CONSTS,
    "prelude": PRELUDE + "uint32_t g_shift0, g_num_after, g_upd_calls, g_upd_slot; uint8_t g_upd_val;\n"
               "void hll4array_internalHll4Update_c(struct hllarr* self, uint32_t slotNo, uint8_t newVal) __CPROVER_assigns(g_upd_calls, g_upd_slot, g_upd_val)"
               " __CPROVER_ensures(g_upd_calls == __CPROVER_old(g_upd_calls) + 1 && g_upd_slot == slotNo && g_upd_val == newVal);\n",
    "parts": [get4, put4, adjust, upd, updc],
    "harness": r'''
void h_adjust(void) { struct hllarr* s; uint32_t a; uint8_t v; hll4array_adjustRawValue(s, a, v); VERIF_CANARY_POINT; }
void h_upd(void) { struct hllarr* s; uint32_t a; uint8_t v; verif_exc = 0; hll4array_internalHll4Update(s, a, v); VERIF_CANARY_POINT; }
void h_updc(void) { struct hllarr* s; uint32_t c; hll4array_internalCouponUpdate(s, c); VERIF_CANARY_POINT; }
''',
    "jobs": [
        {"name": "adjustRawValue", "entry": "h_adjust", "enforce": "hll4array_adjustRawValue", "replace": ["aux_mustFindValueFor"]},
        {"name": "internalHll4Update", "entry": "h_upd", "enforce": "hll4array_internalHll4Update", "loops": True, "expect_loop_steps": 1, "timeout": 600, "object_bits": 12,
         "replace": ["hll4array_getSlot", "hll4array_putSlot", "aux_mustFindValueFor", "aux_mustReplace", "aux_mustAdd", "aux_newAuxHashMap",
                     "hll4array_shiftToBiggerCurMin_c", "hipAndKxQIncrementalUpdate"]},
        {"name": "internalCouponUpdate", "entry": "h_updc", "enforce": "hll4array_internalCouponUpdate", "replace": ["getLow26", "getValue", "hll4array_internalHll4Update_c"]},
    ],
    "assumptions": ["AuxHashMap operations are replaced by recording contracts (the exception table's own lookup/insert contracts are a separate unit)",
                    "shiftToBiggerCurMin is replaced by a counting contract here; termination of the 'while numAtCurMin == 0' loop is not proved (no decreases clause)",
                    "getSlot/putSlot are replaced by their nibble contracts (proved in unit hll_arrays)"],
}
