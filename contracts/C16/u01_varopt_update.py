import varopt_common as V
F, M, VO = V.F, V.MEMBERS, V.VO

PRELUDE = V.PRELUDE + r'''
#define A8(n) ((size_t)(n) * 8)
/* arrays of the sketch: exactly curr_items_alloc_ slots each (marks_ only in union gadgets) */
#define VO_FRESH(s) ((s)->curr_items_alloc_ <= KMAX + 1 && __CPROVER_is_fresh((s)->data_, A8((s)->curr_items_alloc_)) && __CPROVER_is_fresh((s)->weights_, A8((s)->curr_items_alloc_)) && \
                     ((s)->marks_ == NULL || __CPROVER_is_fresh((s)->marks_, (s)->curr_items_alloc_)))
#define VO_ASSIGNS(s) __CPROVER_object_whole((s)->data_), __CPROVER_object_whole((s)->weights_); (s)->marks_ != NULL: __CPROVER_object_whole((s)->marks_)
#define KMAX ((uint32_t)1 << 27)
#define U64(x) ((uint64_t)(x))
/* FP division kept uninterpreted: the contracts only need 'the same quotient of the same operands' */
double __CPROVER_uninterpreted_fdiv(double, double);
#define FDIV(a, b) __CPROVER_uninterpreted_fdiv((double)(a), (double)(b))
/* estimation mode between updates: heap H of h items, empty middle region, reservoir R of r items, one gap slot: k + 1 slots */
#define EST(s) ((s)->r_ >= 1 && (s)->m_ == 0 && U64((s)->h_) + (s)->r_ == (s)->k_ && (s)->curr_items_alloc_ == (s)->k_ + 1 && (s)->k_ >= 1 && (s)->k_ <= KMAX)
/* exact (warm-up) mode: the first h <= k items, all kept */
#define WARM(s) ((s)->r_ == 0 && (s)->m_ == 0 && (s)->h_ <= (s)->k_ && (s)->h_ <= (s)->curr_items_alloc_ && (s)->curr_items_alloc_ >= 1 && (s)->curr_items_alloc_ <= (s)->k_ + 1 && \
                 (s)->curr_items_alloc_ != (s)->k_ && ((s)->rf_ > 0 || (s)->curr_items_alloc_ == (s)->k_ + 1) && (s)->rf_ <= 3 && (s)->k_ >= 1 && (s)->k_ <= KMAX)
/* TRUSTED (std::uniform_int_distribution(0, max_value - 1) / random_utils::next_double): range only, value adversarial */
uint32_t next_int(uint32_t max_value) __CPROVER_requires(max_value >= 1) __CPROVER_assigns() __CPROVER_ensures(__CPROVER_return_value < max_value);
double next_double_exclude_zero(void) __CPROVER_assigns() __CPROVER_ensures(__CPROVER_return_value > 0.0 && __CPROVER_return_value < 1.0);
'''
BASE = "__CPROVER_requires(__CPROVER_is_fresh(self, sizeof(*self)) && VO_FRESH(self))\n"
import crules
FDIV_RULE = [(crules.div_to_uf(), "every binary / -> FDIV(left, right)", "any")]
ITEM = [(r"std::forward<O>\(item\)", "item", "any")]
NEWITEM = [(r"new \(&self->data_\[([^\]]*)\]\) T\(item\);", r"self->data_[\1] = item;", "any")]

def fn(name, params, csig, contract, **kw):
    d = {"name": name, "file": F, "members": M, "match": r"%s %s::%s\(%s\)(?: const)?" % (kw.pop("ret", "void"), VO, name, params), "sig": csig, "contract": contract}
    d.update(kw)
    return d

peek_min = fn("peek_min", "", "double peek_min(const struct varopt* self)", BASE + r'''
__CPROVER_requires(self->curr_items_alloc_ >= 1)
__CPROVER_assigns(verif_exc)
__CPROVER_ensures((verif_exc != 0) == (self->h_ == 0))
__CPROVER_ensures((verif_exc == 0 && self->weights_[0] == self->weights_[0]) ==> __CPROVER_return_value == self->weights_[0])
''', ret="double", throw_rv="0.0")
get_tau = fn("get_tau", "", "double get_tau(const struct varopt* self)", r'''
__CPROVER_requires(__CPROVER_is_fresh(self, sizeof(*self)) && self->r_ >= 1)
__CPROVER_assigns()
__CPROVER_ensures((self->total_wt_r_ == self->total_wt_r_) ==> (__CPROVER_return_value == FDIV(self->total_wt_r_, self->r_) || FDIV(self->total_wt_r_, self->r_) != FDIV(self->total_wt_r_, self->r_)))
''', ret="double", rules=[(r'std::nan\("1"\)', "NAN", 1)] + FDIV_RULE)
is_marked = fn("is_marked", "uint32_t idx", "bool is_marked(const struct varopt* self, uint32_t idx)", BASE + r'''
__CPROVER_requires(idx < self->curr_items_alloc_)
__CPROVER_assigns()
__CPROVER_ensures(self->marks_ == NULL ==> !__CPROVER_return_value)
''', ret="inline bool")
swap_values = fn("swap_values", "uint32_t src, uint32_t dst", "void swap_values(struct varopt* self, uint32_t src, uint32_t dst)", BASE + r'''
__CPROVER_requires(src < self->curr_items_alloc_ && dst < self->curr_items_alloc_)
__CPROVER_assigns(VO_ASSIGNS(self))
/* exchanges the two slots (item, and its weight and mark with it) */
__CPROVER_ensures(self->data_[src] == __CPROVER_old(self->data_[dst]) && self->data_[dst] == __CPROVER_old(self->data_[src]))
''', rules=[(r"std::swap\(([^,()]+),\s*([^()]+)\);", r"{ __typeof__(\1) swap_tmp_ = \1; \1 = \2; \2 = swap_tmp_; }", "any")])

HEAPFRAME = r'''
__CPROVER_assigns(verif_exc, VO_ASSIGNS(self))
'''
restore_towards_leaves = fn("restore_towards_leaves", "uint32_t slot_in", "void restore_towards_leaves(struct varopt* self, uint32_t slot_in)", BASE + r'''
__CPROVER_requires(self->h_ <= self->curr_items_alloc_ && self->curr_items_alloc_ <= KMAX + 1 && verif_exc == 0)
''' + HEAPFRAME + r'''
__CPROVER_ensures((verif_exc != 0) == (self->h_ == 0 || slot_in > self->h_ - 1))
''', propagate=[], nloops=1, loops={1: r'''
__CPROVER_assigns(slot, child, VO_ASSIGNS(self))
__CPROVER_loop_invariant(slot <= last_slot && child == 2 * slot + 1)
__CPROVER_decreases(last_slot - slot)
'''}, methods=["swap_values"])
restore_towards_root = fn("restore_towards_root", "uint32_t slot_in", "void restore_towards_root(struct varopt* self, uint32_t slot_in)", BASE + r'''
__CPROVER_requires(slot_in < self->curr_items_alloc_)
__CPROVER_assigns(VO_ASSIGNS(self))
''', nloops=1, loops={1: r'''
__CPROVER_assigns(slot, p, VO_ASSIGNS(self))
__CPROVER_loop_invariant(slot <= slot_in && (slot > 0 ==> p == ((slot + 1) / 2) - 1))
__CPROVER_decreases(slot)
'''}, methods=["swap_values"])
convert_to_heap = fn("convert_to_heap", "", "void convert_to_heap(struct varopt* self)", BASE + r'''
__CPROVER_requires(self->h_ <= self->curr_items_alloc_ && self->curr_items_alloc_ <= KMAX + 1 && verif_exc == 0)
''' + HEAPFRAME + r'''
__CPROVER_ensures(verif_exc == 0)
''', nloops=1, loops={1: r'''
__CPROVER_assigns(j, verif_exc, VO_ASSIGNS(self))
__CPROVER_loop_invariant(j >= -1 && j <= last_non_leaf && verif_exc == 0)
__CPROVER_decreases(j + 1)
'''}, methods=["restore_towards_leaves"], propagate=["restore_towards_leaves"])

push = fn("push", "O&& item, double wt, bool mark", "void push(struct varopt* self, T item, double wt, bool mark)", BASE + r'''
__CPROVER_requires(self->h_ < self->curr_items_alloc_)
__CPROVER_assigns(self->h_, self->filled_data_, self->num_marks_in_h_, VO_ASSIGNS(self))
__CPROVER_ensures(self->h_ == __CPROVER_old(self->h_) + 1)
''', pre_rules=ITEM + [(r"if \(&data_\[h_\] != &item\)\s*", "", 1)], rules=NEWITEM, methods=["restore_towards_root"])

pop_min = fn("pop_min_to_m_region", "", "void pop_min_to_m_region(struct varopt* self)", BASE + r'''
__CPROVER_requires(self->h_ >= 1 && (uint64_t)self->h_ + self->m_ + self->r_ == (uint64_t)self->k_ + 1 && self->curr_items_alloc_ == self->k_ + 1 && self->k_ <= KMAX && verif_exc == 0)
__CPROVER_assigns(verif_exc, self->h_, self->m_, self->num_marks_in_h_, VO_ASSIGNS(self))
/* the lightest heap item becomes the leftmost item of the middle region */
__CPROVER_ensures(verif_exc == 0 && self->h_ == __CPROVER_old(self->h_) - 1 && self->m_ == __CPROVER_old(self->m_) + 1)
''', methods=["swap_values", "restore_towards_leaves", "is_marked"], propagate=["restore_towards_leaves"])

pick_random = fn("pick_random_slot_in_r", "", "uint32_t pick_random_slot_in_r(const struct varopt* self)", r'''
__CPROVER_requires(__CPROVER_is_fresh(self, sizeof(*self)) && self->r_ >= 1 && (uint64_t)self->h_ + self->m_ + self->r_ <= (uint64_t)KMAX + 1)
__CPROVER_assigns(verif_exc)
/* a slot of the reservoir region */
__CPROVER_ensures(verif_exc == __CPROVER_old(verif_exc) && __CPROVER_return_value >= self->h_ + self->m_ && __CPROVER_return_value < self->h_ + self->m_ + self->r_)
''', ret="uint32_t", throw_rv="0")
choose_weighted = fn("choose_weighted_delete_slot", "double wt_cands, uint32_t num_cands", "uint32_t choose_weighted_delete_slot(const struct varopt* self, double wt_cands, uint32_t num_cands)", BASE + r'''
__CPROVER_requires(self->m_ >= 1 && (uint64_t)self->h_ + self->m_ <= self->curr_items_alloc_ && self->curr_items_alloc_ <= KMAX + 1)
__CPROVER_assigns(verif_exc)
/* a slot of the middle region, or the first reservoir slot meaning "delete from R" */
__CPROVER_ensures(verif_exc == __CPROVER_old(verif_exc) && __CPROVER_return_value >= self->h_ && __CPROVER_return_value <= self->h_ + self->m_)
''', ret="uint32_t", throw_rv="0", nloops=1, loops={1: r'''
__CPROVER_assigns(i, left_subtotal, right_subtotal)
__CPROVER_loop_invariant(i >= offset && i <= final_m + 1)
__CPROVER_decreases(final_m + 1 - i)
'''})
choose_delete = fn("choose_delete_slot", "double wt_cands, uint32_t num_cands", "uint32_t choose_delete_slot(const struct varopt* self, double wt_cands, uint32_t num_cands)", BASE + r'''
__CPROVER_requires(self->r_ >= 1 && (uint64_t)self->h_ + self->m_ + self->r_ == (uint64_t)self->k_ + 1 && self->curr_items_alloc_ == self->k_ + 1 && self->k_ <= KMAX && verif_exc == 0)
__CPROVER_assigns(verif_exc)
/* the slot to drop is one of the candidates: middle or reservoir region */
__CPROVER_ensures(verif_exc == 0 && __CPROVER_return_value >= self->h_ && __CPROVER_return_value <= self->k_)
__CPROVER_ensures(self->m_ == 0 ==> __CPROVER_return_value >= self->h_)
''', ret="uint32_t", throw_rv="0", methods=["pick_random_slot_in_r", "choose_weighted_delete_slot"])

downsample = fn("downsample_candidate_set", "double wt_cands, uint32_t num_cands", "void downsample_candidate_set(struct varopt* self, double wt_cands, uint32_t num_cands)", BASE + r'''
__CPROVER_requires(num_cands >= 2 && (uint64_t)self->h_ + num_cands == (uint64_t)self->k_ + 1 && U64(self->m_) + self->r_ == num_cands && self->r_ >= 1)
__CPROVER_requires(self->curr_items_alloc_ == self->k_ + 1 && self->k_ <= KMAX && verif_exc == 0)
__CPROVER_assigns(verif_exc, self->m_, self->r_, self->total_wt_r_, VO_ASSIGNS(self))
/* one candidate is dropped: the others form the reservoir, which carries the candidates' whole weight */
__CPROVER_ensures(verif_exc == 0 && self->m_ == 0 && self->r_ == num_cands - 1 && U64(self->h_) + self->r_ == self->k_)
__CPROVER_ensures((wt_cands == wt_cands) ==> self->total_wt_r_ == wt_cands)
''', methods=["choose_delete_slot"], propagate=["choose_delete_slot"], nloops=1, loops={1: r'''
__CPROVER_assigns(j, __CPROVER_object_whole(self->weights_))
__CPROVER_loop_invariant(j >= leftmost_cand_slot && j <= stop_idx)
__CPROVER_decreases(stop_idx - j)
'''}, rules=[(r"std::move\(self->data_\[leftmost_cand_slot\]\)", "self->data_[leftmost_cand_slot]", 1)])

grow_cands = fn("grow_candidate_set", "double wt_cands, uint32_t num_cands", "void grow_candidate_set(struct varopt* self, double wt_cands, uint32_t num_cands)", BASE + r'''
__CPROVER_requires((uint64_t)self->h_ + self->m_ + self->r_ == (uint64_t)self->k_ + 1 && num_cands >= 2 && num_cands == U64(self->m_) + self->r_ && self->m_ < 2 && self->r_ >= 1)
__CPROVER_requires(self->curr_items_alloc_ == self->k_ + 1 && self->k_ <= KMAX && verif_exc == 0)
__CPROVER_assigns(verif_exc, self->h_, self->m_, self->r_, self->total_wt_r_, self->num_marks_in_h_, VO_ASSIGNS(self))
/* ends in estimation mode with no middle region: k items kept, at least the candidates minus one in the reservoir, the heap never grows */
__CPROVER_ensures(verif_exc == 0 && self->m_ == 0 && U64(self->h_) + self->r_ == self->k_ && self->r_ >= num_cands - 1 && self->h_ <= __CPROVER_old(self->h_))
''', methods=["peek_min", "pop_min_to_m_region", "downsample_candidate_set"], propagate=["peek_min", "pop_min_to_m_region", "downsample_candidate_set"], nloops=1, loops={1: r'''
__CPROVER_assigns(verif_exc, wt_cands, num_cands, self->h_, self->m_, self->num_marks_in_h_, VO_ASSIGNS(self))
__CPROVER_loop_invariant((uint64_t)self->h_ + self->m_ + self->r_ == (uint64_t)self->k_ + 1 && num_cands == U64(self->m_) + self->r_ && num_cands >= 2 && verif_exc == 0)
__CPROVER_loop_invariant(self->h_ <= __CPROVER_loop_entry(self->h_) && num_cands >= __CPROVER_loop_entry(num_cands))
__CPROVER_decreases(self->h_)
'''})

transition = fn("transition_from_warmup", "", "void transition_from_warmup(struct varopt* self)", BASE + r'''
__CPROVER_requires(self->h_ == self->k_ + 1 && self->m_ == 0 && self->r_ == 0 && self->curr_items_alloc_ == self->k_ + 1 && self->k_ >= 1 && self->k_ <= KMAX && verif_exc == 0)
__CPROVER_assigns(verif_exc, self->h_, self->m_, self->r_, self->total_wt_r_, self->num_marks_in_h_, VO_ASSIGNS(self))
/* from k + 1 exact items to estimation mode with k items kept */
__CPROVER_ensures(verif_exc == 0 && EST(self))
''', methods=["convert_to_heap", "pop_min_to_m_region", "grow_candidate_set"], propagate=["convert_to_heap", "pop_min_to_m_region", "grow_candidate_set"])

warmup = fn("update_warmup_phase", "O&& item, double weight, bool mark", "void update_warmup_phase(struct varopt* self, T item, double weight, bool mark)", BASE + r'''
__CPROVER_requires(WARM(self) && verif_exc == 0 && g_live >= 3 && g_live < 1000)
__CPROVER_assigns(verif_exc, g_live, self->h_, self->m_, self->r_, self->total_wt_r_, self->num_marks_in_h_, self->filled_data_, self->curr_items_alloc_, self->data_, self->weights_, self->marks_, VO_ASSIGNS(self))
__CPROVER_frees(self->data_, self->weights_, self->marks_)
/* the item is kept; the (k+1)-th item switches the sketch to estimation mode */
__CPROVER_ensures(verif_exc == 0)
__CPROVER_ensures(__CPROVER_old(self->h_) < self->k_ ==> (WARM(self) && self->h_ == __CPROVER_old(self->h_) + 1))
__CPROVER_ensures(__CPROVER_old(self->h_) == self->k_ ==> EST(self))
''', pre_rules=ITEM, rules=NEWITEM, methods=["grow_data_arrays", "transition_from_warmup"], propagate=["transition_from_warmup"])

LIGHT_PRE = "__CPROVER_requires(weight < FDIV(weight + self->total_wt_r_, self->r_))   /* the new item is lighter than the threshold the candidates R + item would have */\n"
EST_POST = r'''
__CPROVER_assigns(verif_exc, self->h_, self->m_, self->r_, self->total_wt_r_, self->num_marks_in_h_, self->filled_data_, VO_ASSIGNS(self))
__CPROVER_ensures(verif_exc == 0 && EST(self))
'''
light = fn("update_light", "O&& item, double weight, bool mark", "void update_light(struct varopt* self, T item, double weight, bool mark)", BASE +
           "__CPROVER_requires(EST(self) && verif_exc == 0)\n" + LIGHT_PRE + EST_POST,
           pre_rules=ITEM + [(r"if \(&data_\[m_slot\] != &item\)\s*", "", 1)], rules=NEWITEM, methods=["grow_candidate_set"], propagate=["grow_candidate_set"])
heavy_general = fn("update_heavy_general", "O&& item, double weight, bool mark", "void update_heavy_general(struct varopt* self, T item, double weight, bool mark)", BASE +
                   "__CPROVER_requires(EST(self) && self->r_ >= 2 && verif_exc == 0)\n" + EST_POST,
                   pre_rules=ITEM, methods=["push", "grow_candidate_set"], propagate=["grow_candidate_set"])
heavy_r1 = fn("update_heavy_r_eq1", "O&& item, double weight, bool mark", "void update_heavy_r_eq1(struct varopt* self, T item, double weight, bool mark)", BASE +
              "__CPROVER_requires(EST(self) && self->r_ == 1 && verif_exc == 0)\n" + EST_POST,
              pre_rules=ITEM, methods=["push", "pop_min_to_m_region", "grow_candidate_set"], propagate=["pop_min_to_m_region", "grow_candidate_set"])

update = fn("update", "O&& item, double weight, bool mark", "void update(struct varopt* self, T item, double weight, bool mark)", BASE + r'''
__CPROVER_requires((WARM(self) && self->n_ == self->h_) || (EST(self) && self->n_ > self->k_ && self->n_ < UINT64_MAX))
__CPROVER_requires(verif_exc == 0 && g_live >= 3 && g_live < 1000)
__CPROVER_assigns(verif_exc, g_live, self->n_, self->h_, self->m_, self->r_, self->total_wt_r_, self->num_marks_in_h_, self->filled_data_, self->curr_items_alloc_, self->data_, self->weights_, self->marks_, VO_ASSIGNS(self))
__CPROVER_frees(self->data_, self->weights_, self->marks_)
/* negative, NaN and infinite weights are refused; a zero weight is ignored */
__CPROVER_ensures((weight < 0.0 || weight != weight || weight - weight != 0.0) ==> (verif_exc != 0 && self->n_ == __CPROVER_old(self->n_)))
__CPROVER_ensures(weight == 0.0 ==> (verif_exc == 0 && self->n_ == __CPROVER_old(self->n_) && self->h_ == __CPROVER_old(self->h_) && self->r_ == __CPROVER_old(self->r_)))
/* an accepted item: n counts it, and the sketch again holds exactly min(n, k) items: all of them while n <= k, then k split into heap and reservoir */
__CPROVER_ensures((verif_exc == 0 && weight > 0.0) ==> (self->n_ == __CPROVER_old(self->n_) + 1 && self->m_ == 0 &&
                   (uint64_t)self->h_ + self->r_ == (self->n_ <= self->k_ ? self->n_ : (uint64_t)self->k_) && ((WARM(self) && self->n_ == self->h_) || (EST(self) && self->n_ > self->k_))))
/* the only other refusal: a stored heap item lighter than the reservoir threshold (state corrupted beforehand) */
__CPROVER_ensures((verif_exc != 0 && weight > 0.0 && weight - weight == 0.0) ==> (__CPROVER_old(self->r_) >= 1 && __CPROVER_old(self->h_) != 0))
''', pre_rules=ITEM, rules=FDIV_RULE,
    methods=["update_warmup_phase", "update_light", "update_heavy_r_eq1", "update_heavy_general", "peek_min", "get_tau"], propagate=["update_warmup_phase", "update_light", "update_heavy_r_eq1", "update_heavy_general"])

def H(name, call):
    return "void h_%s(void) { struct varopt* s = malloc(sizeof(*s)); verif_exc = 0; %s; VERIF_CANARY_POINT; }\n" % (name, call)
HARNESS = (H("peek_min", "(void)peek_min(s)") + H("get_tau", "(void)get_tau(s)") + H("is_marked", "(void)is_marked(s, nondet_u32())") + H("swap_values", "swap_values(s, nondet_u32(), nondet_u32())")
           + H("rtl", "restore_towards_leaves(s, nondet_u32())") + H("rtr", "restore_towards_root(s, nondet_u32())") + H("cth", "convert_to_heap(s)")
           + H("push", "push(s, nondet_u64(), nondet_double(), nondet_bool())") + H("pop", "pop_min_to_m_region(s)") + H("pick", "(void)pick_random_slot_in_r(s)")
           + H("cw", "(void)choose_weighted_delete_slot(s, nondet_double(), nondet_u32())") + H("cd", "(void)choose_delete_slot(s, nondet_double(), nondet_u32())")
           + H("down", "downsample_candidate_set(s, nondet_double(), nondet_u32())") + H("grow", "grow_candidate_set(s, nondet_double(), nondet_u32())")
           + H("trans", "transition_from_warmup(s)") + H("warm", "update_warmup_phase(s, nondet_u64(), nondet_double(), nondet_bool())")
           + H("light", "update_light(s, nondet_u64(), nondet_double(), nondet_bool())") + H("hg", "update_heavy_general(s, nondet_u64(), nondet_double(), nondet_bool())")
           + H("hr1", "update_heavy_r_eq1(s, nondet_u64(), nondet_double(), nondet_bool())") + H("update", "update(s, nondet_u64(), nondet_double(), nondet_bool())"))

def J(name, entry, enforce, replace=(), loops=0, timeout=600):
    j = {"name": name, "entry": "h_" + entry, "enforce": enforce, "timeout": timeout}
    if replace:
        j["replace"] = list(replace)
    if loops:
        j["loops"] = True; j["expect_loop_steps"] = loops
    return j

UNIT = {
    "id": "varopt_update", "property": "C16",
    "clause": "var_opt_sketch::update and everything below it (warm-up, light, heavy r==1, heavy general, push/pop on the heap, grow and downsample of the candidate set, choice of the "
              "slot to delete): n counts every accepted item, invalid weights are refused and zero weights ignored, the sketch holds exactly min(n, k) items split as h + r with an empty middle "
              "region between updates, the deleted slot is always one of the candidates, the reservoir carries the candidates' weight as the code summed it, the light path is entered only "
              "for an item lighter than the threshold of R + item, and every array index stays inside the k + 1 slots",
    "prelude": PRELUDE,
    "parts": [V.get_adjusted_size, V.grow_data_arrays, peek_min, get_tau, is_marked, swap_values, restore_towards_leaves, restore_towards_root, convert_to_heap, push, pop_min, pick_random,
              choose_weighted, choose_delete, downsample, grow_cands, transition, warmup, light, heavy_general, heavy_r1, update],
    "harness": HARNESS,
    "jobs": [J("peek_min", "peek_min", "peek_min"), J("get_tau", "get_tau", "get_tau"), J("is_marked", "is_marked", "is_marked"), J("swap_values", "swap_values", "swap_values"),
             J("restore_towards_leaves", "rtl", "restore_towards_leaves", ["swap_values"], 1), J("restore_towards_root", "rtr", "restore_towards_root", ["swap_values"], 1),
             J("convert_to_heap", "cth", "convert_to_heap", ["restore_towards_leaves"], 1), J("push", "push", "push", ["restore_towards_root"]),
             J("pop_min_to_m_region", "pop", "pop_min_to_m_region", ["swap_values", "restore_towards_leaves", "is_marked"]),
             J("pick_random_slot_in_r", "pick", "pick_random_slot_in_r", ["next_int"]), J("choose_weighted_delete_slot", "cw", "choose_weighted_delete_slot", ["next_double_exclude_zero"], 1),
             J("choose_delete_slot", "cd", "choose_delete_slot", ["pick_random_slot_in_r", "choose_weighted_delete_slot", "next_double_exclude_zero"]),
             J("downsample_candidate_set", "down", "downsample_candidate_set", ["choose_delete_slot"], 1),
             J("grow_candidate_set", "grow", "grow_candidate_set", ["peek_min", "pop_min_to_m_region", "downsample_candidate_set"], 1),
             J("transition_from_warmup", "trans", "transition_from_warmup", ["convert_to_heap", "pop_min_to_m_region", "grow_candidate_set"]),
             J("update_warmup_phase", "warm", "update_warmup_phase", ["get_adjusted_size", "transition_from_warmup"], 2),
             J("update_light", "light", "update_light", ["grow_candidate_set"]), J("update_heavy_general", "hg", "update_heavy_general", ["push", "grow_candidate_set"]),
             J("update_heavy_r_eq1", "hr1", "update_heavy_r_eq1", ["push", "pop_min_to_m_region", "grow_candidate_set"]),
             J("update", "update", "update", ["update_warmup_phase", "update_light", "update_heavy_r_eq1", "update_heavy_general", "peek_min", "get_tau"])],
    "assumptions": V.ALLOC_ASSUMPTIONS + ["k <= 2^27 (KMAX) in the state predicates", "next_int / next_double_exclude_zero: range only (trusted std::uniform_int_distribution, random_utils)",
                    "item parameter O&& taken by value (T = uint64_t): the self-assignment guard '&data_[slot] != &item' is dropped",
                    "heap order of H (weights_[parent] <= weights_[child]) is not part of these contracts: restore_towards_leaves/root are proved for index safety, frame and termination only"],
}


# ---------------------------------------------------------------- heap order of H: bounded stand-in (8 slots)
HEAP_HARNESS = r"""
#define NS 8
static bool ordered(const struct varopt* s) { for (uint32_t j = 1; j < NS; j++) if (j < s->h_ && !(s->weights_[(j - 1) / 2] <= s->weights_[j])) return 0; return 1; }
static bool all_ge(const struct varopt* s, double x) { for (uint32_t j = 0; j < NS; j++) if (j < s->h_ && !(x <= s->weights_[j])) return 0; return 1; }
static void mk(struct varopt* s, T* d, double* w, bool* mk_) {
  s->data_ = d; s->weights_ = w; s->marks_ = nondet_bool() ? mk_ : NULL; s->curr_items_alloc_ = NS; s->k_ = NS - 1; s->filled_data_ = nondet_bool();
  for (uint32_t j = 0; j < NS; j++) { w[j] = nondet_double(); __CPROVER_assume(w[j] > 0.0 && w[j] - w[j] == 0.0); d[j] = nondet_u64(); mk_[j] = nondet_bool(); }
}
void hb_push(void) {
  struct varopt s; T d[NS]; double w[NS]; bool b[NS]; mk(&s, d, w, b);
  s.h_ = nondet_u32(); __CPROVER_assume(s.h_ < NS); s.m_ = 0; s.r_ = 0; __CPROVER_assume(ordered(&s));
  double wt = nondet_double(); __CPROVER_assume(wt > 0.0 && wt - wt == 0.0); double old_min = s.h_ ? w[0] : wt; uint32_t h0 = s.h_;
  verif_exc = 0; push(&s, nondet_u64(), wt, nondet_bool());
  __CPROVER_assert(s.h_ == h0 + 1 && ordered(&s), "push keeps the heap ordered");
  __CPROVER_assert(w[0] == (wt < old_min ? wt : old_min) && all_ge(&s, w[0]), "the root is the lightest item of H");
  VERIF_CANARY_POINT;
}
void hb_pop(void) {
  struct varopt s; T d[NS]; double w[NS]; bool b[NS]; mk(&s, d, w, b);
  s.h_ = nondet_u32(); s.m_ = nondet_u32(); s.r_ = nondet_u32(); __CPROVER_assume(s.h_ >= 1 && s.h_ <= NS && s.m_ <= NS && s.r_ <= NS && s.h_ + s.m_ + s.r_ == NS); __CPROVER_assume(ordered(&s));
  double old_min = w[0]; uint32_t h0 = s.h_;
  verif_exc = 0; pop_min_to_m_region(&s);
  __CPROVER_assert(verif_exc == 0 && s.h_ == h0 - 1 && ordered(&s), "pop keeps the heap ordered");
  __CPROVER_assert(w[s.h_] == old_min && all_ge(&s, old_min), "the popped item (leftmost of M) is the lightest and everything left in H is at least as heavy");
  VERIF_CANARY_POINT;
}
void hb_convert(void) {
  struct varopt s; T d[NS]; double w[NS]; bool b[NS]; mk(&s, d, w, b);
  s.h_ = nondet_u32(); __CPROVER_assume(s.h_ <= NS); s.m_ = 0; s.r_ = 0;
  verif_exc = 0; convert_to_heap(&s);
  __CPROVER_assert(verif_exc == 0 && ordered(&s), "convert_to_heap orders arbitrary weights");
  VERIF_CANARY_POINT;
}
"""
UNIT_HEAP = {
    "id": "varopt_heap", "property": "C16",
    "clause": "heap H of var_opt_sketch, bounded stand-in on 8 slots (k = 7) with fully symbolic finite positive weights: push and pop_min_to_m_region keep weights_[parent] <= weights_[child], "
              "the root is the lightest item, the popped item is the lightest, convert_to_heap orders arbitrary weights",
    "prelude": PRELUDE, "parts": [is_marked, swap_values, restore_towards_leaves, restore_towards_root, convert_to_heap, push, pop_min],
    "harness": HEAP_HARNESS,
    "jobs": [{"name": n + "_8slots", "entry": "hb_" + n, "unwind": 10, "timeout": 900, "kind": "bounded", "bound": "8 slots (k = 7), weights fully symbolic"} for n in ("push", "pop", "convert")],
    "assumptions": ["larger heaps: only this bounded stand-in (the sift invariant needs a quantifier over slots that ghost-index contracts cannot carry)"],
}
UNITS = [UNIT, UNIT_HEAP]
