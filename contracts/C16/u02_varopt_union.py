import varopt_common as V
UF_ = "sampling/include/var_opt_union_impl.hpp"
PRELUDE = V.PRELUDE + r'''
struct vunion { uint64_t n_; double outer_tau_numer_; struct varopt gadget_; };
#define KMAXU ((uint32_t)1 << 20)
uint32_t g_i;       /* ghost: an arbitrary item of the gadget's heap region */
uint32_t g_pos;     /* ghost: where that item was placed in the result */
bool g_placed;
/* get_num_samples() of the gadget: real function, inlined as a macro-free call */
static uint32_t gadget_num_samples(const struct varopt* g) { const uint32_t num_in_sketch = g->h_ + g->r_; return (num_in_sketch < g->k_ ? num_in_sketch : g->k_); }
'''
coercer = {
    "name": "mark_moving_gadget_coercer", "file": UF_, "members": ["n_", "outer_tau_numer_", "gadget_"],
    "match": r"void var_opt_union<T, A>::mark_moving_gadget_coercer\(var_opt_sketch<T, A>& sk\) const", "sig": "void mark_moving_gadget_coercer(const struct vunion* self, struct varopt* sk)", "refs": ["sk"], "nloops": 3,
    "pre_rules": [(r"AllocDouble\(allocator_\)\.allocate\(result_k \+ 1\)", "((double*)vo_alloc((size_t)result_k + 1, sizeof(double)))", 1), (r"A\(allocator_\)\.allocate\(result_k \+ 1\)", "((T*)vo_alloc((size_t)result_k + 1, sizeof(T)))", 1),
                  (r"gadget_\.get_num_samples\(\)", "gadget_num_samples(&self->gadget_)", 1),
                  (r"new \(&data\[next_r_pos\]\) T\(gadget_\.data_\[idx\]\);", "data[next_r_pos] = gadget_.data_[idx];", 2), (r"new \(&data\[result_h\]\) T\(gadget_\.data_\[idx\]\);", "data[result_h] = gadget_.data_[idx];", 1),
                  (r"AllocBool\(allocator_\)\.deallocate\(sk\.marks_, sk\.curr_items_alloc_\);", "vo_free(sk.marks_, sk.curr_items_alloc_, sizeof(bool));", 1),
                  (r"AllocDouble\(allocator_\)\.deallocate\(sk\.weights_, sk\.curr_items_alloc_\);", "vo_free(sk.weights_, sk.curr_items_alloc_, sizeof(double));", 1),
                  (r"for \(size_t i = 0; i < result_k; \+\+i\) \{ sk\.data_\[i\]\.~T\(\); \}", "for (size_t i = 0; i < result_k; ++i) { (void)0; }", 1),
                  (r"A\(allocator_\)\.deallocate\(sk\.data_, sk\.curr_items_alloc_\);", "vo_free(sk.data_, sk.curr_items_alloc_, sizeof(T));", 1),
                  (r"std::abs\(", "fabs(", 1)],
    "inserts": [(r"wts\[result_h\] = self->gadget_\.weights_\[[^\]]*\];", "if (idx == g_i) { g_pos = result_h; g_placed = 1; }", "after", 1)],
    "contract": r'''
__CPROVER_requires(__CPROVER_r_ok(self, sizeof(*self)) && __CPROVER_rw_ok(sk, sizeof(*sk)) && verif_exc == 0 && !g_placed && g_live > -1000 && g_live < 1000)
/* the gadget in the state the caller guarantees: h heap items, all slots allocated, marks present */
__CPROVER_requires(self->gadget_.k_ <= KMAXU && (uint64_t)self->gadget_.h_ + self->gadget_.r_ <= KMAXU && self->gadget_.curr_items_alloc_ >= (uint64_t)self->gadget_.h_ + self->gadget_.r_ + 1 && self->gadget_.curr_items_alloc_ <= KMAXU + 1)
__CPROVER_requires(__CPROVER_r_ok(self->gadget_.data_, A8u(self->gadget_.curr_items_alloc_)) && __CPROVER_r_ok(self->gadget_.weights_, A8u(self->gadget_.curr_items_alloc_)) && __CPROVER_r_ok(self->gadget_.marks_, self->gadget_.curr_items_alloc_))
/* sk: the copy of the gadget whose arrays are replaced (blocks of exactly curr_items_alloc_ elements) */
__CPROVER_requires(sk->curr_items_alloc_ >= 1 && sk->curr_items_alloc_ <= KMAXU + 1 && ARR_EXACT(sk->data_, sk->curr_items_alloc_, sizeof(T)) && ARR_EXACT(sk->weights_, sk->curr_items_alloc_, sizeof(double)) && ARR_EXACT(sk->marks_, sk->curr_items_alloc_, sizeof(bool)))
__CPROVER_requires(g_i < self->gadget_.h_)
__CPROVER_assigns(verif_exc, g_live, g_pos, g_placed, __CPROVER_object_whole(sk))
__CPROVER_frees(sk->data_, sk->weights_, sk->marks_)
/* an unmarked heap item of the gadget stays in the heap region of the result with its own exact weight (weights are not mixed up between items) */
__CPROVER_ensures((verif_exc == 0 && !self->gadget_.marks_[g_i]) ==> (g_placed && g_pos < sk->h_ && sk->data_[g_pos] == self->gadget_.data_[g_i]
                   && (sk->weights_[g_pos] == self->gadget_.weights_[g_i] || self->gadget_.weights_[g_i] != self->gadget_.weights_[g_i])))
/* counts: h + r items in k + 1 slots with the gap after the heap region; the three old arrays are released, three new ones of k + 1 elements installed */
__CPROVER_ensures(verif_exc == 0 ==> ((uint64_t)sk->h_ + sk->r_ == sk->k_ && sk->k_ == self->gadget_.h_ + self->gadget_.r_ && sk->curr_items_alloc_ == sk->k_ + 1 && sk->marks_ == NULL && sk->n_ == self->n_ && g_live == __CPROVER_old(g_live) - 1))
''',
    "loops": {1: r'''
__CPROVER_assigns(idx, result_r, next_r_pos, __CPROVER_object_whole(data), __CPROVER_object_whole(wts))
__CPROVER_loop_invariant(idx >= (size_t)self->gadget_.h_ + 1 && idx <= final_idx + 1 && result_r == idx - ((size_t)self->gadget_.h_ + 1) && next_r_pos == result_k - result_r && result_h == 0)
__CPROVER_decreases(final_idx + 1 - idx)
''', 2: r'''
__CPROVER_assigns(idx, result_h, result_r, next_r_pos, transferred_weight, g_pos, g_placed, __CPROVER_object_whole(data), __CPROVER_object_whole(wts))
__CPROVER_loop_invariant(idx <= self->gadget_.h_ && result_h <= idx && (uint64_t)result_h + result_r == idx + __CPROVER_loop_entry(result_r) && next_r_pos == result_k - result_r && (uint64_t)result_h + result_r <= result_k)
__CPROVER_loop_invariant((g_i < idx && !self->gadget_.marks_[g_i]) ==> (g_placed && g_pos < result_h && data[g_pos] == self->gadget_.data_[g_i]
                          && (wts[g_pos] == self->gadget_.weights_[g_i] || self->gadget_.weights_[g_i] != self->gadget_.weights_[g_i])))
__CPROVER_decreases(self->gadget_.h_ - idx)
''', 3: r'''
__CPROVER_assigns(i)
__CPROVER_loop_invariant(i <= result_k)
__CPROVER_decreases(result_k - i)
'''},
}
HARNESS = r'''
void h_coerce(void) {
  struct vunion* u = malloc(sizeof(*u)); struct varopt* sk = malloc(sizeof(*sk)); __CPROVER_assume(u && sk);
  struct varopt* g = &u->gadget_;
  __CPROVER_assume(g->curr_items_alloc_ <= KMAXU + 1 && sk->curr_items_alloc_ >= 1 && sk->curr_items_alloc_ <= KMAXU + 1);
  size_t gn = g->curr_items_alloc_, sn = sk->curr_items_alloc_;
  g->data_ = malloc(sizeof(T) * gn); g->weights_ = malloc(sizeof(double) * gn); g->marks_ = malloc(sizeof(bool) * gn);
  sk->data_ = malloc(sizeof(T) * sn); sk->weights_ = malloc(sizeof(double) * sn); sk->marks_ = malloc(sizeof(bool) * sn);
  __CPROVER_assume(g->data_ && g->weights_ && g->marks_ && sk->data_ && sk->weights_ && sk->marks_);
  verif_exc = 0; g_placed = 0; g_live = 3; mark_moving_gadget_coercer(u, sk); VERIF_CANARY_POINT; }
'''
UNIT = {
    "id": "varopt_union_coercer", "property": "C16",
    "clause": "var_opt_union::mark_moving_gadget_coercer: every unmarked heap item of the gadget stays in the result's heap region with its own exact weight, marked items move to the reservoir, the "
              "result has h + r = k items in k + 1 slots, and the three old arrays are released with their allocated sizes while three new ones are installed",
    "prelude": PRELUDE.replace("#define ARR_FRESH", "#define A8u(n) ((size_t)(n) * 8)\n#define ARR_FRESH"), "parts": [coercer], "harness": HARNESS,
    "jobs": [{"name": "mark_moving_gadget_coercer", "entry": "h_coerce", "enforce": "mark_moving_gadget_coercer", "loops": True, "expect_loop_steps": 3, "timeout": 900, "object_bits": 10}],
    "assumptions": V.ALLOC_ASSUMPTIONS[:1] + ["k <= 2^20 in this unit; the other union functions (resolve_tau, get_result, the other coercers, merge_items) are not under contract"],
}
