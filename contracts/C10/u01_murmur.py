import os
F = "common/include/MurmurHash3.h"
SPEC = open(os.path.join(os.path.dirname(__file__), "..", "..", "spec", "murmur3_ref.h")).read()

PRELUDE = r'''
typedef struct { uint64_t h1; uint64_t h2; } HashState;
/* multiplication by a constant as an uninterpreted function: one unconstrained table per published constant.
   Sound for the equivalence claimed: real multiplication is one instance of "any function per constant";
   a constant that is not one of the five published ones gets its own table (so the equivalence fails). */
extern uint64_t uf_c1[__CPROVER_constant_infinity_uint], uf_c2[__CPROVER_constant_infinity_uint], uf_5[__CPROVER_constant_infinity_uint],
                uf_f1[__CPROVER_constant_infinity_uint], uf_f2[__CPROVER_constant_infinity_uint], uf_other[__CPROVER_constant_infinity_uint];
static inline uint64_t MUL(uint64_t a, uint64_t c) {
  return c == 0x87c37b91114253d5ULL ? uf_c1[a] : c == 0x4cf5ad432745937fULL ? uf_c2[a] : c == 5 ? uf_5[a] :
         c == 0xff51afd7ed558ccdULL ? uf_f1[a] : c == 0xc4ceb9fe1a85ec53ULL ? uf_f2[a] : uf_other[a ^ c];
}
#define MURMUR3_BIG_CONSTANT(x) (x##LLU)
#define MURMUR3_ROTL64(x,y) rotl64(x,y)
''' + SPEC

MULRULES = [(r"(\b[\w.>*()\-]+) \*= ([\w()]+);", r"\1 = MUL(\1, \2);", None)]

rotl64 = {"name": "rotl64", "file": F, "match": r"inline uint64_t rotl64 \( uint64_t x, int8_t r \)",
          "sig": "static inline uint64_t rotl64(uint64_t x, int8_t r)"}
getblock64 = {"name": "getblock64", "file": F, "match": r"MURMUR3_FORCE_INLINE uint64_t getblock64 \( const uint8_t \* p, size_t i \)",
              "sig": "static inline uint64_t getblock64(const uint8_t* p, size_t i)"}
fmix64 = {"name": "fmix64", "file": F, "match": r"MURMUR3_FORCE_INLINE uint64_t fmix64 \( uint64_t k \)",
          "sig": "static inline uint64_t fmix64(uint64_t k)", "rules": [(r"k \*= (MURMUR3_BIG_CONSTANT\(\w+\));", r"k = MUL(k, \1);", 2)]}
murmur = {"name": "MurmurHash3_x64_128", "file": F,
          "match": r"MURMUR3_FORCE_INLINE void MurmurHash3_x64_128\(const void\* key, size_t lenBytes,\s*uint64_t seed, HashState& out\)",
          "sig": "static inline void MurmurHash3_x64_128(const void* key, size_t lenBytes, uint64_t seed, HashState* out)",
          "refs": ["out"],
          "rules": [(r"(\bk[12]) \*= (c[12]);", r"\1 = MUL(\1, \2);", 8),
                    (r"out\.h([12]) = out\.h([12])\*5\+", r"out.h\1 = MUL(out.h\2, 5)+", 2)],
          "nloops": 1}

compute_seed_hash = {"name": "compute_seed_hash", "file": F, "match": r"MURMUR3_FORCE_INLINE uint16_t compute_seed_hash\(uint64_t seed\)",
                     "sig": "static inline uint16_t compute_seed_hash(uint64_t seed)",
                     "rules": [(r"MurmurHash3_x64_128\(&seed, sizeof\(seed\), 0, hashes\)", "MurmurHash3_x64_128(&seed, sizeof(seed), 0, &hashes)", 1)]}
compute_hash = {"name": "compute_hash", "file": "theta/include/theta_update_sketch_base.hpp",
                "match": r"static inline uint64_t compute_hash\(const void\* data, size_t length, uint64_t seed\)",
                "sig": "static inline uint64_t compute_hash(const void* data, size_t length, uint64_t seed)",
                "rules": [(r"MurmurHash3_x64_128\(data, length, seed, hashes\)", "MurmurHash3_x64_128(data, length, seed, &hashes)", 1)]}

HARNESS = r'''
#ifndef LEN
#define LEN 8
#endif
void h_equiv(void) {
  uint8_t in_data[LEN + 1]; uint64_t in_seed = nondet_u64(); HashState out; uint64_t s1, s2;
  for (int i = 0; i < LEN; i++) in_data[i] = nondet_u8();
  MurmurHash3_x64_128(in_data, LEN, in_seed, &out);
  spec_murmur3_x64_128(in_data, LEN, in_seed, &s1, &s2);
  __CPROVER_assert(out.h1 == s1, "MurmurHash3_x64_128 h1 equals the published definition");
  __CPROVER_assert(out.h2 == s2, "MurmurHash3_x64_128 h2 equals the published definition");
  VERIF_CANARY_POINT;
}
/* theta hash = h1 >> 1 of Murmur(data, len, seed); seed hash = low 16 bits of h1 of Murmur(&seed, 8, 0) */
void h_compute_hash(void) {
  uint8_t data[8]; uint64_t seed; uint64_t s1, s2;
  uint64_t h = compute_hash(data, 8, seed);
  spec_murmur3_x64_128(data, 8, seed, &s1, &s2);
  __CPROVER_assert(h == (s1 >> 1), "theta compute_hash == published Murmur h1 >> 1 (63-bit hash)");
  VERIF_CANARY_POINT;
}
void h_seed_hash(void) {
  uint64_t seed; uint64_t s1, s2; uint8_t img[8];
  for (int i = 0; i < 8; i++) img[i] = (uint8_t)(seed >> (8 * i));
  uint16_t sh = compute_seed_hash(seed);
  spec_murmur3_x64_128(img, 8, 0, &s1, &s2);
  __CPROVER_assert(sh == (uint16_t)(s1 & 0xffff), "seed hash == low 16 bits of Murmur h1 of the little-endian seed, hash seed 0");
  VERIF_CANARY_POINT;
}
/* block step for arbitrary length: one loop iteration of the real code from equal (h1,h2) on equal 16 bytes equals the spec step */
'''

UNIT = {
    "id": "murmur3", "property": "C10",
    "clause": "MurmurHash3_x64_128 (the hash of theta/tuple/HLL/CPC/count-min) equals the published definition for every byte length 0..48 "
              "(every tail case x 0..3 blocks), every content and seed; theta compute_hash == h1 >> 1; compute_seed_hash == low 16 bits of h1 of the "
              "8-byte little-endian seed hashed with seed 0",
    "prelude": PRELUDE,
    "parts": [rotl64, getblock64, fmix64, murmur, compute_seed_hash, compute_hash],
    "harness": HARNESS,
    "jobs": [{"name": "murmur_len%d" % n, "entry": "h_equiv", "defines": {"LEN": n}, "unwind": 50, "timeout": 300, "canary": n in (0, 15, 33),
              "checks": ["--bounds-check", "--pointer-check"]} for n in range(0, 49)] + [
        {"name": "theta_compute_hash", "entry": "h_compute_hash", "unwind": 9, "timeout": 300, "checks": ["--bounds-check", "--pointer-check"]},
        {"name": "compute_seed_hash", "entry": "h_seed_hash", "unwind": 9, "timeout": 300, "checks": ["--bounds-check", "--pointer-check"]},
    ],
    "replay": {"*": {"template": "murmur.cpp", "vars": {
        "SPEC": "'/verif/spec/murmur3_ref.h'", "LEN": "job.get('defines', {}).get('LEN', 8)", "SEED": "val('in_seed')",
        "BYTES": "''.join('%d,' % (int(x) & 255) for x in arr('in_data'))"}}},
    "assumptions": ["multiplication by each of the five published constants is an uninterpreted function (sound for equality of the two sides)",
                    "little-endian target (x86-64), as cbmc's default architecture: memcpy block load == byte-wise little-endian load",
                    "lengths above 48 bytes: the loop body is the same for every block; composition over the block count is a paper induction"],
}
