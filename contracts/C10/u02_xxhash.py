import os
import crules
F = "common/include/xxhash64.h"
SPEC = open(os.path.join(os.path.dirname(__file__), "..", "..", "spec", "xxhash64_ref.h")).read()
MEMBERS = ["state", "buffer", "bufferSize", "totalLength"]
MULR = (crules.mul_by_named_constant(r"Prime[1-5]"), "X * PrimeN -> MUL(X, PrimeN)", None)

PRELUDE = r'''
struct xxh { uint64_t state[4]; unsigned char buffer[32]; uint64_t bufferSize; uint64_t totalLength; };
extern uint64_t xf1[__CPROVER_constant_infinity_uint], xf2[__CPROVER_constant_infinity_uint], xf3[__CPROVER_constant_infinity_uint],
                xf4[__CPROVER_constant_infinity_uint], xf5[__CPROVER_constant_infinity_uint], xfo[__CPROVER_constant_infinity_uint];
static inline uint64_t MUL(uint64_t a, uint64_t c) {
  return c == 11400714785074694791ULL ? xf1[a] : c == 14029467366897019727ULL ? xf2[a] : c == 1609587929392839161ULL ? xf3[a] :
         c == 9650029242287828579ULL ? xf4[a] : c == 2870177450012600261ULL ? xf5[a] : xfo[a ^ c];
}
''' + SPEC

def im(name, ret, params, cparams, **kw):
    d = {"name": name, "file": F, "members": MEMBERS,
         "match": r"%s %s\(%s\)" % (ret, name if name != "hash_m" else "hash", params.replace("*", r"\*").replace("&", "&")),
         "sig": "static inline %s %s(%s)" % (ret.replace("static inline ", "").replace("static ", "").replace("explicit ", ""), name, cparams)}
    d.update(kw)
    return d

rotateLeft = im("rotateLeft", "static inline uint64_t", "uint64_t x, unsigned char bits", "uint64_t x, unsigned char bits", members=None)
processSingle = im("processSingle", "static inline uint64_t", "uint64_t previous, uint64_t input", "uint64_t previous, uint64_t input", members=None, rules=[MULR])
process = im("process", "static inline void", "const void* data, uint64_t& state0, uint64_t& state1, uint64_t& state2, uint64_t& state3",
             "const void* data, uint64_t* state0, uint64_t* state1, uint64_t* state2, uint64_t* state3", members=None,
             refs=["state0", "state1", "state2", "state3"])
ctor = {"name": "XXHash64_ctor", "file": F, "members": MEMBERS, "match": r"explicit XXHash64\(uint64_t seed\)",
        "sig": "static inline void XXHash64_ctor(struct xxh* self, uint64_t seed)"}
add = im("add", "bool", "const void* input, uint64_t length", "struct xxh* self, const void* input, uint64_t length",
         rules=[(r"process\(self->buffer, self->state\[0\], self->state\[1\], self->state\[2\], self->state\[3\]\)",
                 "process(self->buffer, &self->state[0], &self->state[1], &self->state[2], &self->state[3])", 1),
                (r"process\(data, s0, s1, s2, s3\)", "process(data, &s0, &s1, &s2, &s3)", 1)])
hash_m = {"name": "hash_m", "file": F, "members": MEMBERS, "match": r"uint64_t hash\(\) const",
          "sig": "static inline uint64_t hash_m(struct xxh* self)", "rules": [MULR]}
hash_s = {"name": "XXHash64_hash", "file": F, "match": r"static uint64_t hash\(const void\* input, uint64_t length, uint64_t seed\)",
          "sig": "static inline uint64_t XXHash64_hash(const void* input, uint64_t length, uint64_t seed)",
          "rules": [(r"XXHash64 hasher\(seed\);", "struct xxh hasher; XXHash64_ctor(&hasher, seed);", 1),
                    (r"hasher\.add\(input, length\);", "add(&hasher, input, length);", 1),
                    (r"return hasher\.hash\(\);", "return hash_m(&hasher);", 1)]}

HARNESS = r'''
#ifndef LEN
#define LEN 8
#endif
void h_equiv(void) {
  uint8_t in_data[LEN + 1]; uint64_t in_seed = nondet_u64();
  for (int i = 0; i < LEN; i++) in_data[i] = nondet_u8();
  uint64_t r = XXHash64_hash(in_data, LEN, in_seed);
  uint64_t s = spec_xxh64(in_data, LEN, in_seed);
  __CPROVER_assert(r == s, "XXHash64::hash equals the published XXH64 definition");
  VERIF_CANARY_POINT;
}
'''

LENS = list(range(0, 41)) + [63, 64, 65, 71, 95, 96]
UNIT = {
    "id": "xxhash64", "property": "C10",
    "clause": "XXHash64::hash (the hash of the Bloom filter) equals the published XXH64 definition for every byte length 0..40 and 63,64,65,71,95,96 "
              "(short path, >=32 path with 1..3 stripes, every 8/4/1-byte tail combination), every content and seed",
    "consts": [{"file": F, "pattern": r"static const uint64_t (?P<name>Prime[1-5]|MaxBufferSize) = (?P<value>[^;]+);", "min_count": 6}],
    "prelude": PRELUDE,
    "parts": [rotateLeft, processSingle, process, ctor, add, hash_m, hash_s],
    "harness": HARNESS,
    "jobs": [{"name": "xxh64_len%d" % n, "entry": "h_equiv", "defines": {"LEN": n}, "unwind": 98, "timeout": 600, "canary": n in (0, 7, 33),
              "checks": ["--bounds-check", "--pointer-check"], "tier": "quick" if n <= 40 or n in (64, 71) else "thorough"} for n in LENS],
    "replay": {"*": {"template": "xxhash.cpp", "vars": {
        "SPEC": "'/verif/spec/xxhash64_ref.h'", "LEN": "job.get('defines', {}).get('LEN', 8)", "SEED": "val('in_seed')",
        "BYTES": "''.join('%d,' % (int(x) & 255) for x in arr('in_data'))"}}},
    "assumptions": ["multiplication by each of the five XXH64 primes is an uninterpreted function (sound for equality of the two sides)",
                    "little-endian target; the input null/zero-length early return of add() is exercised by LEN=0",
                    "lengths other than those listed: the stripe loop body and tail steps are the same code; composition is a paper induction"],
}
