"""C10 (cross-language layout): the width of the entry-count field of the compressed theta image is part of the documented layout; same function and contract as C09 unit theta_v4_sizes"""
import importlib.util, os
_spec = importlib.util.spec_from_file_location("c09sizes", os.path.join(os.path.dirname(__file__), "..", "C09", "u02_theta_sizes.py"))
_m = importlib.util.module_from_spec(_spec); _spec.loader.exec_module(_m)
UNIT = dict(_m.UNIT)
UNIT.update({"id": "theta_v4_count_field", "property": "C10",
             "clause": "compressed (v4) theta image layout: the entry count is stored in get_num_entries_bytes() bytes = the least number of whole bytes that holds it (what the Java reader expects), "
                       "and whole_bytes_to_hold_bits is the ceiling of bits/8",
             "jobs": [j for j in _m.UNIT["jobs"] if j["name"] in ("whole_bytes_to_hold_bits", "get_num_entries_bytes")]})
