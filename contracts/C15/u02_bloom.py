F = "filters/include/bloom_filter_impl.hpp"
H = "filters/include/bloom_filter.hpp"
MEMBERS = ["seed_", "num_hashes_", "is_dirty_", "is_owned_", "is_read_only_", "capacity_bits_", "num_bits_set_", "bit_array_", "memory_"]

PRELUDE = r'''
struct bloom { uint64_t seed_; uint16_t num_hashes_; bool is_dirty_; bool is_owned_; bool is_read_only_;
               uint64_t capacity_bits_; uint64_t num_bits_set_; uint8_t* bit_array_; uint8_t* memory_; };
#define CAP_MAX ((uint64_t)1 << 35)
uint16_t g_i;
#define BIT(array, idx) (((array)[(idx) >> 3] >> ((idx) & 7)) & 1)
/* C rendering of template<typename T> size_t copy_to_mem(T item, void* dst) of common/include/memory_operations.hpp */
#define copy_to_mem(item, dst) (memcpy((dst), &(__typeof__(item)){item}, sizeof(item)), sizeof(item))
/* index of the i-th probe: ((h0 + i*h1) >> 1) % capacity, as an uninterpreted function of its four arguments (both the code and the
   specification go through it; only idx < capacity is used, which is proved of the real expression in job probe_index_in_range) */
uint64_t g_h0, g_h1, g_nb, g_idx;   /* the probe index is a function of its arguments: for the fixed ghost arguments it is the fixed value g_idx */
uint64_t probe_index(uint64_t h0, uint64_t h1, uint32_t i, uint64_t num_bits)
  __CPROVER_requires(num_bits > 0)
  __CPROVER_assigns()
  __CPROVER_ensures(__CPROVER_return_value < num_bits)
  __CPROVER_ensures((h0 == g_h0 && h1 == g_h1 && i == g_i && num_bits == g_nb) ==> __CPROVER_return_value == g_idx);
#define IDX(i) g_idx
#define GHOST_ARGS(self) (h0 == g_h0 && h1 == g_h1 && (self)->capacity_bits_ == g_nb && g_idx < g_nb)
/* stored bit count of a wrapped filter (little-endian u64 at byte 24 of the image) */
#define MEMCNT(self) (*(uint64_t*)((self)->memory_ + NUM_BITS_SET_OFFSET_BYTES))
/* well-formed filter object; WRAPPED selects the caller-memory representation (bit array inside the image) */
#ifdef WRAPPED
#define WF_MEM(self) (__CPROVER_is_fresh((self)->memory_, BIT_ARRAY_OFFSET_BYTES + ((self)->capacity_bits_ >> 3)) && \
                      __CPROVER_pointer_in_range_dfcc((self)->memory_ + BIT_ARRAY_OFFSET_BYTES, (self)->bit_array_, (self)->memory_ + BIT_ARRAY_OFFSET_BYTES) && !(self)->is_owned_)
#define FRAME_BITS(self) __CPROVER_object_whole((self)->memory_)
#define FRAME_CNT(self) MEMCNT(self)
#else
#define WF_MEM(self) ((self)->memory_ == NULL && __CPROVER_is_fresh((self)->bit_array_, (self)->capacity_bits_ >> 3))
#define FRAME_BITS(self) __CPROVER_object_whole((self)->bit_array_)
#define FRAME_CNT(self) (self)->num_bits_set_
#endif
#define WF(self) (__CPROVER_is_fresh(self, sizeof(*self)) && (self)->capacity_bits_ >= 64 && (self)->capacity_bits_ <= CAP_MAX && \
                  (self)->capacity_bits_ % 64 == 0 && (self)->num_hashes_ >= 1 && WF_MEM(self))
/* I: every other view of the wrapped memory sees either the exact count or the dirty marker (property: "every other view of the same state") */
#define INV_MEM(self) ((self)->memory_ == NULL || (self)->is_read_only_ || ((self)->is_dirty_ ? MEMCNT(self) == DIRTY_BITS_VALUE : MEMCNT(self) == (self)->num_bits_set_))
/* J: a filter that reports itself empty has no bit set (ghost bit g_any) */
#define INV_EMPTY(self) ((!(self)->is_dirty_ && (self)->num_bits_set_ == 0) ==> BIT((self)->bit_array_, g_any) == 0)
uint64_t g_any; uint16_t g_w; uint8_t g_old_any;
'''

def m(name, ret, params, sig_params, contract, **kw):
    d = {"name": name, "file": F, "members": MEMBERS,
         "match": r"%s bloom_filter_alloc<A>::%s\(%s\)" % (ret, name, params),
         "sig": "%s %s(struct bloom* self%s)" % (ret, name, (", " + sig_params) if sig_params else ""), "contract": contract}
    d.update(kw)
    return d

INDEX_RULE = (r"\(\(h0 \+ i \* h1\) >> 1\) % num_bits", "probe_index(h0, h1, i, num_bits)", 1)
BITOPS = (r"bit_array_ops::", "", "any")

get_capacity = m("get_capacity", "uint64_t", "", "", "__CPROVER_requires(__CPROVER_r_ok(self, sizeof(*self))) __CPROVER_assigns() __CPROVER_ensures(__CPROVER_return_value == self->capacity_bits_)")
is_empty = m("is_empty", "bool", "", "", "__CPROVER_requires(__CPROVER_r_ok(self, sizeof(*self))) __CPROVER_assigns() __CPROVER_ensures(__CPROVER_return_value == (!self->is_dirty_ && self->num_bits_set_ == 0))")

update_num_bits_set = m("update_num_bits_set", "void", "uint64_t num_bits_set", "uint64_t num_bits_set", r'''
__CPROVER_requires(WF(self))
__CPROVER_assigns(self->num_bits_set_, self->is_dirty_, FRAME_CNT(self))
__CPROVER_ensures(self->num_bits_set_ == num_bits_set && !self->is_dirty_)
__CPROVER_ensures(INV_MEM(self))
''')

internal_update = m("internal_update", "void", "uint64_t h0, uint64_t h1", "uint64_t h0, uint64_t h1", r'''
__CPROVER_requires(WF(self) && g_i >= 1 && g_i <= self->num_hashes_ && g_any < self->capacity_bits_ && GHOST_ARGS(self))
__CPROVER_requires(g_old_any == BIT(self->bit_array_, g_any))
__CPROVER_assigns(verif_exc, self->is_dirty_, FRAME_BITS(self))
/* writes through a read-only view are refused: exception and not a single store */
__CPROVER_ensures((self->is_read_only_ ? 1 : 0) == (verif_exc != 0 ? 1 : 0))
__CPROVER_ensures(verif_exc != 0 ==> (BIT(self->bit_array_, g_any) == g_old_any && self->is_dirty_ == __CPROVER_old(self->is_dirty_)))
/* every probe position of the item is set afterwards (ghost probe g_i), no bit is ever cleared, the filter no longer reports empty */
__CPROVER_ensures(verif_exc == 0 ==> BIT(self->bit_array_, IDX(g_i)) == 1)
__CPROVER_ensures(verif_exc == 0 ==> BIT(self->bit_array_, g_any) >= g_old_any)
__CPROVER_ensures(verif_exc == 0 ==> self->is_dirty_)
__CPROVER_ensures(verif_exc == 0 ==> INV_MEM(self))
''', methods=["get_capacity"], rules=[BITOPS, INDEX_RULE, (r"set_bit\(self->bit_array_, hash_index\)", "set_bit(self->bit_array_, hash_index, self->capacity_bits_ >> 3)", 1)],
    nloops=1, loops={1: r'''
__CPROVER_assigns(i, FRAME_BITS(self))
__CPROVER_loop_invariant(i >= 1 && i <= (uint32_t)self->num_hashes_ + 1)
__CPROVER_loop_invariant(g_i < i ==> BIT(self->bit_array_, IDX(g_i)) == 1)
__CPROVER_loop_invariant(BIT(self->bit_array_, g_any) >= g_old_any)
__CPROVER_decreases((uint32_t)self->num_hashes_ + 1 - i)
'''})

internal_query = m("internal_query", "bool", "uint64_t h0, uint64_t h1", "uint64_t h0, uint64_t h1", r'''
__CPROVER_requires(WF(self) && GHOST_ARGS(self))
__CPROVER_assigns(g_w)
/* 'absent' is answered only for a filter that reports empty or when some probe position (witness g_w) is not set */
__CPROVER_ensures(!__CPROVER_return_value ==> ((!self->is_dirty_ && self->num_bits_set_ == 0) ||
      (g_w >= 1 && g_w <= self->num_hashes_ && (g_w == g_i ==> BIT(self->bit_array_, g_idx) == 0))))
/* 'present' is answered only when the ghost probe position is set */
__CPROVER_ensures((__CPROVER_return_value && g_i >= 1 && g_i <= self->num_hashes_) ==> BIT(self->bit_array_, IDX(g_i)) == 1)
''', methods=["get_capacity", "is_empty"], rules=[BITOPS, INDEX_RULE, (r"get_bit\(self->bit_array_, hash_index\)", "get_bit(self->bit_array_, hash_index, self->capacity_bits_ >> 3)", 1)],
    inserts=[(r"if \(!get_bit\(self->bit_array_, hash_index, self->capacity_bits_ >> 3\)\)", "{ g_w = i;", "after", 1),
             (r"\{ g_w = i;\s*return false;", "}", "after", 1)],
    nloops=1, loops={1: r'''
__CPROVER_assigns(i)
__CPROVER_loop_invariant(i >= 1 && i <= (uint32_t)self->num_hashes_ + 1)
__CPROVER_loop_invariant((g_i >= 1 && g_i < i) ==> BIT(self->bit_array_, IDX(g_i)) == 1)
__CPROVER_decreases((uint32_t)self->num_hashes_ + 1 - i)
'''})

internal_query_and_update = m("internal_query_and_update", "bool", "uint64_t h0, uint64_t h1", "uint64_t h0, uint64_t h1", r'''
__CPROVER_requires(WF(self) && g_i >= 1 && g_i <= self->num_hashes_ && g_any < self->capacity_bits_ && GHOST_ARGS(self))
__CPROVER_requires(g_old_any == BIT(self->bit_array_, g_any) && g_old_probe == BIT(self->bit_array_, IDX(g_i)))
__CPROVER_requires(INV_EMPTY(self) && INV_MEM(self) && self->num_bits_set_ <= CAP_MAX && g_cnt0 == self->num_bits_set_)
__CPROVER_assigns(verif_exc, self->is_dirty_, self->num_bits_set_, FRAME_BITS(self))
__CPROVER_ensures((self->is_read_only_ ? 1 : 0) == (verif_exc != 0 ? 1 : 0))
/* returns 'present' only if every probe position was already set before the call (ghost probe g_i) */
__CPROVER_ensures((verif_exc == 0 && __CPROVER_return_value) ==> g_old_probe == 1)
__CPROVER_ensures(verif_exc == 0 ==> BIT(self->bit_array_, IDX(g_i)) == 1)
__CPROVER_ensures(verif_exc == 0 ==> BIT(self->bit_array_, g_any) >= g_old_any)
/* afterwards the filter still satisfies: reports empty => no bit set; other views of wrapped memory are consistent */
__CPROVER_ensures(verif_exc == 0 ==> INV_EMPTY(self))
__CPROVER_ensures(verif_exc == 0 ==> INV_MEM(self))
''', methods=["get_capacity", "update_num_bits_set"], propagate=[],
    rules=[BITOPS, INDEX_RULE, (r"get_and_set_bit\(self->bit_array_, hash_index\)", "get_and_set_bit(self->bit_array_, hash_index, self->capacity_bits_ >> 3)", 1)],
    nloops=1, loops={1: r'''
__CPROVER_assigns(i, value_exists, self->is_dirty_, self->num_bits_set_, FRAME_BITS(self))
__CPROVER_loop_invariant(i >= 1 && i <= (uint32_t)self->num_hashes_ + 1)
__CPROVER_loop_invariant(g_i < i ==> BIT(self->bit_array_, IDX(g_i)) == 1)
__CPROVER_loop_invariant((BIT(self->bit_array_, g_idx) == 1 && g_old_probe == 0) ==> !value_exists)
__CPROVER_loop_invariant((g_i < i && value_exists) ==> g_old_probe == 1)
__CPROVER_loop_invariant(self->num_bits_set_ <= g_cnt0 + i)
__CPROVER_loop_invariant(g_i >= i ==> BIT(self->bit_array_, IDX(g_i)) >= g_old_probe)
__CPROVER_loop_invariant(BIT(self->bit_array_, g_any) >= g_old_any)
__CPROVER_loop_invariant(INV_EMPTY(self) && INV_MEM(self))
__CPROVER_decreases((uint32_t)self->num_hashes_ + 1 - i)
'''})

BITOP_DECLS = r'''
bool get_bit(uint8_t* array, uint64_t index, uint64_t nbytes)
  __CPROVER_requires(index < nbytes * 8 && __CPROVER_r_ok(array, nbytes)) __CPROVER_assigns()
  __CPROVER_ensures(__CPROVER_return_value == (BIT(array, index) != 0));
void set_bit(uint8_t* array, uint64_t index, uint64_t nbytes)
  __CPROVER_requires(index < nbytes * 8 && __CPROVER_rw_ok(array, nbytes)) __CPROVER_assigns(array[index >> 3])
  __CPROVER_ensures(array[index >> 3] == (__CPROVER_old(array[index >> 3]) | (uint8_t)(1 << (index & 7))));
bool get_and_set_bit(uint8_t* array, uint64_t index, uint64_t nbytes)
  __CPROVER_requires(index < nbytes * 8 && __CPROVER_rw_ok(array, nbytes)) __CPROVER_assigns(array[index >> 3])
  __CPROVER_ensures(__CPROVER_return_value == (((__CPROVER_old(array[index >> 3]) >> (index & 7)) & 1) != 0))
  __CPROVER_ensures(array[index >> 3] == (__CPROVER_old(array[index >> 3]) | (uint8_t)(1 << (index & 7))));
uint8_t g_old_probe; uint64_t g_cnt0;
'''

HARNESS = r'''
void h_update_num_bits_set(void) { struct bloom* s; uint64_t n; verif_exc = 0; update_num_bits_set(s, n); VERIF_CANARY_POINT; }
void h_internal_update(void) { struct bloom* s; uint64_t a, b; verif_exc = 0; internal_update(s, a, b); VERIF_CANARY_POINT; }
void h_internal_query(void) { struct bloom* s; uint64_t a, b; verif_exc = 0; internal_query(s, a, b); VERIF_CANARY_POINT; }
void h_internal_query_and_update(void) { struct bloom* s; uint64_t a, b; verif_exc = 0; internal_query_and_update(s, a, b); VERIF_CANARY_POINT; }
/* the real probe expression stays below the capacity */
uint64_t probe_index_expr(uint64_t h0, uint64_t h1, uint32_t i, uint64_t num_bits) { return PROBE_EXPR; }
void h_probe_range(void) { uint64_t h0, h1, n; uint32_t i; __CPROVER_assume(n > 0); __CPROVER_assert(probe_index_expr(h0, h1, i, n) < n, "probe index < capacity"); VERIF_CANARY_POINT; }
'''

def unit(wrapped):
    suffix = "_wrapped" if wrapped else "_owned"
    defs = {"WRAPPED": 1} if wrapped else {}
    REPL = ["probe_index", "get_bit", "set_bit", "get_and_set_bit"]
    return {
        "id": "bloom" + suffix, "property": "C15",
        "clause": ("bloom filter methods on %s: update sets every probe position and never clears a bit, refuses read-only views without a store, leaves the "
                   "filter non-empty and every other view of wrapped memory consistent (stored count exact or marked dirty); query answers 'absent' only "
                   "for a filter reporting empty or with an unset probe position (hence no false negative after update); query_and_update returns whether "
                   "every probe position was set before, and keeps 'reports empty => no bit set'") % ("caller-memory (wrapped) filters" if wrapped else "owned filters"),
        "consts": [
            {"file": H, "pattern": r"static const (?P<type>uint64_t|uint8_t) (?P<name>DIRTY_BITS_VALUE|NUM_BITS_SET_OFFSET_BYTES|BIT_ARRAY_OFFSET_BYTES|MAX_HEADER_SIZE_BYTES) = (?P<value>[^;]+);", "min_count": 4},
            {"name": "PROBE_EXPR", "file": F, "match": r"void bloom_filter_alloc<A>::internal_update\(uint64_t h0, uint64_t h1\) \{(?:.|\n)*?const uint64_t hash_index = ([^;]+);"},
        ],
        "member_checks": [{"file": H, "members": MEMBERS}],
        "prelude": ("#define WRAPPED 1\n" if wrapped else "") + PRELUDE + BITOP_DECLS,
        "parts": [get_capacity, is_empty, update_num_bits_set, internal_update, internal_query, internal_query_and_update],
        "harness": HARNESS,
        "jobs": [
            {"name": "update_num_bits_set", "entry": "h_update_num_bits_set", "enforce": "update_num_bits_set", "timeout": 300},
            {"name": "internal_update", "entry": "h_internal_update", "enforce": "internal_update", "replace": REPL, "loops": True, "expect_loop_steps": 1, "timeout": 600},
            {"name": "internal_query", "entry": "h_internal_query", "enforce": "internal_query", "replace": REPL, "loops": True, "expect_loop_steps": 1, "timeout": 600},
            {"name": "internal_query_and_update", "entry": "h_internal_query_and_update", "enforce": "internal_query_and_update",
             "replace": REPL + ["update_num_bits_set"], "loops": True, "expect_loop_steps": 1, "timeout": 600},
        ] + ([] if wrapped else [{"name": "probe_index_in_range", "entry": "h_probe_range", "timeout": 600}]),
        "replay": {"*": {"template": "bloom_object.cpp", "vars": {}}},
        "assumptions": ["the probe index expression is an uninterpreted function of (h0, h1, i, capacity) on both sides; only 'index < capacity' is used and that is "
                        "proved of the real expression (job probe_index_in_range)",
                        "CAP_MAX: capacity ranges over every multiple of 64 up to 2^35 bits"],
    }

UNITS = [unit(False), unit(True)]

# ---------------------------------------------------------------- unit 3: reset / set operations / bits used
FILL_DECL = r'''
/* std::fill_n(p, n, v): TRUSTED to set exactly the n bytes at p to v (ghost-index form; g_any>>3 is the observed byte) */
void verif_fill_n_u8(uint8_t* p, uint64_t n, uint8_t v)
  __CPROVER_requires(__CPROVER_rw_ok(p, n))
  __CPROVER_assigns(__CPROVER_object_upto(p, n))
  __CPROVER_ensures((g_any >> 3) < n ==> p[g_any >> 3] == v);
uint64_t g_cnt; uint8_t g_other_any;
uint64_t count_num_bits_set(uint8_t* array, uint64_t length_bytes)
  __CPROVER_requires(__CPROVER_r_ok(array, length_bytes)) __CPROVER_assigns() __CPROVER_ensures(__CPROVER_return_value == g_cnt);
uint64_t union_with_bits(uint8_t* tgt, const uint8_t* src, uint64_t length_bytes)
  __CPROVER_requires(__CPROVER_rw_ok(tgt, length_bytes) && __CPROVER_r_ok(src, length_bytes))
  __CPROVER_assigns(__CPROVER_object_upto(tgt, length_bytes))
  __CPROVER_ensures(__CPROVER_return_value == g_cnt && ((g_any >> 3) < length_bytes ==> tgt[g_any >> 3] == (uint8_t)(__CPROVER_old(tgt[g_any >> 3]) | src[g_any >> 3])));
uint64_t intersect_bits(uint8_t* tgt, const uint8_t* src, uint64_t length_bytes)
  __CPROVER_requires(__CPROVER_rw_ok(tgt, length_bytes) && __CPROVER_r_ok(src, length_bytes))
  __CPROVER_assigns(__CPROVER_object_upto(tgt, length_bytes))
  __CPROVER_ensures(__CPROVER_return_value == g_cnt && ((g_any >> 3) < length_bytes ==> tgt[g_any >> 3] == (uint8_t)(__CPROVER_old(tgt[g_any >> 3]) & src[g_any >> 3])));
uint64_t invert_bits(uint8_t* array, uint64_t length_bytes)
  __CPROVER_requires(__CPROVER_rw_ok(array, length_bytes))
  __CPROVER_assigns(__CPROVER_object_upto(array, length_bytes))
  __CPROVER_ensures(__CPROVER_return_value == g_cnt && ((g_any >> 3) < length_bytes ==> array[g_any >> 3] == (uint8_t)~__CPROVER_old(array[g_any >> 3])));
void update_num_bits_set(struct bloom* self, uint64_t num_bits_set)
  __CPROVER_assigns(self->num_bits_set_, self->is_dirty_, FRAME_CNT(self))
  __CPROVER_ensures(self->num_bits_set_ == num_bits_set && !self->is_dirty_ && INV_MEM(self));
#define get_capacity_of(o) get_capacity((struct bloom*)(o))
#define WF_OTHER(o) (__CPROVER_is_fresh(o, sizeof(*o)) && (o)->capacity_bits_ >= 64 && (o)->capacity_bits_ <= CAP_MAX && (o)->capacity_bits_ % 64 == 0 && \
                     __CPROVER_is_fresh((o)->bit_array_, (o)->capacity_bits_ >> 3))
'''

RO = r'''
__CPROVER_ensures((self->is_read_only_ ? 1 : 0) == ((verif_exc != 0 && !g_incompat) ? 1 : 0) || g_incompat)
'''

reset = m("reset", "void", "", "", r'''
__CPROVER_requires(WF(self) && g_any < self->capacity_bits_ && g_old_any == BIT(self->bit_array_, g_any))
__CPROVER_assigns(verif_exc, self->num_bits_set_, self->is_dirty_, FRAME_BITS(self))
__CPROVER_ensures((self->is_read_only_ ? 1 : 0) == (verif_exc != 0 ? 1 : 0))
__CPROVER_ensures(verif_exc != 0 ==> BIT(self->bit_array_, g_any) == g_old_any)
/* every bit cleared (ghost bit g_any), count 0 and valid, other views of wrapped memory consistent */
__CPROVER_ensures(verif_exc == 0 ==> (BIT(self->bit_array_, g_any) == 0 && self->num_bits_set_ == 0 && !self->is_dirty_ && INV_MEM(self)))
''', methods=["update_num_bits_set"], rules=[(r"std::fill_n\(([^,;]+), ([^,;]+), 0\);", r"verif_fill_n_u8(\1, \2, 0);", 1)])

get_bits_used = m("get_bits_used", "uint64_t", "", "", r'''
__CPROVER_requires(WF(self))
__CPROVER_assigns(self->num_bits_set_, self->is_dirty_)
/* a dirty count is recomputed from the bit array, a valid one is returned as is */
__CPROVER_ensures(__CPROVER_return_value == (__CPROVER_old(self->is_dirty_) ? g_cnt : __CPROVER_old(self->num_bits_set_)))
__CPROVER_ensures(self->num_bits_set_ == __CPROVER_return_value && !self->is_dirty_)
''', rules=[BITOPS, (r"count_num_bits_set\(self->bit_array_, self->capacity_bits_ >> 3\)", "count_num_bits_set(self->bit_array_, self->capacity_bits_ >> 3)", 1)])

is_compatible = {"name": "is_compatible", "file": F, "members": MEMBERS,
    "match": r"bool bloom_filter_alloc<A>::is_compatible\(const bloom_filter_alloc& other\)",
    "sig": "bool is_compatible(struct bloom* self, const struct bloom* other)",
    "rules": [(r"other\.get_capacity\(\)", "get_capacity_of(other)", 1), (r"other\.", "other->", 2)], "methods": ["get_capacity"],
    "contract": r'''
__CPROVER_requires(__CPROVER_is_fresh(self, sizeof(*self)) && __CPROVER_is_fresh(other, sizeof(*other)))
__CPROVER_assigns()
__CPROVER_ensures(__CPROVER_return_value == (self->seed_ == other->seed_ && self->num_hashes_ == other->num_hashes_ && self->capacity_bits_ == other->capacity_bits_))
'''}

def setop_m(name, bits_fn, op):
    return {"name": name, "file": F, "members": MEMBERS,
        "match": r"void bloom_filter_alloc<A>::%s\(%s\)" % (name, "const bloom_filter_alloc& other" if name != "invert" else ""),
        "sig": "void %s(struct bloom* self%s)" % (name, ", const struct bloom* other" if name != "invert" else ""),
        "methods": ["update_num_bits_set"] + (["is_compatible"] if name != "invert" else []),
        "rules": [BITOPS, (r"\b%s\(self->bit_array_" % name, "%s(self->bit_array_" % bits_fn, 1)] + ([(r"other\.", "other->", 1)] if name != "invert" else []),
        "contract": (r'''
__CPROVER_requires(WF(self) && g_any < self->capacity_bits_ && g_old_any == BIT(self->bit_array_, g_any))
''' + (r'''__CPROVER_requires(WF_OTHER(other) && (g_any < other->capacity_bits_ ==> g_other_any == BIT(other->bit_array_, g_any)))
''' if name != "invert" else "") + r'''
__CPROVER_assigns(verif_exc, self->num_bits_set_, self->is_dirty_, FRAME_BITS(self))
/* refused (exception, no store) for read-only views%s */
__CPROVER_ensures((verif_exc != 0) == (REFUSED))
__CPROVER_ensures(verif_exc != 0 ==> (BIT(self->bit_array_, g_any) == g_old_any && self->num_bits_set_ == __CPROVER_old(self->num_bits_set_)))
/* bitwise %s on every bit (ghost bit g_any) with the exact count of set bits reported by the kernel, valid (not dirty), other views consistent */
__CPROVER_ensures(verif_exc == 0 ==> (BIT(self->bit_array_, g_any) == (%s) && self->num_bits_set_ == g_cnt && !self->is_dirty_ && INV_MEM(self)))
''' % (" and incompatible operands" if name != "invert" else "", op, {"OR": "g_old_any | g_other_any", "AND": "g_old_any & g_other_any", "NOT": "1 - g_old_any"}[op])
        ).replace("REFUSED", "self->is_read_only_ || !(self->seed_ == other->seed_ && self->num_hashes_ == other->num_hashes_ && self->capacity_bits_ == other->capacity_bits_)" if name != "invert" else "self->is_read_only_ != 0")}

def unit3(wrapped):
    suffix = "_wrapped" if wrapped else "_owned"
    REPL = ["update_num_bits_set", "verif_fill_n_u8", "count_num_bits_set", "union_with_bits", "intersect_bits", "invert_bits"]
    u = unit(wrapped)
    return {
        "id": "bloom_setops" + suffix, "property": "C15",
        "clause": ("bloom filter on %s: reset clears every bit and the count; union/intersection/inversion are bitwise OR/AND/NOT on every bit with the kernel's exact "
                   "count installed as a valid count; incompatible operands and read-only views are refused without a store; get_bits_used recounts a dirty count") % ("wrapped filters" if wrapped else "owned filters"),
        "consts": u["consts"][:1], "member_checks": u["member_checks"],
        "prelude": ("#define WRAPPED 1\n" if wrapped else "") + PRELUDE + FILL_DECL,
        "parts": [get_capacity, is_compatible, reset, get_bits_used, setop_m("union_with", "union_with_bits", "OR"),
                  setop_m("intersect", "intersect_bits", "AND"), setop_m("invert", "invert_bits", "NOT")],
        "harness": r'''
void h_reset(void) { struct bloom* s; verif_exc = 0; reset(s); VERIF_CANARY_POINT; }
void h_get_bits_used(void) { struct bloom* s; verif_exc = 0; get_bits_used(s); VERIF_CANARY_POINT; }
void h_is_compatible(void) { struct bloom* s; const struct bloom* o; is_compatible(s, o); VERIF_CANARY_POINT; }
void h_union_with(void) { struct bloom* s; const struct bloom* o; verif_exc = 0; union_with(s, o); VERIF_CANARY_POINT; }
void h_intersect(void) { struct bloom* s; const struct bloom* o; verif_exc = 0; intersect(s, o); VERIF_CANARY_POINT; }
void h_invert(void) { struct bloom* s; verif_exc = 0; invert(s); VERIF_CANARY_POINT; }
''',
        "jobs": [{"name": n, "entry": "h_" + n, "enforce": n, "replace": REPL, "timeout": 600}
                 for n in (["reset", "get_bits_used", "union_with", "intersect", "invert"] + ([] if wrapped else ["is_compatible"]))],
        "replay": {"*": {"template": "bloom_object.cpp", "vars": {}}},
        "assumptions": ["std::fill_n is trusted to set exactly n bytes (contract verif_fill_n_u8)",
                        "the bit-array kernels are replaced by their contracts (proved in unit bit_array_ops)"],
    }

UNITS += [unit3(False), unit3(True)]
