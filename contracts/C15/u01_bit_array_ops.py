F = "filters/include/bit_array_ops.hpp"

PRELUDE = r'''
#define VPOPCOUNT8(x)  ((uint64_t)__builtin_popcount((uint8_t)(x)))
#define VPOPCOUNT64(x) ((uint64_t)__builtin_popcountll((uint64_t)(x)))
#define LEN_CAP ((uint64_t)1 << 32)
uint64_t g_k; uint8_t g_old, g_src; uint64_t g_sum; uint64_t g_other;
#define BIT(array, idx) (((array)[(idx) >> 3] >> ((idx) & 7)) & 1)
'''

def f(name, ret, params, contract, **kw):
    d = {"name": name, "file": F, "match": r"static inline %s %s\(%s\)" % (ret, name, params.replace("*", r"\*")),
         "sig": "static inline %s %s(%s)" % (ret, name, params), "contract": contract}
    d.update(kw)
    return d

IDX_PRE = r'''
__CPROVER_requires(nbytes >= 8 && nbytes <= LEN_CAP && __CPROVER_is_fresh(array, nbytes) && index < nbytes * 8)
__CPROVER_requires(g_other < nbytes * 8 && g_other != index && g_old == BIT(array, g_other))
'''
get_bit = f("get_bit", "bool", "uint8_t* array, uint64_t index", IDX_PRE + r'''
__CPROVER_assigns()
__CPROVER_ensures(__CPROVER_return_value == (BIT(array, index) != 0))
''', extra_params=["nbytes"])
set_bit = f("set_bit", "void", "uint8_t* array, uint64_t index", IDX_PRE + r'''
__CPROVER_assigns(__CPROVER_object_whole(array))
__CPROVER_ensures(BIT(array, index) == 1 && BIT(array, g_other) == g_old)
''', extra_params=["nbytes"])
clear_bit = f("clear_bit", "void", "uint8_t* array, uint64_t index", IDX_PRE + r'''
__CPROVER_assigns(__CPROVER_object_whole(array))
__CPROVER_ensures(BIT(array, index) == 0 && BIT(array, g_other) == g_old)
''', extra_params=["nbytes"])
assign_bit = f("assign_bit", "void", "uint8_t* array, uint64_t index, bool value", IDX_PRE + r'''
__CPROVER_assigns(__CPROVER_object_whole(array))
__CPROVER_ensures(BIT(array, index) == (value ? 1 : 0) && BIT(array, g_other) == g_old)
''', extra_params=["nbytes"], rules=[(r"(set_bit|clear_bit)\(array, index\)", r"\1(array, index, nbytes)", 2)])
get_and_set_bit = f("get_and_set_bit", "bool", "uint8_t* array, uint64_t index", IDX_PRE + r'''
__CPROVER_assigns(__CPROVER_object_whole(array))
/* returns exactly whether the bit was set before; sets it; touches no other bit */
__CPROVER_ensures(__CPROVER_return_value == (((__CPROVER_old(array[index >> 3]) >> (index & 7)) & 1) != 0))
__CPROVER_ensures(BIT(array, index) == 1 && BIT(array, g_other) == g_old)
''', extra_params=["nbytes"])
for d in (get_bit, set_bit, clear_bit, assign_bit, get_and_set_bit):
    d["sig"] = d["sig"][:-1] + ", uint64_t nbytes)"      # ghost parameter: the length of the array (for the contract only)

BITSET = [(r"std::bitset<(8|64)> bits\(([^;]*)\);", r"const uint64_t bits = VPOPCOUNT\1(\2);", 1), (r"bits\.count\(\)", "bits", 1)]

count_num_bits_set = f("count_num_bits_set", "uint64_t", "uint8_t* array, uint64_t length_bytes", r'''
__CPROVER_requires(length_bytes <= LEN_CAP && length_bytes % 8 == 0 && __CPROVER_is_fresh(array, length_bytes))
__CPROVER_assigns(g_sum)
/* exact count: the sum over all 64-bit words of their population count (ghost accumulator = specification) */
__CPROVER_ensures(__CPROVER_return_value == g_sum)
''', rules=BITSET, nloops=1,
    inserts=[(r"uint64_t num_bits_set = 0;", "g_sum = 0;", "after", 1),
             (r"for \(uint64_t i = 0; i < num_longs; \+\+i\) \{", "g_sum += VPOPCOUNT64(((const uint64_t*)array)[i]);", "after", 1)],
    loops={1: r'''
__CPROVER_assigns(i, num_bits_set, g_sum)
__CPROVER_loop_invariant(i <= num_longs && num_bits_set == g_sum && g_sum <= 64 * i)
__CPROVER_decreases(num_longs - i)
'''})

def setop(name, params, spec_expr, ensures_content):
    return f(name, "uint64_t", params, r'''
__CPROVER_requires(length_bytes <= LEN_CAP && __CPROVER_is_fresh(%s, length_bytes)%s)
__CPROVER_requires(g_k < length_bytes && g_old == %s[g_k]%s)
__CPROVER_assigns(g_sum, __CPROVER_object_whole(%s))
/* bitwise operation on every byte (ghost index g_k), exact count of set bits of the result (ghost sum of the specified result bytes) */
__CPROVER_ensures(%s)
__CPROVER_ensures(__CPROVER_return_value == g_sum)
''' % (params.split()[1].rstrip(","), " && __CPROVER_is_fresh(src, length_bytes)" if "src" in params else "",
       params.split()[1].rstrip(","), " && g_src == src[g_k]" if "src" in params else "", params.split()[1].rstrip(","), ensures_content),
        rules=BITSET, nloops=1,
        inserts=[(r"uint64_t num_bits_set = 0;", "g_sum = 0;", "after", 1),
                 (r"for \(uint64_t i = 0; i < length_bytes; \+\+i\) \{", "g_sum += VPOPCOUNT8(%s);" % spec_expr, "after", 1)],
        loops={1: r'''
__CPROVER_assigns(i, num_bits_set, g_sum, __CPROVER_object_whole(%s))
__CPROVER_loop_invariant(i <= length_bytes && num_bits_set == g_sum && g_sum <= 8 * i)
__CPROVER_loop_invariant(g_k >= i ==> %s[g_k] == g_old)
__CPROVER_loop_invariant(g_k < i ==> (%s))
__CPROVER_decreases(length_bytes - i)
''' % (params.split()[1].rstrip(","), params.split()[1].rstrip(","), ensures_content)})

union_with = setop("union_with", "uint8_t* tgt, const uint8_t* src, uint64_t length_bytes", "tgt[i] | src[i]", "tgt[g_k] == (uint8_t)(g_old | g_src)")
intersect = setop("intersect", "uint8_t* tgt, const uint8_t* src, uint64_t length_bytes", "tgt[i] & src[i]", "tgt[g_k] == (uint8_t)(g_old & g_src)")
invert = setop("invert", "uint8_t* array, uint64_t length_bytes", "~array[i]", "array[g_k] == (uint8_t)~g_old")

UNIT = {
    "id": "bit_array_ops", "property": "C15",
    "clause": "bit array kernels for every array length and index: get/set/clear/assign/get_and_set act on exactly the addressed bit (get_and_set returns "
              "the previous value); union/intersect/invert are bytewise OR/AND/NOT on every byte and return the exact number of set bits of the result; "
              "count_num_bits_set is the exact population count",
    "prelude": PRELUDE,
    "parts": [get_bit, set_bit, clear_bit, assign_bit, get_and_set_bit, count_num_bits_set, union_with, intersect, invert],
    "harness": r'''
void h_get_bit(void) { uint8_t* a; uint64_t i, n; get_bit(a, i, n); VERIF_CANARY_POINT; }
void h_set_bit(void) { uint8_t* a; uint64_t i, n; set_bit(a, i, n); VERIF_CANARY_POINT; }
void h_clear_bit(void) { uint8_t* a; uint64_t i, n; clear_bit(a, i, n); VERIF_CANARY_POINT; }
void h_assign_bit(void) { uint8_t* a; uint64_t i, n; bool v; assign_bit(a, i, v, n); VERIF_CANARY_POINT; }
void h_get_and_set_bit(void) { uint8_t* a; uint64_t i, n; get_and_set_bit(a, i, n); VERIF_CANARY_POINT; }
void h_count(void) { uint8_t* a; uint64_t n; count_num_bits_set(a, n); VERIF_CANARY_POINT; }
void h_union(void) { uint8_t* t; const uint8_t* s; uint64_t n; union_with(t, s, n); VERIF_CANARY_POINT; }
void h_intersect(void) { uint8_t* t; const uint8_t* s; uint64_t n; intersect(t, s, n); VERIF_CANARY_POINT; }
void h_invert(void) { uint8_t* t; uint64_t n; invert(t, n); VERIF_CANARY_POINT; }
''',
    "jobs": [{"name": n, "entry": "h_" + n, "enforce": fn, "loops": lp, "expect_loop_steps": 1 if lp else 0, "timeout": 300,
              "replace": (["set_bit", "clear_bit"] if n == "assign_bit" else [])}
             for (n, fn, lp) in [("get_bit", "get_bit", False), ("set_bit", "set_bit", False), ("clear_bit", "clear_bit", False),
                                 ("assign_bit", "assign_bit", False), ("get_and_set_bit", "get_and_set_bit", False),
                                 ("count", "count_num_bits_set", True), ("union", "union_with", True), ("intersect", "intersect", True),
                                 ("invert", "invert", True)]],
    "replay": {"*": {"template": "bitops.cpp", "vars": {}}},
    "assumptions": ["std::bitset<N>::count() is the population count (__builtin_popcount)",
                    "LEN_CAP: array length ranges over every value up to 2^32 bytes (MAX_FILTER_SIZE_BITS is just below 2^34 bits = 2^31 bytes)",
                    "the trailing ghost parameter nbytes of the single-bit functions exists only for the contract (array length)"],
}
