F = "tuple/include/tuple_sketch_impl.hpp"
TYPES = [("i64", "int64_t"), ("u64", "uint64_t"), ("i32", "int32_t"), ("u32", "uint32_t"), ("i16", "int16_t"), ("u16", "uint16_t"), ("i8", "int8_t"), ("u8", "uint8_t"), ("double", "double"), ("float", "float")]

PRELUDE = r'''
typedef int64_t S; typedef int64_t U;                       /* summary = running sum, update value = int64 */
typedef struct { uint64_t first; S second; } Entry;
typedef struct { Entry* first; bool second; } find_result;
struct theta_base { bool is_empty_; uint8_t lg_cur_size_; uint8_t lg_nom_size_; uint8_t rf_; float p_; uint32_t num_entries_; uint64_t theta_; uint64_t seed_; Entry* entries_; };
struct tuple_sketch { struct theta_base map_; };
uint64_t g_img; size_t g_len; U g_val; uint32_t g_update_calls; uint64_t g_bits;
uint64_t g_hash; bool g_found; uint32_t g_find_calls, g_insert_calls, g_create_calls, g_policy_calls; uint64_t g_find_key; Entry* g_ins_it; Entry g_ins_entry; Entry g_slot_entry;
uint64_t hash_and_screen(struct theta_base* self, const void* data, size_t length) __CPROVER_assigns() __CPROVER_ensures(__CPROVER_return_value == g_hash);
find_result find_m(struct theta_base* self, uint64_t key) __CPROVER_assigns(g_find_calls, g_find_key)
  __CPROVER_ensures(g_find_calls == __CPROVER_old(g_find_calls) + 1 && g_find_key == key && __CPROVER_return_value.first == &g_slot_entry && __CPROVER_return_value.second == g_found);
void insert(struct theta_base* self, Entry* it, Entry entry) __CPROVER_assigns(g_insert_calls, g_ins_it, g_ins_entry)
  __CPROVER_ensures(g_insert_calls == __CPROVER_old(g_insert_calls) + 1 && g_ins_it == it && g_ins_entry.first == entry.first && g_ins_entry.second == entry.second);
/* update policy of the instantiation: create() = 0, update(summary, v): summary += v  (sum of all values offered with the key) */
S policy_create(void) __CPROVER_assigns(g_create_calls) __CPROVER_ensures(g_create_calls == __CPROVER_old(g_create_calls) + 1 && __CPROVER_return_value == 0);
void policy_update(S* summary, U value) __CPROVER_requires(__CPROVER_rw_ok(summary, sizeof(S))) __CPROVER_assigns(*summary, g_policy_calls)
  __CPROVER_ensures(g_policy_calls == __CPROVER_old(g_policy_calls) + 1 && *summary == (S)((uint64_t)__CPROVER_old(*summary) + (uint64_t)value));
void update_bytes(struct tuple_sketch* self, const void* key, size_t length, U value)
  __CPROVER_requires(length == 8 && __CPROVER_r_ok(key, 8))
  __CPROVER_assigns(g_img, g_len, g_val, g_update_calls)
  __CPROVER_ensures(g_update_calls == __CPROVER_old(g_update_calls) + 1 && g_len == length && g_img == *(const uint64_t*)key && g_val == value);
int64_t canonical_double(double value) __CPROVER_assigns()
  __CPROVER_ensures(__CPROVER_return_value == (int64_t)(value == 0.0 ? 0 : isnan(value) ? 0x7ff8000000000000UL : g_bits));
''' + "".join("#define UPDATE_OVERLOAD_%s update_%s\n" % (t, n) for n, t in TYPES) + "".join("void update_%s(struct tuple_sketch* self, %s key, U value);\n" % (n, t) for n, t in TYPES)

def upd(name, ctype, post):
    return {
        "name": "update_" + name, "file": F,
        "match": r"void update_tuple_sketch<S, U, P, A>::update\(%s key, UU&& value\)" % ctype,
        "sig": "void update_%s(struct tuple_sketch* self, %s key, U value)" % (name, ctype),
        "pre_rules": [(r"std::forward<UU>\(value\)", "value", 1),
                      (r"(?<![\w.])update\(static_cast<(\w+)>\(", r"UPDATE_OVERLOAD_\1(self, static_cast<\1>(", "any"),
                      (r"(?<![\w.])update\(&key, sizeof\(key\),", "update_bytes(self, &key, sizeof(key),", "any"),
                      (r"(?<![\w.])update\(canonical_double\(", "UPDATE_OVERLOAD_int64_t(self, canonical_double(", "any")],
        "contract": "__CPROVER_assigns(g_img, g_len, g_val, g_update_calls)\n"
                    "/* the key reaches the hash as the 8-byte image of its sign-extended / canonicalised value - exactly as in the theta sketch - and the value is passed on unchanged */\n"
                    "__CPROVER_ensures(g_update_calls == __CPROVER_old(g_update_calls) + 1 && g_len == 8 && g_val == value && g_img == %s)\n" % post,
    }

POSTS = {"i64": "(uint64_t)key", "u64": "key", "i32": "(uint64_t)(int64_t)key", "u32": "(uint64_t)(int64_t)(int32_t)key", "i16": "(uint64_t)(int64_t)key",
         "u16": "(uint64_t)(int64_t)(int16_t)key", "i8": "(uint64_t)(int64_t)key", "u8": "(uint64_t)(int64_t)(int8_t)key",
         "double": "(key == 0.0 ? 0 : isnan(key) ? 0x7ff8000000000000UL : g_bits)", "float": "((double)key == 0.0 ? 0 : isnan((double)key) ? 0x7ff8000000000000UL : g_bits)"}
UPDS = [upd(n, t, POSTS[n]) for n, t in TYPES]

update_impl = {
    "name": "update_bytes_impl", "file": F,
    "match": r"void update_tuple_sketch<S, U, P, A>::update\(const void\* key, size_t length, UU&& value\)",
    "sig": "void update_bytes_impl(struct tuple_sketch* self, const void* key, size_t length, U value)",
    "rules": [(r"std::forward<UU>\(value\)", "value", 2), (r"map_\.find\(", "find_m(&self->map_, ", 1), (r"map_\.(hash_and_screen|insert)\(", r"\1(&self->map_, ", 2),
              (r"\bauto result\b", "find_result result", 1), (r"S summary = policy_\.create\(\);", "S summary = policy_create();", 1),
              (r"policy_\.update\(summary, ", "policy_update(&summary, ", 1), (r"policy_\.update\(\(\*result\.first\)\.second, ", "policy_update(&(*result.first).second, ", 1),
              (r"Entry\(hash, std::move\(summary\)\)", "(Entry){hash, summary}", 1)],
    "contract": r'''
__CPROVER_requires(__CPROVER_is_fresh(self, sizeof(*self)) && g_find_calls < 1000 && g_insert_calls < 1000 && g_policy_calls < 1000 && g_create_calls < 1000 && g_old_summary == g_slot_entry.second)
__CPROVER_assigns(g_find_calls, g_find_key, g_insert_calls, g_ins_it, g_ins_entry, g_create_calls, g_policy_calls, g_slot_entry.second)
/* the key is screened exactly like a theta update: a screened-out hash touches nothing */
__CPROVER_ensures(g_hash == 0 ==> (g_find_calls == __CPROVER_old(g_find_calls) && g_insert_calls == __CPROVER_old(g_insert_calls) && g_policy_calls == __CPROVER_old(g_policy_calls)))
__CPROVER_ensures(g_hash != 0 ==> (g_find_calls == __CPROVER_old(g_find_calls) + 1 && g_find_key == g_hash))
/* first sight of the key: a new entry (hash, create() folded with the value) is inserted at the slot find designated; the stored entry of no other key is touched */
__CPROVER_ensures((g_hash != 0 && !g_found) ==> (g_insert_calls == __CPROVER_old(g_insert_calls) + 1 && g_ins_it == &g_slot_entry && g_ins_entry.first == g_hash && g_ins_entry.second == value && g_slot_entry.second == g_old_summary))
/* repeat: the stored summary is folded with the value in place, nothing is inserted */
__CPROVER_ensures((g_hash != 0 && g_found) ==> (g_insert_calls == __CPROVER_old(g_insert_calls) && g_slot_entry.second == (S)((uint64_t)g_old_summary + (uint64_t)value)))
''',
}

# compact_tuple_sketch(const theta_sketch&, const S& summary, bool ordered)
CT_PRE = r'''
struct csk { bool is_empty; bool is_ordered; uint16_t seed_hash; uint64_t theta; const uint64_t* e; uint32_t n; };
struct compact_tuple { bool is_empty_; bool is_ordered_; uint16_t seed_hash_; uint64_t theta_; Entry* entries_; uint32_t entries_n; };
uint32_t g_sort_calls; uint32_t g_k; S g_old_summary;
void sort_entries_c(struct compact_tuple* self) __CPROVER_assigns(g_sort_calls) __CPROVER_ensures(g_sort_calls == __CPROVER_old(g_sort_calls) + 1);
'''
from_theta = {
    "name": "compact_tuple_from_theta", "file": F, "ctor": True, "members": ["is_empty_", "is_ordered_", "seed_hash_", "theta_", "entries_"],
    "match": r"compact_tuple_sketch<S, A>::compact_tuple_sketch\(const theta_sketch_alloc<AllocU64>& other, const S& summary, bool ordered\)",
    "sig": "void compact_tuple_from_theta(struct compact_tuple* self, const struct csk* other, S summary, bool ordered)", "nloops": 1,
    "pre_rules": [(r"self->entries_ = CTOR_INIT\(other\.get_allocator\(\)\);", "self->entries_n = 0;", 1),
                  (r"other\.is_empty\(\)", "other->is_empty", "any"), (r"other\.is_ordered\(\)", "other->is_ordered", "any"), (r"other\.get_seed_hash\(\)", "other->seed_hash", "any"),
                  (r"other\.get_theta64\(\)", "other->theta", "any"), (r"entries_\.reserve\(other\.get_num_retained\(\)\);", "", 1),
                  (r"for \(uint64_t hash: other\) \{", "for (uint32_t oi_ = 0; oi_ < other->n; oi_++) { const uint64_t hash = other->e[oi_];", 1),
                  (r"entries_\.push_back\(Entry\(hash, summary\)\);", "entries_[entries_n_PLACEHOLDER] = (Entry){hash, summary};", 1),
                  (r"std::sort\(entries_\.begin\(\), entries_\.end\(\), comparator\(\)\);", "sort_entries_c(self);", 1)],
    "rules": [(r"self->entries_\[entries_n_PLACEHOLDER\]", "self->entries_[self->entries_n++]", 1)],
    "contract": r'''
__CPROVER_requires(__CPROVER_is_fresh(self, sizeof(*self)) && __CPROVER_is_fresh(other, sizeof(*other)) && other->n >= 1 && other->n <= (1u << 26) && __CPROVER_is_fresh(other->e, (size_t)other->n * 8))
__CPROVER_requires(__CPROVER_is_fresh(self->entries_, (size_t)other->n * sizeof(Entry)) && g_k < other->n && g_sort_calls < 10)
__CPROVER_assigns(self->is_empty_, self->is_ordered_, self->seed_hash_, self->theta_, self->entries_n, __CPROVER_object_whole(self->entries_), g_sort_calls)
/* same theta, emptiness, seed hash and keys as the Theta sketch, every key with the given summary */
__CPROVER_ensures(self->is_empty_ == other->is_empty && self->theta_ == other->theta && self->seed_hash_ == other->seed_hash && self->entries_n == other->n)
__CPROVER_ensures(self->entries_[g_k].second == summary)
/* the result claims to be ordered only if it is: the input already was, or it was sorted here */
__CPROVER_ensures(self->is_ordered_ == (other->is_ordered || ordered))
__CPROVER_ensures(g_sort_calls == __CPROVER_old(g_sort_calls) + ((self->is_ordered_ && !other->is_ordered) ? 1 : 0))
__CPROVER_ensures(g_sort_calls == __CPROVER_old(g_sort_calls) ==> self->entries_[g_k].first == other->e[g_k])
''',
    "loops": {1: r'''
__CPROVER_assigns(oi_, self->entries_n, __CPROVER_object_whole(self->entries_))
__CPROVER_loop_invariant(oi_ <= other->n && self->entries_n == oi_)
__CPROVER_loop_invariant(oi_ > g_k ==> (self->entries_[g_k].first == other->e[g_k] && self->entries_[g_k].second == summary))
__CPROVER_decreases(other->n - oi_)
'''},
}

UNIT = {
    "id": "tuple_update", "property": "C13",
    "clause": "tuple sketch: every key overload reaches the hash as the same canonical 8-byte image as the Theta sketch (sign extension, float widening, double canonicalisation) with the value "
              "unchanged; update(bytes): screened like Theta, first sight inserts (hash, create() folded with the value), a repeat folds the value into the stored summary in place and "
              "touches nothing else; conversion from a Theta sketch keeps theta/emptiness/seed/keys, attaches the summary to every key and is marked ordered only if it is sorted",
    "prelude": PRELUDE + CT_PRE,
    "parts": UPDS + [update_impl, from_theta],
    "harness": "\n".join(
        "void h_%s(void) { struct tuple_sketch* s; %s v; U val; union { double d; uint64_t u; } c; c.d = (double)v; g_bits = c.u; update_%s(s, v, val); VERIF_CANARY_POINT; }" % (n, t, n)
        for n, t in TYPES) + r'''
void h_impl(void) { struct tuple_sketch* s; const void* d; size_t n; U v; update_bytes_impl(s, d, n, v); VERIF_CANARY_POINT; }
void h_from_theta(void) { struct compact_tuple* c; const struct csk* o; S s; bool ord; compact_tuple_from_theta(c, o, s, ord); VERIF_CANARY_POINT; }
''',
    "jobs": [{"name": "update_" + n, "entry": "h_" + n, "enforce": "update_" + n, "canary": n in ("u32", "double"),
              "replace": ["update_bytes", "canonical_double"] + ["update_" + m for (m, _) in TYPES if m != n]} for (n, _) in TYPES] + [
        {"name": "update_bytes", "entry": "h_impl", "enforce": "update_bytes_impl", "replace": ["hash_and_screen", "find_m", "insert", "policy_create", "policy_update"]},
        {"name": "compact_from_theta", "entry": "h_from_theta", "enforce": "compact_tuple_from_theta", "replace": ["sort_entries_c"], "loops": True, "expect_loop_steps": 1, "timeout": 300},
    ],
    "assumptions": ["instantiation: Summary = Update = int64_t with the sum policy (create() = 0, update adds); user-defined summaries with move semantics are dropped by extraction",
                    "keys retained == keys of a Theta sketch: the tuple sketch uses the very same theta_update_sketch_base code (hash_and_screen / find / insert / resize / rebuild) decided in C01",
                    "canonical_double is used by its contract (proved in C01 unit theta_update); std::sort by a recording contract"],
}
