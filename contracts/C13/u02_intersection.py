"""C13 (tuple set operations select keys as the theta operations do and combine matching summaries with the policy): tuple_intersection is theta_intersection_base instantiated with
Entry = {key, summary}; the same four regions of theta_intersection_base::update as C02 unit file u02_intersection.py, extracted with that entry type (KEY(x) = x.first)."""
import importlib.util, os
_spec = importlib.util.spec_from_file_location("c02isect", os.path.join(os.path.dirname(__file__), "..", "C02", "u02_intersection.py"))
_m = importlib.util.module_from_spec(_spec); _spec.loader.exec_module(_m)
UNITS = []
for _u in _m.UNITS:
    u = dict(_u)
    assert "typedef uint64_t EN;\n#define KEY(x) (x)" in u["prelude"]
    u["prelude"] = u["prelude"].replace("typedef uint64_t EN;\n#define KEY(x) (x)", "typedef struct { uint64_t first; double second; } EN;   /* tuple entry: key and summary */\n#define KEY(x) ((x).first)")
    u["id"] = u["id"].replace("theta_intersection", "tuple_intersection")
    u["property"] = "C13"
    u["clause"] = "tuple_intersection (theta_intersection_base with Entry = {key, summary}): " + u["clause"]
    u["assumptions"] = list(u.get("assumptions", [])) + ["entry type fixed to {uint64_t key; double summary}; the intersection policy is a counted call (once per matching key)"]
    UNITS.append(u)
