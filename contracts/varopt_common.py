"""var_opt_sketch<uint64_t>: struct, shared rules and the allocation functions (used by C16 and C19 units)"""
F = "sampling/include/var_opt_sketch_impl.hpp"
H = "sampling/include/var_opt_sketch.hpp"
MEMBERS = ["k_", "h_", "m_", "r_", "n_", "total_wt_r_", "rf_", "curr_items_alloc_", "filled_data_", "data_", "weights_", "num_marks_in_h_", "marks_"]
VO = "var_opt_sketch<T, A>"

PRELUDE = r'''
typedef uint64_t T;
typedef uint8_t resize_factor;
struct varopt { uint32_t k_, h_, m_, r_; uint64_t n_; double total_wt_r_; resize_factor rf_; uint32_t curr_items_alloc_; bool filled_data_;
                T* data_; double* weights_; uint32_t num_marks_in_h_; bool* marks_; };
int g_live;      /* ghost: live blocks obtained from the allocator */
uint32_t g_j; uint64_t g_item;   /* ghost: an arbitrary slot and the item it holds */
static void* vo_alloc(size_t n, size_t esz) { g_live++; return verif_alloc((n ? n : 1) * esz); }
/* deallocate(p, n): the size assertion compares n with the size the block was allocated with (zero-length blocks are 1 element in this model) */
static void vo_free(void* p, size_t n, size_t esz) { g_live--; verif_free(p, (n ? n : 1) * esz); }
#define ARR_FRESH(p, n, esz) (__CPROVER_is_fresh(p, ((n) ? (size_t)(n) : 1) * (esz)))
#define ARR_EXACT(p, n, esz) (__CPROVER_rw_ok(p, ((n) ? (size_t)(n) : 1) * (esz)) && __CPROVER_OBJECT_SIZE(p) == ((n) ? (size_t)(n) : 1) * (esz) && __CPROVER_POINTER_OFFSET(p) == 0)
'''
ALLOC_RULES = [
    (r"AllocDouble\((?:self->)?allocator_\)\.allocate\(([^()]*)\)", r"((double*)vo_alloc(\1, sizeof(double)))", "any"),
    (r"AllocBool\((?:self->)?allocator_\)\.allocate\(([^()]*)\)", r"((bool*)vo_alloc(\1, sizeof(bool)))", "any"),
    (r"(?<!\()(?:self->)?allocator_\.allocate\(([^()]*)\)", r"((T*)vo_alloc(\1, sizeof(T)))", "any"),
]
DEALLOC_RULES = [
    (r"AllocDouble\((?:self->)?allocator_\)\.deallocate\(([^(),]*),\s*([^()]*)\)", r"vo_free(\1, \2, sizeof(double))", "any"),
    (r"AllocBool\((?:self->)?allocator_\)\.deallocate\(([^(),]*),\s*([^()]*)\)", r"vo_free(\1, \2, sizeof(bool))", "any"),
    (r"(?<!\()(?:self->)?allocator_\.deallocate\(([^(),]*),\s*([^()]*)\)", r"vo_free(\1, \2, sizeof(T))", "any"),
]

get_adjusted_size = {
    "name": "get_adjusted_size", "file": F, "match": r"uint32_t %s::get_adjusted_size\(uint32_t max_size, uint32_t resize_target\)" % VO,
    "sig": "uint32_t get_adjusted_size(uint32_t max_size, uint32_t resize_target)",
    "contract": r'''
__CPROVER_requires(resize_target <= ((uint32_t)1 << 30))
__CPROVER_assigns()
/* the target, capped at max_size as soon as doubling the target would pass it */
__CPROVER_ensures(__CPROVER_return_value == (((uint64_t)max_size < 2 * (uint64_t)resize_target) ? max_size : resize_target))
''',
}

allocate_data_arrays = {
    "name": "allocate_data_arrays", "file": F, "members": MEMBERS, "match": r"void %s::allocate_data_arrays\(uint32_t tgt_size, bool use_marks\)" % VO,
    "sig": "void allocate_data_arrays(struct varopt* self, uint32_t tgt_size, bool use_marks)", "rules": ALLOC_RULES,
    "contract": r'''
__CPROVER_requires(__CPROVER_is_fresh(self, sizeof(*self)) && g_live >= 0 && g_live < 1000)
__CPROVER_assigns(g_live, self->filled_data_, self->data_, self->weights_, self->marks_)
__CPROVER_ensures(ARR_EXACT(self->data_, tgt_size, sizeof(T)) && ARR_EXACT(self->weights_, tgt_size, sizeof(double)))
__CPROVER_ensures(use_marks ? ARR_EXACT(self->marks_, tgt_size, sizeof(bool)) : self->marks_ == NULL)
__CPROVER_ensures(g_live == __CPROVER_old(g_live) + (use_marks ? 3 : 2) && !self->filled_data_)
''',
}

grow_data_arrays = {
    "name": "grow_data_arrays", "file": F, "members": MEMBERS, "match": r"void %s::grow_data_arrays\(\)" % VO,
    "sig": "void grow_data_arrays(struct varopt* self)", "nloops": 2,
    "rules": ALLOC_RULES + DEALLOC_RULES + [(r"new \(&tmp_data\[i\]\) T\(std::move\(self->data_\[i\]\)\);", "tmp_data[i] = self->data_[i];", 1), (r"self->data_\[i\]\.~T\(\);", "(void)0;", 1)],
    "contract": r'''
__CPROVER_requires(__CPROVER_is_fresh(self, sizeof(*self)) && self->k_ >= 1 && self->k_ <= (((uint32_t)1 << 31) - 2) && self->rf_ <= 3 && g_live >= 3 && g_live < 1000)
/* sizes for which curr_items_alloc_ << rf_ and the doubling inside get_adjusted_size stay inside 32 bits (see assumptions) */
__CPROVER_requires(self->curr_items_alloc_ >= 1 && self->curr_items_alloc_ <= ((uint32_t)1 << 27) && self->curr_items_alloc_ <= self->k_)
__CPROVER_requires(ARR_FRESH(self->data_, self->curr_items_alloc_, sizeof(T)) && ARR_FRESH(self->weights_, self->curr_items_alloc_, sizeof(double)))
__CPROVER_requires(self->marks_ == NULL || ARR_FRESH(self->marks_, self->curr_items_alloc_, sizeof(bool)))
__CPROVER_requires(g_j < self->curr_items_alloc_ ==> g_item == self->data_[g_j])
__CPROVER_assigns(g_live, self->curr_items_alloc_, self->filled_data_, self->data_, self->weights_, self->marks_)
__CPROVER_frees(self->data_, self->weights_, self->marks_)
/* the arrays grow (rf_ > 0), never beyond k_ + 1, and leave room for the gap slot when full size is reached */
__CPROVER_ensures(self->curr_items_alloc_ >= __CPROVER_old(self->curr_items_alloc_) && self->curr_items_alloc_ <= self->k_ + 1 && self->curr_items_alloc_ != self->k_)
__CPROVER_ensures(self->rf_ > 0 ==> self->curr_items_alloc_ > __CPROVER_old(self->curr_items_alloc_))
/* every array is a block of exactly the new size (what the destructor and the next grow will release), with the old content */
__CPROVER_ensures(ARR_EXACT(self->data_, self->curr_items_alloc_, sizeof(T)) && ARR_EXACT(self->weights_, self->curr_items_alloc_, sizeof(double)))
__CPROVER_ensures((__CPROVER_old(self->marks_) != NULL) ? ARR_EXACT(self->marks_, self->curr_items_alloc_, sizeof(bool)) : self->marks_ == NULL)
__CPROVER_ensures(g_j < __CPROVER_old(self->curr_items_alloc_) ==> self->data_[g_j] == g_item)
/* each old block released once with its allocated size (size assertions in vo_free): live blocks unchanged */
__CPROVER_ensures(g_live == __CPROVER_old(g_live))
''',
    "loops": {1: r'''
__CPROVER_assigns(i, __CPROVER_object_whole(tmp_data), __CPROVER_object_whole(tmp_weights))
__CPROVER_loop_invariant(i <= prev_size)
__CPROVER_loop_invariant(g_j < i ==> tmp_data[g_j] == self->data_[g_j])
__CPROVER_decreases(prev_size - i)
''', 2: r'''
__CPROVER_assigns(i, __CPROVER_object_whole(tmp_marks))
__CPROVER_loop_invariant(i <= prev_size)
__CPROVER_decreases(prev_size - i)
'''},
}

strip_marks = {
    "name": "strip_marks", "file": F, "members": MEMBERS, "match": r"void %s::strip_marks\(\)" % VO, "sig": "void strip_marks(struct varopt* self)", "rules": DEALLOC_RULES,
    "contract": r'''
__CPROVER_requires(__CPROVER_is_fresh(self, sizeof(*self)) && g_live > -1000 && g_live < 1000)
__CPROVER_requires(self->marks_ == NULL || ARR_FRESH(self->marks_, self->curr_items_alloc_, sizeof(bool)))
__CPROVER_assigns(verif_exc, g_live, self->num_marks_in_h_, self->marks_)
__CPROVER_frees(self->marks_)
__CPROVER_ensures((verif_exc != 0) == (__CPROVER_old(self->marks_) == NULL))
__CPROVER_ensures(verif_exc == 0 ==> (self->marks_ == NULL && self->num_marks_in_h_ == 0 && g_live == __CPROVER_old(g_live) - 1))
''',
}
ALLOC_ASSUMPTIONS = ["T = uint64_t (placement-new move == assignment, destructor == no-op); allocator_ and its rebinds AllocDouble/AllocBool -> vo_alloc/vo_free = malloc/free with a "
                     "size-equality assertion on release and a live-block counter",
                     "grow_data_arrays: curr_items_alloc_ <= 2^27 so that 'curr_items_alloc_ << rf_' and 'resize_target << 1' do not wrap in 32 bits; larger arrays (k close to 2^31 with "
                     "more than 2^27 items retained, > 2 GB of items) are outside the contract"]
