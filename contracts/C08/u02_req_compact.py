RC = "req/include/req_compactor_impl.hpp"
RH = "req/include/req_compactor.hpp"
MEMBERS = ["lg_weight_", "hra_", "coin_", "sorted_", "section_size_raw_", "section_size_", "num_sections_", "state_", "num_items_", "capacity_", "items_"]

PRELUDE = r'''
typedef uint64_t T;
struct reqc { uint8_t lg_weight_; bool hra_; bool coin_; bool sorted_; float section_size_raw_; uint32_t section_size_; uint8_t num_sections_;
              uint64_t state_; uint32_t num_items_; uint32_t capacity_; T* items_;
              bool g_coin_fresh; /* ghost: coin_ holds the outcome of a fair flip made at this compactor's previous (even-state) compaction */ };
typedef struct { uint32_t first; uint32_t second; } pair_u32;
#define req_constants_MULTIPLIER 2u
uint32_t g_coin; uint32_t g_coin_reads;
uint32_t random_utils_random_bit(void)
  __CPROVER_assigns(g_coin_reads) __CPROVER_ensures(g_coin_reads == __CPROVER_old(g_coin_reads) + 1 && __CPROVER_return_value == g_coin && g_coin <= 1);
uint8_t count_trailing_zeros_in_u64(uint64_t input) __CPROVER_assigns() __CPROVER_ensures(__CPROVER_return_value == (input == 0 ? 64 : __builtin_ctzll(input)));
#define WFC(c) (__CPROVER_is_fresh(c, sizeof(*c)) && (c)->num_sections_ >= 3 && (c)->num_sections_ <= 96 && ((c)->section_size_ & 1) == 0 && \
                (c)->section_size_ >= 4 && (c)->section_size_ <= 1024 && (c)->capacity_ <= (1u << 24) && (c)->num_items_ <= (c)->capacity_)
#define NOM(c) (2u * (c)->num_sections_ * (c)->section_size_)
/* callees of compact(), by contract */
uint32_t g_range_lo, g_range_hi, g_secs; uint32_t g_promote_calls; bool g_promote_odds; uint32_t g_promote_n;
pair_u32 compute_compaction_range_c(struct reqc* self, uint32_t secs_to_compact)
  /* the protected half: at most num_sections_ sections may be compacted (anything more eats into the half that must never be compacted) */
  __CPROVER_requires(secs_to_compact >= 1 && secs_to_compact <= self->num_sections_)
  __CPROVER_assigns(g_secs) __CPROVER_ensures(g_secs == secs_to_compact && __CPROVER_return_value.first == g_range_lo && __CPROVER_return_value.second == g_range_hi);
void ensure_space_c(struct reqc* self, uint32_t num) __CPROVER_assigns() __CPROVER_ensures(1);
bool ensure_enough_sections_c(struct reqc* self) __CPROVER_assigns() __CPROVER_ensures(1);
void promote_c(uint32_t from, uint32_t to, bool odds) __CPROVER_assigns(g_promote_calls, g_promote_odds, g_promote_n)
  __CPROVER_ensures(g_promote_calls == __CPROVER_old(g_promote_calls) + 1 && g_promote_odds == odds && g_promote_n == to - from);
void inplace_merge_c(struct reqc* next) __CPROVER_assigns() __CPROVER_ensures(1);
'''

get_nom_capacity = {"name": "get_nom_capacity", "file": RC, "members": MEMBERS, "match": r"uint32_t req_compactor<T, C, A>::get_nom_capacity\(\) const",
                    "sig": "uint32_t get_nom_capacity(const struct reqc* self)",
                    "contract": "__CPROVER_requires(__CPROVER_is_fresh(self, sizeof(*self)) && self->num_sections_ <= 96 && self->section_size_ <= 1024) __CPROVER_assigns() __CPROVER_ensures(__CPROVER_return_value == NOM(self))"}

compute_range = {
    "name": "compute_compaction_range", "file": RC, "members": MEMBERS,
    "match": r"std::pair<uint32_t, uint32_t> req_compactor<T, C, A>::compute_compaction_range\(uint32_t secs_to_compact\) const",
    "sig": "pair_u32 compute_compaction_range(const struct reqc* self, uint32_t secs_to_compact)", "methods": ["get_nom_capacity"],
    "rules": [(r"return std::pair<uint32_t, uint32_t>\(low, high\);", "return (pair_u32){low, high};", 1)],
    "contract": r'''
__CPROVER_requires(WFC(self) && secs_to_compact >= 1 && secs_to_compact <= self->num_sections_)
/* compaction is triggered when the compactor holds at least its nominal capacity */
__CPROVER_requires(self->num_items_ >= NOM(self))
__CPROVER_assigns()
/* the range is inside the items, has even length, and leaves at least half the nominal capacity (the accurate end) untouched */
__CPROVER_ensures(__CPROVER_return_value.first <= __CPROVER_return_value.second && __CPROVER_return_value.second <= self->num_items_)
__CPROVER_ensures(((__CPROVER_return_value.second - __CPROVER_return_value.first) & 1) == 0)
__CPROVER_ensures(self->num_items_ - (__CPROVER_return_value.second - __CPROVER_return_value.first) >= NOM(self) / 2)
__CPROVER_ensures(self->hra_ ? __CPROVER_return_value.first == 0 : __CPROVER_return_value.second == self->num_items_)
''',
}

compact = {
    "name": "compact", "file": RC, "members": MEMBERS,
    "match": r"std::pair<uint32_t, uint32_t> req_compactor<T, C, A>::compact\(req_compactor& next\)",
    "sig": "pair_u32 compact(struct reqc* self, struct reqc* next)", "throw_rv": "(pair_u32){0, 0}",
    "methods": ["get_nom_capacity"], "nloops": 0,
    "rules": [(r"std::min<uint32_t>\(", "VMIN(", 1), (r"auto compaction_range = compute_compaction_range\(", "pair_u32 compaction_range = compute_compaction_range_c(self, ", 1),
              (r"const auto num =", "const uint32_t num =", 1), (r"next\.ensure_space\(num\);", "ensure_space_c(next, num);", 1),
              (r"auto next_middle = [^;]*;", "", 1), (r"auto next_empty = [^;]*;", "", 1),
              (r"promote_evens_or_odds\(begin\(\) \+ compaction_range\.first, begin\(\) \+ compaction_range\.second, self->coin_, next_empty\);",
               "promote_c(compaction_range.first, compaction_range.second, self->coin_);", 1),
              (r"next\.num_items_ \+= num;", "next->num_items_ += num;", 1),
              (r"std::inplace_merge\(next\.begin\(\), next_middle, next\.end\(\), (?:self->)?comparator_\);", "inplace_merge_c(next);", 1),
              (r"for \(size_t i = compaction_range\.first; i < compaction_range\.second; \+\+i\) \(\*\(begin\(\) \+ i\)\)\.~T\(\);", "", 1),
              (r"(?<![\w>])ensure_enough_sections\(\);", "ensure_enough_sections_c(self);", 1),
              (r"return std::pair<uint32_t, uint32_t>\(", "return (pair_u32){", 1), (r"- starting_nom_capacity\s*\);", "- starting_nom_capacity };", 1)],
    "contract": r'''
__CPROVER_requires(WFC(self) && __CPROVER_is_fresh(next, sizeof(*next)) && next->num_items_ <= (1u << 24))
__CPROVER_requires(g_range_lo <= g_range_hi && g_range_hi <= self->num_items_ && self->state_ < ((uint64_t)1 << 62))
/* schedule invariant: an odd state means the previous compaction of this compactor drew a fresh fair coin that the next one may complement */
__CPROVER_requires((self->state_ & 1) == 1 ==> self->g_coin_fresh)
__CPROVER_assigns(verif_exc, self->coin_, self->g_coin_fresh, self->num_items_, self->state_, next->num_items_, g_coin_reads, g_secs, g_promote_calls, g_promote_odds, g_promote_n)
/* number of sections compacted follows the schedule (trailing ones of state + 1) but never exceeds num_sections_ */
__CPROVER_ensures(g_secs == VMIN((uint32_t)(__builtin_ctzll(~__CPROVER_old(self->state_)) + 1), (uint32_t)self->num_sections_))
__CPROVER_ensures((verif_exc != 0) == (g_range_hi - g_range_lo < 2))
/* coin: a fresh fair flip on even states, its complement on the following odd state - so two consecutive compactions use both halves */
__CPROVER_ensures(verif_exc == 0 ==> ((__CPROVER_old(self->state_) & 1) == 0 ? (g_coin_reads == __CPROVER_old(g_coin_reads) + 1 && self->coin_ == (g_coin != 0))
                                                                         : (g_coin_reads == __CPROVER_old(g_coin_reads) && self->coin_ == !__CPROVER_old(self->coin_))))
/* weight: the range leaves this compactor, exactly half of it (the coin's parity) is promoted to the next level with twice the weight */
__CPROVER_ensures(verif_exc == 0 ==> (g_promote_calls == __CPROVER_old(g_promote_calls) + 1 && g_promote_n == g_range_hi - g_range_lo && g_promote_odds == self->coin_))
__CPROVER_ensures(verif_exc == 0 ==> (self->num_items_ == __CPROVER_old(self->num_items_) - (g_range_hi - g_range_lo) && next->num_items_ == __CPROVER_old(next->num_items_) + (g_range_hi - g_range_lo) / 2))
__CPROVER_ensures(verif_exc == 0 ==> (self->state_ == __CPROVER_old(self->state_) + 1 && __CPROVER_return_value.first == (g_range_hi - g_range_lo) / 2))
__CPROVER_ensures(verif_exc == 0 ==> ((self->state_ & 1) == 1 ==> self->g_coin_fresh))
''',
    "inserts": [(r"self->coin_ = random_utils_random_bit\(\);", "self->g_coin_fresh = 1;", "after", 1)],
    "loops": {},
}

UNIT = {
    "id": "req_compact", "property": "C08",
    "clause": "REQ compaction step: the number of sections compacted is min(trailing ones of state + 1, num_sections) so the compaction range is even, inside the "
              "items and never reaches into the protected half (>= nominal capacity / 2 items stay); the coin is a fresh fair flip on even states and its "
              "complement on the next odd state; exactly half of the range is promoted and the rest of the range leaves the compactor",
    "prelude": PRELUDE,
    "member_checks": [{"file": RH, "members": MEMBERS}],
    "parts": [get_nom_capacity, compute_range, compact],
    "harness": r'''
void h_nom(void) { const struct reqc* c; get_nom_capacity(c); VERIF_CANARY_POINT; }
void h_range(void) { const struct reqc* c; uint32_t s; compute_compaction_range(c, s); VERIF_CANARY_POINT; }
void h_compact(void) { struct reqc* c; struct reqc* n; verif_exc = 0; compact(c, n); VERIF_CANARY_POINT; }
''',
    "jobs": [
        {"name": "get_nom_capacity", "entry": "h_nom", "enforce": "get_nom_capacity"},
        {"name": "compute_compaction_range", "entry": "h_range", "enforce": "compute_compaction_range", "replace": [], "timeout": 300},
        {"name": "compact", "entry": "h_compact", "enforce": "compact", "timeout": 300,
         "replace": ["compute_compaction_range_c", "ensure_space_c", "ensure_enough_sections_c", "promote_c", "inplace_merge_c",
                     "random_utils_random_bit", "count_trailing_zeros_in_u64"]},
    ],
    "assumptions": ["in compact(): ensure_space, ensure_enough_sections, std::inplace_merge and the destruction loop are replaced by frame-only contracts; promote_evens_or_odds by a recording contract (its own contract is unit halving)",
                    "ghost field g_coin_fresh records that coin_ came from a fair flip; req_compactor::merge() is not under this contract (see known findings / DESIGN)"],
}
