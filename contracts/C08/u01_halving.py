KH = "kll/include/kll_helper_impl.hpp"
RC = "req/include/req_compactor_impl.hpp"
QS = "quantiles/include/quantiles_sketch_impl.hpp"

PRELUDE = r'''
typedef uint64_t T;
#define LEN_CAP ((uint32_t)1 << 30)
#ifndef PROMOTE_BOUND
#define PROMOTE_BOUND 32
#endif
/* internal randomness is adversarial nondeterminism: every read is counted, the value read is a ghost */
uint32_t g_coin; uint32_t g_coin_reads; uint16_t g_unif; uint32_t g_unif_reads; uint16_t g_unif_lo, g_unif_hi;
uint32_t random_utils_random_bit(void)
  __CPROVER_assigns(g_coin_reads) __CPROVER_ensures(g_coin_reads == __CPROVER_old(g_coin_reads) + 1 && __CPROVER_return_value == g_coin && g_coin <= 1);
uint16_t verif_uniform_u16(uint16_t lo, uint16_t hi)
  __CPROVER_requires(lo <= hi)
  __CPROVER_assigns(g_unif_reads, g_unif_lo, g_unif_hi)
  __CPROVER_ensures(g_unif_reads == __CPROVER_old(g_unif_reads) + 1 && g_unif_lo == lo && g_unif_hi == hi && __CPROVER_return_value == g_unif && g_unif >= lo && g_unif <= hi);
bool is_even(uint32_t value) __CPROVER_assigns() __CPROVER_ensures(__CPROVER_return_value == ((value & 1) == 0));
uint32_t g_k; T g_even, g_odd;   /* ghost pair index and the two members of that pair before the call */
struct level { T* data; size_t size; size_t cap; };
'''
VALID = [(r"#ifdef KLL_VALIDATION[^#]*#else", "", 1), (r"#endif", "", 1)]
MOVE = [(r"std::move\(([^()]*(?:\[[^\]]*\])?)\)", r"\1", None)]

halve_down = {
    "name": "randomly_halve_down", "file": KH, "match": r"void kll_helper::randomly_halve_down\(T\* buf, uint32_t start, uint32_t length\)",
    "sig": "void randomly_halve_down(T* buf, uint32_t start, uint32_t length)", "pre_rules": VALID, "rules": MOVE, "nloops": 1,
    "contract": r'''
__CPROVER_requires(start <= LEN_CAP && length <= LEN_CAP && __CPROVER_is_fresh(buf, ((size_t)start + length) * sizeof(T)))
__CPROVER_requires(2 * (size_t)g_k + 1 < length && g_even == buf[start + 2 * g_k] && g_odd == buf[start + 2 * g_k + 1])
__CPROVER_assigns(verif_exc, g_coin_reads, __CPROVER_object_whole(buf))
__CPROVER_ensures((verif_exc != 0) == ((length & 1) != 0))
/* exactly one fair coin is read, whatever its value */
__CPROVER_ensures(verif_exc == 0 ==> g_coin_reads == __CPROVER_old(g_coin_reads) + 1)
/* the surviving half is, pair by pair, the even member (coin 0) or the odd member (coin 1): the two coin outcomes keep complementary halves */
__CPROVER_ensures(verif_exc == 0 ==> buf[start + g_k] == (g_coin ? g_odd : g_even))
''',
    "loops": {1: r'''
__CPROVER_assigns(i, j, __CPROVER_object_whole(buf))
__CPROVER_loop_invariant(i >= start && i <= start + half_length && j == offset + 2 * i - start)
__CPROVER_loop_invariant(i - start <= g_k ==> (buf[start + 2 * g_k] == g_even && buf[start + 2 * g_k + 1] == g_odd))
__CPROVER_loop_invariant(i - start > g_k ==> buf[start + g_k] == (g_coin ? g_odd : g_even))
__CPROVER_decreases(start + half_length - i)
'''},
}

halve_up = {
    "name": "randomly_halve_up", "file": KH, "match": r"void kll_helper::randomly_halve_up\(T\* buf, uint32_t start, uint32_t length\)",
    "sig": "void randomly_halve_up(T* buf, uint32_t start, uint32_t length)", "pre_rules": VALID, "rules": MOVE, "nloops": 1,
    "contract": r'''
/* call sites (general_compress, compress_while_updating) pass a level population >= the level capacity >= 2 */
__CPROVER_requires(start <= LEN_CAP && length >= 2 && length <= LEN_CAP && __CPROVER_is_fresh(buf, ((size_t)start + length) * sizeof(T)))
__CPROVER_requires(2 * (size_t)g_k + 1 < length && g_even == buf[start + 2 * g_k] && g_odd == buf[start + 2 * g_k + 1])
__CPROVER_assigns(verif_exc, g_coin_reads, __CPROVER_object_whole(buf))
__CPROVER_ensures((verif_exc != 0) == ((length & 1) != 0))
__CPROVER_ensures(verif_exc == 0 ==> g_coin_reads == __CPROVER_old(g_coin_reads) + 1)
/* survivors occupy the upper half; pair g_k survives as its odd member (coin 0) or even member (coin 1) */
__CPROVER_ensures(verif_exc == 0 ==> buf[start + length / 2 + g_k] == (g_coin ? g_even : g_odd))
''',
    "loops": {1: r'''
__CPROVER_assigns(i, j, __CPROVER_object_whole(buf))
__CPROVER_loop_invariant(i + 1 >= start + half_length && i <= start + length - 1)
__CPROVER_loop_invariant((uint32_t)(j + 2 * (start + length - 1 - i)) == (uint32_t)(start + length - 1 - offset))
__CPROVER_loop_invariant(i >= start + half_length + g_k ==> (buf[start + 2 * g_k] == g_even && buf[start + 2 * g_k + 1] == g_odd))
__CPROVER_loop_invariant(i < start + half_length + g_k ==> buf[start + half_length + g_k] == (g_coin ? g_even : g_odd))
__CPROVER_decreases(i + 1 - (start + half_length))
'''},
}

promote = {
    "name": "promote_evens_or_odds", "file": RC,
    "match": r"void req_compactor<T, C, A>::promote_evens_or_odds\(InIter from, InIter to, bool odds, OutIter dst\)",
    "sig": "void promote_evens_or_odds(T* from, T* to, bool odds, T* dst)",
    "rules": [(r"new \(dst\) T\(std::move\(\*i\)\);", "*dst = *i;", 1), (r"InIter i = from;", "T* i = from;", 1)], "nloops": 1,
    "contract": r'''
__CPROVER_requires(g_n <= PROMOTE_BOUND && (g_n & 1) == 0 && __CPROVER_is_fresh(from, (size_t)g_n * sizeof(T)) && __CPROVER_is_fresh(dst, ((size_t)g_n / 2 + 1) * sizeof(T)))
__CPROVER_requires(to == from + g_n)
__CPROVER_requires(2 * (size_t)g_k + 1 < g_n && g_even == from[2 * g_k] && g_odd == from[2 * g_k + 1])
__CPROVER_assigns(g_dst0, g_cnt, __CPROVER_object_whole(dst))
/* of every consecutive pair of the (even-length) compaction range exactly one member is promoted: the odd one iff 'odds' */
__CPROVER_ensures(dst[g_k] == (odds ? g_odd : g_even))
''',
    "inserts": [(r"T\* i = from;", "g_dst0 = dst; g_cnt = 0;", "after", 1), (r"\+\+dst;", "g_cnt++;", "after", 1)],
}

UNIT = {
    "id": "halving", "property": "C08",
    "clause": "structural unbiasedness of one compaction: KLL randomly_halve_down/up and REQ promote_evens_or_odds keep, of every consecutive pair of the "
              "sorted even-length run, exactly one member - the one selected by the coin - so the two coin outcomes keep complementary halves whose "
              "weight-2 ranks average to the true rank of the run; exactly one coin is read per halving, independent of its value; odd lengths are refused",
    "prelude": PRELUDE + "uint32_t g_n; T* g_dst0; uint32_t g_cnt;\n",
    "parts": [halve_down, halve_up, promote],
    "harness": r'''
void h_down(void) { T* b; uint32_t s, n; verif_exc = 0; randomly_halve_down(b, s, n); VERIF_CANARY_POINT; }
void h_up(void) { T* b; uint32_t s, n; verif_exc = 0; randomly_halve_up(b, s, n); VERIF_CANARY_POINT; }
void h_promote(void) { T* f; T* t; bool o; T* d; promote_evens_or_odds(f, t, o, d); VERIF_CANARY_POINT; }
''',
    "jobs": [
        {"name": "kll_randomly_halve_down", "entry": "h_down", "enforce": "randomly_halve_down", "replace": ["random_utils_random_bit", "is_even"], "loops": True,
         "expect_loop_steps": 1, "timeout": 600},
        {"name": "kll_randomly_halve_up", "entry": "h_up", "enforce": "randomly_halve_up", "replace": ["random_utils_random_bit", "is_even"], "loops": True,
         "expect_loop_steps": 1, "timeout": 600},
        {"name": "req_promote_evens_or_odds", "entry": "h_promote", "enforce": "promote_evens_or_odds", "unwind": 18, "timeout": 600, "kind": "bounded",
         "bound": "compaction range of at most 32 items (16 pairs): the loop walks two pointer iterators, which loop contracts cannot close in this cbmc (havocked pointers)",
         "defines": {"PROMOTE_BOUND": 32}},
    ],
    "assumptions": ["random_utils::random_bit() is a nondeterministic bit (ghost g_coin): what is proved holds for every coin outcome; fairness of the engine is not a contract",
                    "the published-error coverage sentence of C08 is statistical: not decided"],
}

# ---------------------------------------------------------------- classic quantiles: zip_buffer / zip_buffer_with_stride
LEVEL = [(r"\(\*buf_in\)\.size\(\)", "buf_in->size", None), (r"\(\*buf_out\)\.capacity\(\)", "buf_out->cap", None), (r"\(\*buf_out\)\.size\(\)", "buf_out->size", None),
         (r"\(\*buf_in\)\.clear\(\);", "buf_in->size = 0;", "any"),
         (r"\(\*buf_out\)\.push_back\((?:std_move|conditional_forward<FwdV>)\(\(\*buf_in\)\[i\]\)\);", "{ __CPROVER_assert(buf_out->size < buf_out->cap, \"push_back within reserved capacity\"); buf_out->data[buf_out->size++] = buf_in->data[i]; }", 1)]
QVALID = [(r"#ifdef QUANTILES_VALIDATION[^#]*#else", "", 1), (r"#endif", "", 1)]

zip_buffer = {
    "name": "zip_buffer", "file": QS, "match": r"void quantiles_sketch<T, C, A>::zip_buffer\(Level& buf_in, Level& buf_out\)",
    "sig": "void zip_buffer(struct level* buf_in, struct level* buf_out)", "refs": ["buf_in", "buf_out"], "pre_rules": QVALID, "nloops": 1,
    "post_rules": LEVEL,
    "contract": r'''
__CPROVER_requires(__CPROVER_is_fresh(buf_in, sizeof(*buf_in)) && __CPROVER_is_fresh(buf_out, sizeof(*buf_out)) && buf_out->cap >= 1 && buf_out->cap <= (1 << 16) &&
                   buf_in->size <= buf_in->cap && buf_in->cap <= (1 << 17) && buf_out->size <= buf_out->cap &&
                   __CPROVER_is_fresh(buf_in->data, buf_in->cap * sizeof(T)) && __CPROVER_is_fresh(buf_out->data, buf_out->cap * sizeof(T)))
__CPROVER_requires(g_k < buf_out->cap && (buf_in->size == 2 * buf_out->cap ==> (g_even == buf_in->data[2 * g_k] && g_odd == buf_in->data[2 * g_k + 1])))
__CPROVER_assigns(verif_exc, g_coin_reads, buf_in->size, buf_out->size, __CPROVER_object_whole(buf_out->data))
__CPROVER_ensures((verif_exc != 0) == (__CPROVER_old(buf_in->size) != 2 * buf_out->cap || __CPROVER_old(buf_out->size) > 0))
/* one coin; the output holds, pair by pair, the even (coin 0) or odd (coin 1) member of the 2k sorted inputs; the input buffer is emptied */
__CPROVER_ensures(g_coin_reads == __CPROVER_old(g_coin_reads) + 1)
__CPROVER_ensures(verif_exc == 0 ==> (buf_out->size == buf_out->cap && buf_in->size == 0 && buf_out->data[g_k] == (g_coin ? g_odd : g_even)))
''',
    "loops": {1: r'''
__CPROVER_assigns(i, o, buf_out->size, __CPROVER_object_whole(buf_out->data))
__CPROVER_loop_invariant(o <= k && i == rand_offset + 2 * o && buf_out->size == o)
__CPROVER_loop_invariant(o > g_k ==> buf_out->data[g_k] == (g_coin ? g_odd : g_even))
__CPROVER_decreases(k - o)
'''},
}

zip_stride = {
    "name": "zip_buffer_with_stride", "file": QS,
    "match": r"void quantiles_sketch<T, C, A>::zip_buffer_with_stride\(FwdV&& buf_in, Level& buf_out, uint16_t stride\)",
    "sig": "void zip_buffer_with_stride(struct level* buf_in, struct level* buf_out, uint16_t stride)", "refs": ["buf_in", "buf_out"], "nloops": 1,
    "pre_rules": [(r"std::uniform_int_distribution<uint16_t> dist\(0, stride - 1\);", "", "any"),
                  (r"dist\(random_utils::rand\)", "verif_uniform_u16(0, stride - 1)", "any")],
    "post_rules": LEVEL,
    "contract": r'''
__CPROVER_requires(__CPROVER_is_fresh(buf_in, sizeof(*buf_in)) && __CPROVER_is_fresh(buf_out, sizeof(*buf_out)) && buf_out->cap >= 1 && buf_out->cap <= (1 << 15) &&
                   stride >= 2 && stride <= 512 && (stride & (stride - 1)) == 0 && (size_t)stride * buf_out->cap <= (1 << 16) - 1 &&
                   buf_in->size <= buf_in->cap && buf_in->cap <= (1 << 17) && buf_out->size <= buf_out->cap &&
                   __CPROVER_is_fresh(buf_in->data, buf_in->cap * sizeof(T)) && __CPROVER_is_fresh(buf_out->data, buf_out->cap * sizeof(T)))
__CPROVER_requires(g_k < buf_out->cap && g_m < stride && (buf_in->size == (size_t)stride * buf_out->cap ==> g_even == buf_in->data[(size_t)stride * g_k + g_m]))
__CPROVER_assigns(verif_exc, g_coin_reads, g_unif_reads, g_unif_lo, g_unif_hi, buf_out->size, __CPROVER_object_whole(buf_out->data))
__CPROVER_ensures((verif_exc != 0) == (buf_in->size != (size_t)stride * buf_out->cap || __CPROVER_old(buf_out->size) > 0))
/* the offset is ONE uniform draw over the whole group [0, stride-1] (every member of a group of `stride` items can be chosen), no coin */
__CPROVER_ensures(g_unif_reads == __CPROVER_old(g_unif_reads) + 1 && g_unif_lo == 0 && g_unif_hi == stride - 1 && g_coin_reads == __CPROVER_old(g_coin_reads))
/* output k = the member at that offset of every group; input untouched */
__CPROVER_ensures((verif_exc == 0 && g_m == g_unif) ==> (buf_out->size == buf_out->cap && buf_out->data[g_k] == g_even))
''',
    "loops": {1: r'''
__CPROVER_assigns(i, o, buf_out->size, __CPROVER_object_whole(buf_out->data))
__CPROVER_loop_invariant(o <= k && (size_t)i == (size_t)rand_offset + (size_t)stride * o && buf_out->size == o)
__CPROVER_loop_invariant((o > g_k && g_m == g_unif) ==> buf_out->data[g_k] == g_even)
__CPROVER_decreases(k - o)
'''},
}

UNIT["parts"] += [zip_buffer, zip_stride]
UNIT["prelude"] += "uint16_t g_m;\n"
UNIT["harness"] += r'''
void h_zip(void) { struct level* a; struct level* b; verif_exc = 0; zip_buffer(a, b); VERIF_CANARY_POINT; }
void h_zips(void) { struct level* a; struct level* b; uint16_t s; verif_exc = 0; zip_buffer_with_stride(a, b, s); VERIF_CANARY_POINT; }
'''
UNIT["jobs"] += [
    {"name": "quantiles_zip_buffer", "entry": "h_zip", "enforce": "zip_buffer", "replace": ["random_utils_random_bit"], "loops": True, "expect_loop_steps": 1, "timeout": 600},
    {"name": "quantiles_zip_buffer_with_stride", "entry": "h_zips", "enforce": "zip_buffer_with_stride", "replace": ["verif_uniform_u16", "random_utils_random_bit"], "loops": True,
     "expect_loop_steps": 1, "timeout": 600},
]
UNIT["clause"] += "; classic quantiles zip_buffer keeps one member of every pair by one coin; zip_buffer_with_stride draws its offset once, uniformly over the whole group of `stride` items, and keeps that member of every group"
UNIT["assumptions"] += ["std::vector Level is modelled as (data, size, cap); push_back beyond the reserved capacity is an obligation",
                        "std::uniform_int_distribution<uint16_t>(0, stride-1)(rand) is a nondeterministic value in [0, stride-1] (ghost g_unif)"]
