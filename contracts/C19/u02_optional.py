F = "common/include/optional.hpp"
MEMBERS = ["value_", "initialized_"]
PRELUDE = r'''
/* T: an item type whose constructions and destructions are counted (ghost): 'constructed and destroyed exactly once' is g_objs bookkeeping */
typedef struct { uint64_t v; } T;
struct optional { T value_; bool initialized_; };
int g_objs;   /* ghost: live T objects = constructions - destructions */
#define T_CONSTRUCT(dst, src) do { g_objs++; *(dst) = (src); } while (0)
#define T_DESTROY(p) do { g_objs--; } while (0)
#define B(x) ((x) ? 1 : 0)
'''
NEW = [(r"new \(&self->value_\) T\((?:std::move\()?other\.value_\)?\);", "T_CONSTRUCT(&self->value_, other.value_);", 1)]
DTOR = [(r"self->value_\.~T\(\);", "T_DESTROY(&self->value_);", 1)]
ASSIGN = [(r"self->value_ = (?:std::move\()?other\.value_\)?;", "self->value_ = other.value_;", 1)]
REQ = "__CPROVER_requires(__CPROVER_is_fresh(self, sizeof(*self)) && __CPROVER_is_fresh(other, sizeof(*other)) && g_objs > -1000 && g_objs < 1000)\n"

def fn(name, match, sig, rules, contract, **kw):
    d = {"name": name, "file": F, "members": MEMBERS, "match": match, "sig": sig, "rules": rules, "contract": contract}
    d.update(kw)
    return d

copy_ctor = fn("opt_copy_ctor", r"optional\(const optional& other\)", "void opt_copy_ctor(struct optional* self, const struct optional* other)", NEW,
    REQ + r'''__CPROVER_assigns(g_objs, __CPROVER_object_whole(self))
__CPROVER_ensures(B(self->initialized_) == B(other->initialized_) && (other->initialized_ ==> self->value_.v == other->value_.v))
__CPROVER_ensures(g_objs == __CPROVER_old(g_objs) + B(other->initialized_))
''', ctor=True, refs=["other"])
move_ctor = fn("opt_move_ctor", r"optional\(optional&& other\)", "void opt_move_ctor(struct optional* self, struct optional* other)", NEW,
    REQ + r'''__CPROVER_assigns(g_objs, __CPROVER_object_whole(self))
__CPROVER_ensures(B(self->initialized_) == B(other->initialized_) && (other->initialized_ ==> self->value_.v == other->value_.v))
/* the source still holds its (moved-from) object, which its own destructor destroys */
__CPROVER_ensures(g_objs == __CPROVER_old(g_objs) + B(other->initialized_))
''', ctor=True, refs=["other"])
dtor = fn("opt_dtor", r"~optional\(\)", "void opt_dtor(struct optional* self)", DTOR,
    r'''__CPROVER_requires(__CPROVER_is_fresh(self, sizeof(*self)) && g_objs > -1000 && g_objs < 1000)
__CPROVER_assigns(g_objs)
__CPROVER_ensures(g_objs == __CPROVER_old(g_objs) - B(self->initialized_))
''')
reset = fn("opt_reset", r"void reset\(\)", "void opt_reset(struct optional* self)", DTOR,
    r'''__CPROVER_requires(__CPROVER_is_fresh(self, sizeof(*self)) && g_objs > -1000 && g_objs < 1000)
__CPROVER_assigns(g_objs, self->initialized_)
__CPROVER_ensures(!self->initialized_ && g_objs == __CPROVER_old(g_objs) - B(__CPROVER_old(self->initialized_)))
''')
ASSIGN_CONTRACT = REQ + r'''__CPROVER_assigns(g_objs, __CPROVER_object_whole(self))
/* assignment gives the target the source's state: engaged iff the source is, with the source's value */
__CPROVER_ensures(B(self->initialized_) == B(other->initialized_) && (other->initialized_ ==> self->value_.v == other->value_.v))
/* an engaged target assigned from a disengaged source destroys its object; a disengaged target constructs one; otherwise nothing is constructed or destroyed */
__CPROVER_ensures(g_objs == __CPROVER_old(g_objs) + B(other->initialized_) - B(__CPROVER_old(self->initialized_)))
'''
RET = [(r"return \*this;", "return;", 1)]
copy_assign = fn("opt_copy_assign", r"optional& operator=\(const optional& other\)", "void opt_copy_assign(struct optional* self, const struct optional* other)",
                 NEW + ASSIGN + RET, ASSIGN_CONTRACT, refs=["other"], methods=[("opt_reset",)], pre_rules=[(r"(?<![\w>.])reset\(\);", "opt_reset();", "any")])
move_assign = fn("opt_move_assign", r"optional& operator=\(optional&& other\)", "void opt_move_assign(struct optional* self, struct optional* other)",
                 NEW + ASSIGN + RET, ASSIGN_CONTRACT, refs=["other"], methods=[("opt_reset",)], pre_rules=[(r"(?<![\w>.])reset\(\);", "opt_reset();", "any")])

HARNESS = "".join("void h_%s(void) { struct optional* s = malloc(sizeof(*s)); struct optional* o = malloc(sizeof(*o)); %s; VERIF_CANARY_POINT; }\n" % (n, c) for n, c in [
    ("copy_ctor", "opt_copy_ctor(s, o)"), ("move_ctor", "opt_move_ctor(s, o)"), ("dtor", "opt_dtor(s)"), ("reset", "opt_reset(s)"),
    ("copy_assign", "opt_copy_assign(s, o)"), ("move_assign", "opt_move_assign(s, o)")])

UNIT = {
    "id": "optional", "property": "C19",
    "clause": "datasketches::optional<T> (holds min/max items of KLL, REQ, quantiles and the partial item of EBPPS before C++17): copy/move construction, destruction, reset, copy and move "
              "assignment - the target ends engaged exactly when the source is, with the source's value, and T objects are constructed and destroyed exactly once (ghost object counter)",
    "prelude": PRELUDE,
    "parts": [reset, copy_ctor, move_ctor, dtor, copy_assign, move_assign],
    "harness": HARNESS,
    "jobs": [{"name": n, "entry": "h_" + n, "enforce": "opt_" + n, "timeout": 300, **({"replace": ["opt_reset"]} if "assign" in n else {})}
             for n in ("reset", "copy_ctor", "move_ctor", "dtor", "copy_assign", "move_assign")],
    "assumptions": ["T is a one-field struct; placement new = counted construction + copy, ~T() = counted destruction (move == copy for the value); exception specifications dropped",
                    "emplace() is not under contract: it constructs over the storage without destroying a previous object, so its callers must hold !initialized_ (call sites not checked)"],
}
