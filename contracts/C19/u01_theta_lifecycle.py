import crules
F = "theta/include/theta_update_sketch_base_impl.hpp"
MEMBERS = ["is_empty_", "lg_cur_size_", "lg_nom_size_", "rf_", "p_", "num_entries_", "theta_", "seed_", "entries_"]
TB = "theta_update_sketch_base<EN, EK, A>"

PRELUDE = r'''
typedef uint64_t EN;
#define KEY(x) (x)
typedef uint8_t resize_factor;
struct theta_base { bool is_empty_; uint8_t lg_cur_size_; uint8_t lg_nom_size_; uint8_t rf_; float p_;
                    uint32_t num_entries_; uint64_t theta_; uint64_t seed_; EN* entries_; };
#define TSIZE(lg) (((size_t)1 << (lg)) * sizeof(EN))
size_t g_j;            /* ghost index: an arbitrary slot */
int g_live;            /* ghost: number of live blocks obtained from the allocator */
static EN* th_alloc(size_t n) { g_live++; return (EN*)verif_alloc(n * sizeof(EN)); }
static void th_free(EN* p, size_t n) { g_live--; verif_free(p, n * sizeof(EN)); }
/* a well-formed object: no table, or a table of exactly 2^lg_cur_size_ entries owned by it */
#define TB_OK(t) ((t)->lg_cur_size_ <= 27 && ((t)->entries_ == NULL || __CPROVER_rw_ok((t)->entries_, TSIZE((t)->lg_cur_size_))))
#define TB_FRESH(t) ((t)->lg_cur_size_ <= 27 && ((t)->entries_ == NULL || __CPROVER_is_fresh((t)->entries_, TSIZE((t)->lg_cur_size_))))
#define SAME_FIELDS(a, b) ((a)->is_empty_ == (b)->is_empty_ && (a)->lg_cur_size_ == (b)->lg_cur_size_ && (a)->lg_nom_size_ == (b)->lg_nom_size_ && (a)->rf_ == (b)->rf_ && \
                           (a)->num_entries_ == (b)->num_entries_ && (a)->theta_ == (b)->theta_ && (a)->seed_ == (b)->seed_)
'''
ALLOC = [(r"(?:self->)?allocator_\.allocate\(([^()]*)\)", r"th_alloc(\1)", 1)]
DEALLOC = [(r"(?:self->)?allocator_\.deallocate\(([^(),]*),\s*([^()]*)\)", r"th_free(\1, \2)", 1)]
DROP_ALLOC_INIT = [(r"self->allocator_ = CTOR_INIT\([^;]*\);", "", 1)]
DROP_ALLOC_SWAP = [(r"std::swap\((?:self->)?allocator_, \w+\.allocator_\);", "", 1)]

ctor = {
    "name": "tb_ctor", "file": F, "ctor": True, "members": MEMBERS,
    "match": r"%s::theta_update_sketch_base\(uint8_t lg_cur_size, uint8_t lg_nom_size, resize_factor rf, float p, uint64_t theta, uint64_t seed, const A& allocator, bool is_empty\)" % TB,
    "sig": "void tb_ctor(struct theta_base* self, uint8_t lg_cur_size, uint8_t lg_nom_size, resize_factor rf, float p, uint64_t theta, uint64_t seed, bool is_empty)",
    "dropped_params": ["allocator"], "pre_rules": DROP_ALLOC_INIT, "rules": ALLOC, "nloops": 1,
    "contract": r'''
__CPROVER_requires(__CPROVER_is_fresh(self, sizeof(*self)) && lg_cur_size <= 27 && g_live >= 0 && g_live < 1000)
__CPROVER_assigns(g_live, __CPROVER_object_whole(self))
/* exactly one block of 2^lg_cur_size entries (none for lg_cur_size 0), every slot marked empty */
__CPROVER_ensures(lg_cur_size == 0 ==> (self->entries_ == NULL && g_live == __CPROVER_old(g_live)))
__CPROVER_ensures(lg_cur_size > 0 ==> (__CPROVER_rw_ok(self->entries_, TSIZE(lg_cur_size)) && __CPROVER_OBJECT_SIZE(self->entries_) == TSIZE(lg_cur_size) && g_live == __CPROVER_old(g_live) + 1))
__CPROVER_ensures((lg_cur_size > 0 && g_j < ((size_t)1 << lg_cur_size)) ==> KEY(self->entries_[g_j]) == 0)
__CPROVER_ensures(self->lg_cur_size_ == lg_cur_size && self->lg_nom_size_ == lg_nom_size && self->rf_ == rf && self->theta_ == theta && self->seed_ == seed && self->is_empty_ == is_empty && self->num_entries_ == 0)
''',
    "loops": {1: r'''
__CPROVER_assigns(i, __CPROVER_object_whole(self->entries_))
__CPROVER_loop_invariant(i <= size)
__CPROVER_loop_invariant(g_j < i ==> KEY(self->entries_[g_j]) == 0)
__CPROVER_decreases(size - i)
'''},
}

copy_ctor = {
    "name": "tb_copy_ctor", "file": F, "ctor": True, "members": MEMBERS, "refs": ["other"],
    "match": r"%s::theta_update_sketch_base\(const theta_update_sketch_base& other\)" % TB,
    "sig": "void tb_copy_ctor(struct theta_base* self, const struct theta_base* other)",
    "pre_rules": DROP_ALLOC_INIT, "nloops": 1,
    "rules": ALLOC + [(r"new \(&self->entries_\[i\]\) EN\(other\.entries_\[i\]\);", "self->entries_[i] = other.entries_[i];", 1)],
    "scope": True,
    "contract": r'''
__CPROVER_requires(__CPROVER_is_fresh(self, sizeof(*self)) && __CPROVER_is_fresh(other, sizeof(*other)) && TB_FRESH(other) && g_live >= 0 && g_live < 1000)
__CPROVER_assigns(g_live, __CPROVER_object_whole(self))
/* observationally equal: same scalar state, same content in every slot (ghost slot g_j) */
__CPROVER_ensures(SAME_FIELDS(self, other))
__CPROVER_ensures(other->entries_ == NULL ==> (self->entries_ == NULL && g_live == __CPROVER_old(g_live)))
__CPROVER_ensures((other->entries_ != NULL && g_j < ((size_t)1 << other->lg_cur_size_)) ==> self->entries_[g_j] == other->entries_[g_j])
/* independent: its own block, of exactly the size its destructor will release */
__CPROVER_ensures(other->entries_ != NULL ==> (!__CPROVER_same_object(self->entries_, other->entries_) && __CPROVER_rw_ok(self->entries_, TSIZE(self->lg_cur_size_))
                                               && __CPROVER_OBJECT_SIZE(self->entries_) == TSIZE(self->lg_cur_size_) && g_live == __CPROVER_old(g_live) + 1))
''',
    "loops": {1: r'''
__CPROVER_assigns(i, __CPROVER_object_whole(self->entries_))
__CPROVER_loop_invariant(i <= size)
__CPROVER_loop_invariant(g_j < i ==> self->entries_[g_j] == other->entries_[g_j])
__CPROVER_decreases(size - i)
'''},
}

move_ctor = {
    "name": "tb_move_ctor", "file": F, "ctor": True, "members": MEMBERS, "refs": ["other"],
    "match": r"%s::theta_update_sketch_base\(theta_update_sketch_base&& other\) noexcept" % TB,
    "sig": "void tb_move_ctor(struct theta_base* self, struct theta_base* other)",
    "pre_rules": DROP_ALLOC_INIT,
    "contract": r'''
__CPROVER_requires(__CPROVER_is_fresh(self, sizeof(*self)) && __CPROVER_is_fresh(other, sizeof(*other)))
__CPROVER_assigns(__CPROVER_object_whole(self), other->entries_)
/* the exact state moves; the source keeps no table (safely destructible: the destructor does nothing for entries_ == nullptr) */
__CPROVER_ensures(SAME_FIELDS(self, other) && self->entries_ == __CPROVER_old(other->entries_) && other->entries_ == NULL)
''',
}

dtor = {
    "name": "tb_dtor", "file": F, "members": MEMBERS,
    "match": r"%s::~theta_update_sketch_base\(\)" % TB,
    "sig": "void tb_dtor(struct theta_base* self)", "nloops": 1,
    "rules": DEALLOC + [(r"self->entries_\[i\]\.~EN\(\);", "(void)0;", 1)],
    "contract": r'''
__CPROVER_requires(__CPROVER_is_fresh(self, sizeof(*self)) && TB_FRESH(self) && g_live > -1000 && g_live < 1000)
__CPROVER_assigns(g_live)
__CPROVER_frees(self->entries_)
/* releases its table with the size it was allocated with (size assertion inside th_free), or nothing */
__CPROVER_ensures(g_live == __CPROVER_old(g_live) - (__CPROVER_old(self->entries_) != NULL ? 1 : 0))
''',
    "loops": {1: r'''
__CPROVER_assigns(i)
__CPROVER_loop_invariant(i <= size)
__CPROVER_decreases(size - i)
'''},
}

SWAPS = [crules.SWAP + (9,)]
copy_assign = {
    "name": "tb_copy_assign", "file": F, "members": MEMBERS, "refs": ["other"],
    "match": r"%s& %s::operator=\(const theta_update_sketch_base& other\)" % (TB, TB),
    "sig": "void tb_copy_assign(struct theta_base* self, const struct theta_base* other)",
    "pre_rules": [(r"theta_update_sketch_base<EN, EK, A> copy\(other\);", "struct theta_base copy; tb_copy_ctor(&copy, &other);", 1)] + DROP_ALLOC_SWAP,
    # C++ scope exit: the local 'copy' is destroyed when the function returns
    "rules": SWAPS + [(r"return \*this;", "tb_dtor(&copy); return;", 1)],
    "contract": r'''
__CPROVER_requires(__CPROVER_is_fresh(self, sizeof(*self)) && TB_FRESH(self) && __CPROVER_is_fresh(other, sizeof(*other)) && TB_FRESH(other) && g_live >= 1 && g_live < 1000)
__CPROVER_assigns(g_live, __CPROVER_object_whole(self))
__CPROVER_frees(self->entries_)
__CPROVER_ensures(SAME_FIELDS(self, other))
__CPROVER_ensures((other->entries_ != NULL && g_j < ((size_t)1 << other->lg_cur_size_)) ==> self->entries_[g_j] == other->entries_[g_j])
__CPROVER_ensures(other->entries_ != NULL ==> (!__CPROVER_same_object(self->entries_, other->entries_) && __CPROVER_OBJECT_SIZE(self->entries_) == TSIZE(self->lg_cur_size_)))
/* the table held before the assignment is released: live blocks change by (new table) - (old table) */
__CPROVER_ensures(g_live == __CPROVER_old(g_live) + (other->entries_ != NULL ? 1 : 0) - (__CPROVER_old(self->entries_) != NULL ? 1 : 0))
''',
}
move_assign = {
    "name": "tb_move_assign", "file": F, "members": MEMBERS, "refs": ["other"],
    "match": r"%s& %s::operator=\(theta_update_sketch_base&& other\)" % (TB, TB),
    "sig": "void tb_move_assign(struct theta_base* self, struct theta_base* other)",
    "pre_rules": DROP_ALLOC_SWAP, "rules": SWAPS + [(r"return \*this;", "return;", 1)],
    "contract": r'''
__CPROVER_requires(__CPROVER_is_fresh(self, sizeof(*self)) && __CPROVER_is_fresh(other, sizeof(*other)))
__CPROVER_assigns(__CPROVER_object_whole(self), __CPROVER_object_whole(other))
/* the state is exchanged: the target takes the source's state, the source takes the target's old state (and releases it when it dies) */
__CPROVER_ensures(self->entries_ == __CPROVER_old(other->entries_) && other->entries_ == __CPROVER_old(self->entries_))
__CPROVER_ensures(self->lg_cur_size_ == __CPROVER_old(other->lg_cur_size_) && other->lg_cur_size_ == __CPROVER_old(self->lg_cur_size_))
__CPROVER_ensures(self->num_entries_ == __CPROVER_old(other->num_entries_) && self->theta_ == __CPROVER_old(other->theta_) && self->seed_ == __CPROVER_old(other->seed_)
                  && self->is_empty_ == __CPROVER_old(other->is_empty_) && self->lg_nom_size_ == __CPROVER_old(other->lg_nom_size_) && self->rf_ == __CPROVER_old(other->rf_))
''',
}

HARNESS = r'''
void h_ctor(void) { struct theta_base* s = malloc(sizeof(*s)); tb_ctor(s, nondet_u8(), nondet_u8(), nondet_u8(), 1.0f, nondet_u64(), nondet_u64(), nondet_bool()); VERIF_CANARY_POINT; }
void h_copy_ctor(void) { struct theta_base* s = malloc(sizeof(*s)); struct theta_base* o = malloc(sizeof(*o)); tb_copy_ctor(s, o); VERIF_CANARY_POINT; }
void h_move_ctor(void) { struct theta_base* s = malloc(sizeof(*s)); struct theta_base* o = malloc(sizeof(*o)); tb_move_ctor(s, o); VERIF_CANARY_POINT; }
void h_dtor(void) { struct theta_base* s = malloc(sizeof(*s)); tb_dtor(s); VERIF_CANARY_POINT; }
void h_copy_assign(void) { struct theta_base* s = malloc(sizeof(*s)); struct theta_base* o = malloc(sizeof(*o)); tb_copy_assign(s, o); VERIF_CANARY_POINT; }
void h_move_assign(void) { struct theta_base* s = malloc(sizeof(*s)); struct theta_base* o = malloc(sizeof(*o)); tb_move_assign(s, o); VERIF_CANARY_POINT; }
'''

UNIT = {
    "id": "theta_lifecycle", "property": "C19",
    "clause": "theta_update_sketch_base (the hash table under update theta and tuple sketches, union and intersection gadgets): constructor, copy constructor, move constructor, destructor, "
              "copy and move assignment - a copy has the same state and content in its own block, a move transfers the block and leaves the source without one, every block is released "
              "exactly once with the size it was allocated with, and assignment releases the table it replaces",
    "prelude": PRELUDE,
    "parts": [ctor, copy_ctor, move_ctor, dtor, copy_assign, move_assign],
    "harness": HARNESS,
    "jobs": [
        {"name": "ctor", "entry": "h_ctor", "enforce": "tb_ctor", "loops": True, "expect_loop_steps": 1, "timeout": 600},
        {"name": "copy_ctor", "entry": "h_copy_ctor", "enforce": "tb_copy_ctor", "loops": True, "expect_loop_steps": 1, "timeout": 600},
        {"name": "move_ctor", "entry": "h_move_ctor", "enforce": "tb_move_ctor", "timeout": 300},
        {"name": "dtor", "entry": "h_dtor", "enforce": "tb_dtor", "loops": True, "expect_loop_steps": 1, "timeout": 600},
        {"name": "copy_assign", "entry": "h_copy_assign", "enforce": "tb_copy_assign", "loops": True, "expect_loop_steps": 2, "timeout": 900},
        {"name": "move_assign", "entry": "h_move_assign", "enforce": "tb_move_assign", "timeout": 300},
    ],
    "assumptions": ["EN = uint64_t (trivially copyable entry: placement-new copy == assignment, destructor call == no-op); the same functions instantiated with tuple entries "
                    "(pair<uint64_t, Summary>) construct/destroy Summary objects, which is C++ object semantics the extraction drops",
                    "allocator_ member dropped: allocate/deallocate go to th_alloc/th_free = malloc/free with a size assertion and a live-block counter (stateful custom allocators not modelled)",
                    "C++ scope exit of the local 'copy' in copy assignment rendered as an explicit destructor call before return (stated rule)"],
}
