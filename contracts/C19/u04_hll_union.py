"""C19 (every object released exactly once): the HLL union's handling of implementation objects; same functions and obligations as C04 unit hll_union"""
import importlib.util, os
_spec = importlib.util.spec_from_file_location("c04union", os.path.join(os.path.dirname(__file__), "..", "C04", "u02_union.py"))
_m = importlib.util.module_from_spec(_spec); _spec.loader.exec_module(_m)
UNIT = dict(_m.UNIT)
UNIT.update({"id": "hll_union_objects", "property": "C19",
             "clause": "hll_union update(sketch&&) / union_impl / copy_or_downsample / leak_free_coupon_update: every implementation object that is replaced is released exactly once, nothing is "
                       "released twice or used after release, and afterwards the union and the input each hold exactly one live object (live-object counter; coupon lists of at most 3 coupons in the two bounded jobs)"})
