import varopt_common as V
HARNESS = r'''
void h_gas(void) { (void)get_adjusted_size(nondet_u32(), nondet_u32()); VERIF_CANARY_POINT; }
void h_alloc(void) { struct varopt* s = malloc(sizeof(*s)); allocate_data_arrays(s, nondet_u32(), nondet_bool()); VERIF_CANARY_POINT; }
void h_grow(void) { struct varopt* s = malloc(sizeof(*s)); grow_data_arrays(s); VERIF_CANARY_POINT; }
void h_strip(void) { struct varopt* s = malloc(sizeof(*s)); verif_exc = 0; strip_marks(s); VERIF_CANARY_POINT; }
'''
UNIT = {
    "id": "varopt_arrays", "property": "C19",
    "clause": "var_opt_sketch item/weight/mark arrays: allocate_data_arrays, grow_data_arrays and strip_marks obtain blocks of exactly curr_items_alloc_ elements, keep the content when growing, "
              "and release every old block exactly once with the element count it was allocated with",
    "prelude": V.PRELUDE, "parts": [V.get_adjusted_size, V.allocate_data_arrays, V.grow_data_arrays, V.strip_marks], "harness": HARNESS,
    "jobs": [{"name": "get_adjusted_size", "entry": "h_gas", "enforce": "get_adjusted_size", "timeout": 300},
             {"name": "allocate_data_arrays", "entry": "h_alloc", "enforce": "allocate_data_arrays", "timeout": 300},
             {"name": "grow_data_arrays", "entry": "h_grow", "enforce": "grow_data_arrays", "replace": ["get_adjusted_size"], "loops": True, "expect_loop_steps": 2, "timeout": 900},
             {"name": "strip_marks", "entry": "h_strip", "enforce": "strip_marks", "timeout": 300}],
    "assumptions": V.ALLOC_ASSUMPTIONS,
}
