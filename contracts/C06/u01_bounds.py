import crules
BB = "common/include/binomial_bounds.hpp"
TS = "theta/include/theta_sketch_impl.hpp"
TU = "tuple/include/tuple_sketch_impl.hpp"
UF = [(crules.div_to_uf(), "every binary / -> FDIV(left, right)", "any")]

PRELUDE = crules_consts = r'''
double __CPROVER_uninterpreted_fdiv(double, double);
#define FDIV(a, b) __CPROVER_uninterpreted_fdiv((double)(a), (double)(b))
#define NOTNAN(x) ((x) == (x))
/* the sketch as seen by the bound functions: the three virtual getters are fields */
struct sk { uint64_t theta64; bool empty; uint32_t num_retained; };
#define get_theta64(s) ((s)->theta64)
#define is_empty(s) ((s)->empty)
#define get_num_retained(s) ((s)->num_retained)
/* binomial approximations: any value (their numerics are out of reach); ASSUMED frame-only contracts */
double compute_approx_binomial_lower_bound(unsigned long long num_samples, double theta, unsigned num_std_devs) __CPROVER_assigns() __CPROVER_ensures(1);
double compute_approx_binomial_upper_bound(unsigned long long num_samples, double theta, unsigned num_std_devs) __CPROVER_assigns() __CPROVER_ensures(1);
/* ghost record of the call into binomial_bounds made by a sketch-level bound function */
unsigned long long g_n; double g_theta; unsigned g_nsd; int g_calls; double g_ret;
#define THETA_D(s) FDIV((double)(s)->theta64, (double)theta_constants_MAX_THETA)
#define EST_MODE(s) ((s)->theta64 < theta_constants_MAX_THETA && !(s)->empty)
'''
def bbfn(name, params, csig, contract, **kw):
    d = {"name": "bb_" + name, "file": BB, "match": r"static (?:double|void) %s\(%s\)" % (name, params), "sig": csig, "contract": contract}
    d.update(kw)
    return d
check_theta = bbfn("check_theta", "double theta", "void bb_check_theta(double theta)",
                   "__CPROVER_requires(verif_exc == 0)\n__CPROVER_assigns(verif_exc)\n__CPROVER_ensures((verif_exc != 0) == (theta < 0 || theta > 1))\n")
check_nsd = bbfn("check_num_std_devs", "unsigned num_std_devs", "void bb_check_num_std_devs(unsigned num_std_devs)",
                 "__CPROVER_requires(verif_exc == 0)\n__CPROVER_assigns(verif_exc)\n__CPROVER_ensures((verif_exc != 0) == (num_std_devs < 1 || num_std_devs > 3))\n")
BBR = [(r"\bcheck_theta\(", "bb_check_theta(", 1), (r"\bcheck_num_std_devs\(", "bb_check_num_std_devs(", 1), (r"std::min\(", "VMIN(", "any"), (r"std::max\(", "VMAX(", "any")] + UF
bb_lb = bbfn("get_lower_bound", "unsigned long long num_samples, double theta, unsigned num_std_devs", "double bb_get_lower_bound(unsigned long long num_samples, double theta, unsigned num_std_devs)", r'''
__CPROVER_requires(verif_exc == 0)
__CPROVER_assigns(verif_exc)
__CPROVER_ensures((verif_exc != 0) == (theta < 0 || theta > 1 || num_std_devs < 1 || num_std_devs > 3))
/* the lower bound never exceeds the estimate num_samples / theta and, unless the estimate itself is smaller, is at least the number of samples */
__CPROVER_ensures((verif_exc == 0 && NOTNAN(FDIV(num_samples, theta))) ==> __CPROVER_return_value <= FDIV(num_samples, theta))
__CPROVER_ensures((verif_exc == 0 && NOTNAN(FDIV(num_samples, theta)) && FDIV(num_samples, theta) >= (double)num_samples) ==> __CPROVER_return_value >= (double)num_samples)
''', rules=BBR, throw_rv="0.0", propagate=["check_theta", "check_num_std_devs"])
bb_ub = bbfn("get_upper_bound", "unsigned long long num_samples, double theta, unsigned num_std_devs", "double bb_get_upper_bound(unsigned long long num_samples, double theta, unsigned num_std_devs)", r'''
__CPROVER_requires(verif_exc == 0)
__CPROVER_assigns(verif_exc)
__CPROVER_ensures((verif_exc != 0) == (theta < 0 || theta > 1 || num_std_devs < 1 || num_std_devs > 3))
/* the upper bound is never below the estimate */
__CPROVER_ensures((verif_exc == 0 && NOTNAN(FDIV(num_samples, theta))) ==> __CPROVER_return_value >= FDIV(num_samples, theta))
''', rules=BBR, throw_rv="0.0", propagate=["check_theta", "check_num_std_devs"])

# sketch level: the calls into binomial_bounds go to recording stubs (contracts) so that "forwards exactly (n, theta, num_std_devs)" is a postcondition
STUBS = r'''
double rec_get_lower_bound(unsigned long long num_samples, double theta, unsigned num_std_devs)
  __CPROVER_assigns(g_n, g_theta, g_nsd, g_calls, g_ret, verif_exc) __CPROVER_ensures(g_n == num_samples && (g_theta == theta || !NOTNAN(theta)) && g_nsd == num_std_devs && g_calls == __CPROVER_old(g_calls) + 1 && (__CPROVER_return_value == g_ret || !NOTNAN(g_ret)));
double rec_get_upper_bound(unsigned long long num_samples, double theta, unsigned num_std_devs)
  __CPROVER_assigns(g_n, g_theta, g_nsd, g_calls, g_ret, verif_exc) __CPROVER_ensures(g_n == num_samples && (g_theta == theta || !NOTNAN(theta)) && g_nsd == num_std_devs && g_calls == __CPROVER_old(g_calls) + 1 && (__CPROVER_return_value == g_ret || !NOTNAN(g_ret)));
'''
SKR = [(r"theta_constants::MAX_THETA", "theta_constants_MAX_THETA", "any"), (r"get_theta64\(\)", "get_theta64(self)", "any"), (r"is_empty\(\)", "is_empty(self)", "any"),
       (r"get_num_retained\(\)", "get_num_retained(self)", "any"), (r"binomial_bounds::get_lower_bound\(", "rec_get_lower_bound(", "any"), (r"binomial_bounds::get_upper_bound\(", "rec_get_upper_bound(", "any"),
       (r"std::min\(", "VMIN(", "any")]
def skfn(cls, file, prefix, name, params, csig, contract, ret="double", **kw):
    d = {"name": prefix + name, "file": file, "match": r"%s %s::%s\(%s\) const" % (ret, cls, name, params), "sig": csig, "contract": contract, "pre_rules": SKR + kw.pop("pre_rules", []), "rules": UF, "scope": False}
    d.update(kw)
    return d
SELF = "__CPROVER_requires(__CPROVER_is_fresh(self, sizeof(*self)) && verif_exc == 0 && g_calls == 0)\n"
FRAME = "__CPROVER_assigns(g_n, g_theta, g_nsd, g_calls, g_ret, verif_exc)\n"
def bound_contract(which, subset):
    n = "VMIN(num_subset_entries, self->num_retained)" if subset else "self->num_retained"
    return SELF + FRAME + (r'''
/* not in estimation mode: the bound is the exact count, and binomial_bounds is not consulted */
__CPROVER_ensures(!EST_MODE(self) ==> (__CPROVER_return_value == (double)(%s) && g_calls == 0))
/* estimation mode: exactly binomial_bounds::get_%s_bound(count, theta, num_std_devs) */
__CPROVER_ensures(EST_MODE(self) ==> (g_calls == 1 && g_n == (%s) && g_nsd == num_std_devs && (g_theta == THETA_D(self) || !NOTNAN(THETA_D(self))) && (__CPROVER_return_value == g_ret || !NOTNAN(g_ret))))
''' % (n, which, n))

def family(cls, file, prefix, subset):
    P = []
    P.append(skfn(cls, file, prefix, "is_estimation_mode", "", "bool %sis_estimation_mode(const struct sk* self)" % prefix,
                  "__CPROVER_requires(__CPROVER_is_fresh(self, sizeof(*self)))\n__CPROVER_assigns()\n__CPROVER_ensures(__CPROVER_return_value == EST_MODE(self))\n", ret="bool"))
    P.append(skfn(cls, file, prefix, "get_theta", "", "double %sget_theta(const struct sk* self)" % prefix,
                  "__CPROVER_requires(__CPROVER_is_fresh(self, sizeof(*self)))\n__CPROVER_assigns()\n__CPROVER_ensures(__CPROVER_return_value == THETA_D(self) || !NOTNAN(THETA_D(self)))\n"))
    P.append(skfn(cls, file, prefix, "get_estimate", "", "double %sget_estimate(const struct sk* self)" % prefix,
                  "__CPROVER_requires(__CPROVER_is_fresh(self, sizeof(*self)))\n__CPROVER_assigns()\n/* estimate = retained count / theta */\n"
                  "__CPROVER_ensures(__CPROVER_return_value == FDIV(self->num_retained, THETA_D(self)) || !NOTNAN(FDIV(self->num_retained, THETA_D(self))) || !NOTNAN(THETA_D(self)))\n",
                  pre_rules=[(r"(?<![\w>])get_theta\(\)", "%sget_theta(self)" % prefix, 1)]))
    calls = [(r"(?<![\w>])is_estimation_mode\(\)", "%sis_estimation_mode(self)" % prefix, "any"), (r"(?<![\w>])get_theta\(\)", "%sget_theta(self)" % prefix, "any")]
    if subset:
        for w in ("lower", "upper"):
            P.append(skfn(cls, file, prefix, "get_%s_bound" % w, "uint8_t num_std_devs, uint32_t num_subset_entries", "double %sget_%s_bound_subset(const struct sk* self, uint8_t num_std_devs, uint32_t num_subset_entries)" % (prefix, w),
                          bound_contract(w, True), pre_rules=calls, propagate=["rec_get_%s_bound" % w], throw_rv="0.0"))
            P[-1]["name"] = "%sget_%s_bound_subset" % (prefix, w)
    else:
        for w in ("lower", "upper"):
            P.append(skfn(cls, file, prefix, "get_%s_bound" % w, "uint8_t num_std_devs", "double %sget_%s_bound(const struct sk* self, uint8_t num_std_devs)" % (prefix, w),
                          bound_contract(w, False), pre_rules=calls, propagate=["rec_get_%s_bound" % w], throw_rv="0.0"))
    return P
theta_parts = family("base_theta_sketch_alloc<A>", TS, "th_", False)
tuple_parts = family("tuple_sketch<S, A>", TU, "tu_", True)

def harness_for(parts):
    out = ""
    for p in parts:
        n = p["name"]
        args = "s" + (", nondet_u8()" if "bound" in n else "") + (", nondet_u32()" if "subset" in n else "")
        out += "void h_%s(void) { struct sk* s = malloc(sizeof(*s)); verif_exc = 0; g_calls = 0; (void)%s(%s); VERIF_CANARY_POINT; }\n" % (n, n, args)
    return out
HARNESS = ("void h_bb_check_theta(void) { verif_exc = 0; bb_check_theta(nondet_double()); VERIF_CANARY_POINT; }\n"
           "void h_bb_check_num_std_devs(void) { verif_exc = 0; bb_check_num_std_devs(nondet_u32()); VERIF_CANARY_POINT; }\n"
           "void h_bb_get_lower_bound(void) { verif_exc = 0; (void)bb_get_lower_bound(nondet_u64(), nondet_double(), nondet_u32()); VERIF_CANARY_POINT; }\n"
           "void h_bb_get_upper_bound(void) { verif_exc = 0; (void)bb_get_upper_bound(nondet_u64(), nondet_double(), nondet_u32()); VERIF_CANARY_POINT; }\n"
           + harness_for(theta_parts) + harness_for(tuple_parts))
def jobs_for(parts, prefix):
    J = []
    for p in parts:
        n = p["name"]
        rep = []
        if "bound" in n:
            rep = ["rec_get_lower_bound" if "lower" in n else "rec_get_upper_bound", prefix + "is_estimation_mode", prefix + "get_theta"]
        J.append({"name": n, "entry": "h_" + n, "enforce": n, "replace": rep, "timeout": 300})
    return J
UNIT = {
    "id": "bounds", "property": "C06",
    "clause": "confidence-bound plumbing of theta and tuple sketches and the shared binomial_bounds entry points: outside estimation mode lower bound = upper bound = the exact retained "
              "(or subset) count and binomial_bounds is not consulted; in estimation mode each bound is exactly binomial_bounds::get_*_bound(count, theta64 / MAX_THETA, num_std_devs); "
              "binomial_bounds rejects theta outside [0,1] and num_std_devs outside 1..3, its lower bound never exceeds num_samples / theta and its upper bound is never below it, "
              "whatever the binomial approximations return - so lower bound <= estimate <= upper bound",
    "consts": crules.THETA_CONSTS,
    "prelude": PRELUDE + STUBS,
    "parts": [check_theta, check_nsd, bb_lb, bb_ub] + theta_parts + tuple_parts,
    "harness": HARNESS,
    "jobs": [{"name": "bb_check_theta", "entry": "h_bb_check_theta", "enforce": "bb_check_theta", "timeout": 300},
             {"name": "bb_check_num_std_devs", "entry": "h_bb_check_num_std_devs", "enforce": "bb_check_num_std_devs", "timeout": 300},
             {"name": "bb_get_lower_bound", "entry": "h_bb_get_lower_bound", "enforce": "bb_get_lower_bound", "replace": ["bb_check_theta", "bb_check_num_std_devs", "compute_approx_binomial_lower_bound"], "timeout": 300},
             {"name": "bb_get_upper_bound", "entry": "h_bb_get_upper_bound", "enforce": "bb_get_upper_bound", "replace": ["bb_check_theta", "bb_check_num_std_devs", "compute_approx_binomial_upper_bound"], "timeout": 300}]
            + jobs_for(theta_parts, "th_") + jobs_for(tuple_parts, "tu_"),
    "assumptions": ["FP division uninterpreted: 'estimate' is the quotient num_samples / theta as one opaque value (only min/max comparisons with it are used)",
                    "compute_approx_binomial_lower/upper_bound return any value (ASSUMED frame-only contracts): their numerics (sqrt, log, tables) are not decided",
                    "virtual getters get_theta64/is_empty/get_num_retained are fields of the sketch view; the call into binomial_bounds from a sketch is a recording stub"],
}
