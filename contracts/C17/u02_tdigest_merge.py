import crules
F = "tdigest/include/tdigest_impl.hpp"
H = "tdigest/include/tdigest.hpp"
MEMBERS = ["reverse_merge_", "k_", "internal_k_", "min_", "max_", "centroids_capacity_", "centroids_", "centroids_weight_", "buffer_capacity_", "buffer_"]
PRELUDE = r'''
typedef double T;
typedef uint64_t W;
struct centroid { T mean_; W weight_; };
struct cvec { struct centroid* data; size_t size; size_t cap; };      /* std::vector<centroid> passed by reference */
struct tdigest { bool reverse_merge_; uint16_t k_; T min_; T max_; struct centroid* centroids_; size_t centroids_size; size_t centroids_cap; uint64_t centroids_weight_; size_t buffer_size; };
double __CPROVER_uninterpreted_fdiv(double, double);
#define FDIV(a, b) __CPROVER_uninterpreted_fdiv((double)(a), (double)(b))
double __CPROVER_uninterpreted_fmul(double, double);
#define FMUL(a, b) __CPROVER_uninterpreted_fmul((double)(a), (double)(b))
#define NMAX ((size_t)1 << 20)
uint64_t g_in;       /* ghost: sum of the weights of the input centroids consumed so far (each read exactly once, in order) */
uint64_t g_closed;   /* ghost: sum of the weights of the output centroids that are complete (all but the last) */
/* TRUSTED standard algorithms, frame + the facts used */
void vec_append(struct cvec* v, const struct centroid* src, size_t n)
  __CPROVER_requires(__CPROVER_rw_ok(v, sizeof(*v)) && v->size + n <= v->cap && v->cap <= NMAX && __CPROVER_rw_ok(v->data, v->cap * 16))
  __CPROVER_assigns(v->size, __CPROVER_object_whole(v->data)) __CPROVER_ensures(v->size == __CPROVER_old(v->size) + n);
void sort_centroids(struct cvec* v) __CPROVER_requires(__CPROVER_rw_ok(v, sizeof(*v)) && v->size <= v->cap && v->cap <= NMAX && __CPROVER_rw_ok(v->data, v->cap * 16)) __CPROVER_assigns(__CPROVER_object_whole(v->data));
void reverse_centroids(struct centroid* a, size_t n) __CPROVER_requires(n <= NMAX && __CPROVER_rw_ok(a, n * 16)) __CPROVER_assigns(__CPROVER_object_upto(a, n * 16));
/* scale function: any value (floating point) */
double sf_normalizer(double compression, double n) __CPROVER_assigns() __CPROVER_ensures(1);
double sf_max(double q, double normalizer) __CPROVER_assigns() __CPROVER_ensures(1);
'''
UF = [(crules.div_to_uf(), "every binary / -> FDIV", "any"), (crules.div_to_uf("FMUL", "*"), "every binary * -> FMUL", "any")]
centroid_add = {
    "name": "centroid_add", "file": H, "members": ["mean_", "weight_"], "match": r"void add\(const centroid& other\)", "sig": "void centroid_add(struct centroid* self, const struct centroid* other)", "refs": ["other"],
    "rules": UF,
    "contract": r'''
__CPROVER_requires(__CPROVER_rw_ok(self, sizeof(*self)) && __CPROVER_r_ok(other, sizeof(*other)) && self != other)
__CPROVER_assigns(self->mean_, self->weight_)
/* merging a centroid into another adds its weight exactly */
__CPROVER_ensures(self->weight_ == __CPROVER_old(self->weight_) + other->weight_)
''',
}
BACK = "self->centroids_[self->centroids_size - 1]"
merge = {
    "name": "tdigest_merge", "file": F, "members": MEMBERS, "match": r"void tdigest<T, A>::merge\(vector_centroid& buffer, W weight\)", "sig": "void tdigest_merge(struct tdigest* self, struct cvec* buffer, W weight)",
    "refs": [], "nloops": 1,
    "pre_rules": [(r"std::copy\(centroids_\.begin\(\), centroids_\.end\(\), std::back_inserter\(buffer\)\);", "vec_append(buffer, self->centroids_, self->centroids_size);", 1),
                  (r"centroids_\.clear\(\);", "self->centroids_size = 0;", 1),
                  (r"std::stable_sort\(buffer\.begin\(\), buffer\.end\(\), centroid_cmp\(\)\);", "sort_centroids(buffer);", 1),
                  (r"if \(reverse_merge_\) std::reverse\(buffer\.begin\(\), buffer\.end\(\)\);", "if (self->reverse_merge_) reverse_centroids(buffer->data, buffer->size);", 1),
                  (r"auto it = buffer\.begin\(\);", "size_t it = 0;", 1),
                  (r"centroids_\.push_back\(\*it\);", "CPUSH(buffer->data[it]);", 2),
                  (r"while \(it != buffer\.end\(\)\)", "while (it != buffer->size)", 1),
                  (r"centroids_\.back\(\)\.add\(\*it\);", "CADD(buffer->data[it]);", 1),
                  (r"centroids_\.back\(\)\.get_weight\(\)", BACK + ".weight_", 2), (r"it->get_weight\(\)", "buffer->data[it].weight_", 1),
                  (r"std::distance\(buffer\.begin\(\), it\)", "((ptrdiff_t)it)", 1), (r"std::distance\(buffer\.end\(\), it\)", "((ptrdiff_t)it - (ptrdiff_t)buffer->size)", 1),
                  (r"scale_function\(\)\.normalizer\(", "sf_normalizer(", 1), (r"scale_function\(\)\.max\(", "sf_max(", 2),
                  (r"if \(reverse_merge_\) std::reverse\(centroids_\.begin\(\), centroids_\.end\(\)\);", "if (self->reverse_merge_) reverse_centroids(self->centroids_, self->centroids_size);", 1),
                  (r"centroids_\.front\(\)\.get_mean\(\)", "self->centroids_[0].mean_", "any"), (r"centroids_\.back\(\)\.get_mean\(\)", BACK + ".mean_", "any"),
                  (r"buffer\.front\(\)\.get_mean\(\)", "buffer->data[0].mean_", "any"), (r"buffer\.back\(\)\.get_mean\(\)", "buffer->data[buffer->size - 1].mean_", "any"),
                  (r"buffer_\.clear\(\);", "self->buffer_size = 0;", 1)],
    "rules": [(r"std::min\(", "VMIN(", "any"), (r"std::max\(", "VMAX(", "any")] + UF,
    "contract": r'''
__CPROVER_requires(__CPROVER_rw_ok(self, sizeof(*self)) && __CPROVER_rw_ok(buffer, sizeof(*buffer)) && buffer->cap <= NMAX && self->centroids_cap == buffer->cap
                   && __CPROVER_rw_ok(buffer->data, buffer->cap * 16) && __CPROVER_rw_ok(self->centroids_, self->centroids_cap * 16) && !__CPROVER_same_object(buffer->data, self->centroids_))
/* "assumes that there is enough room in the input buffer to add centroids from this tdigest"; at least one value or centroid to merge */
__CPROVER_requires(buffer->size + self->centroids_size <= buffer->cap && buffer->size + self->centroids_size >= 1 && self->centroids_size <= self->centroids_cap && verif_exc == 0 && g_in == 0 && g_closed == 0)
__CPROVER_assigns(verif_exc, g_in, g_closed, g_last_weight, buffer->size, __CPROVER_object_whole(buffer->data), self->centroids_size, self->centroids_weight_, self->min_, self->max_, self->reverse_merge_, self->buffer_size,
                  __CPROVER_object_whole(self->centroids_))
/* the centroid weight grows by exactly the merged weight, the buffer is emptied, the merge direction alternates */
__CPROVER_ensures(self->centroids_weight_ == __CPROVER_old(self->centroids_weight_) + weight && self->buffer_size == 0 && self->reverse_merge_ == !__CPROVER_old(self->reverse_merge_))
/* every input centroid (each read exactly once) ends in exactly one output centroid, as a new one or added to the current last one: the output weights sum to the input weights */
__CPROVER_ensures(self->centroids_size >= 1 && self->centroids_size <= buffer->size)
__CPROVER_ensures(g_in == g_closed + g_last_weight)
/* min and max bracket the first and the last centroid */
__CPROVER_ensures((self->centroids_[0].mean_ == self->centroids_[0].mean_ && self->min_ == self->min_) ==> self->min_ <= self->centroids_[0].mean_)
__CPROVER_ensures((self->centroids_[self->centroids_size - 1].mean_ == self->centroids_[self->centroids_size - 1].mean_ && self->max_ == self->max_) ==> self->max_ >= self->centroids_[self->centroids_size - 1].mean_)
''',
    "loops": {1: r'''
__CPROVER_assigns(it, weight_so_far, g_in, g_closed, self->centroids_size, __CPROVER_object_whole(self->centroids_))
__CPROVER_loop_invariant(it >= 1 && it <= buffer->size && self->centroids_size >= 1 && self->centroids_size <= it && g_in == g_closed + self->centroids_[self->centroids_size - 1].weight_)
__CPROVER_decreases(buffer->size - it)
'''},
    "inserts": [(r"if \(self->reverse_merge_\) reverse_centroids\(self->centroids_, self->centroids_size\);", "g_last_weight = self->centroids_[self->centroids_size - 1].weight_;", "before", 1)],
}
PRELUDE2 = r'''
uint64_t g_last_weight;   /* ghost: weight of the last output centroid when the clustering loop ends */
/* centroids_.push_back(c): a new last output centroid; the previous last one is complete */
#define CPUSH(c) do { __CPROVER_assert(self->centroids_size < self->centroids_cap, "VERIF centroids_.push_back within the array of the model"); \
    if (self->centroids_size > 0) g_closed += self->centroids_[self->centroids_size - 1].weight_; g_in += (c).weight_; self->centroids_[self->centroids_size++] = (c); } while (0)
/* centroids_.back().add(c): the real centroid::add (under contract in its own job) */
#define CADD(c) do { g_in += (c).weight_; centroid_add(&self->centroids_[self->centroids_size - 1], &(c)); } while (0)
'''
HARNESS = r'''
void h_add(void) { struct centroid* a = malloc(sizeof(*a)); struct centroid* b = malloc(sizeof(*b)); __CPROVER_assume(a && b); centroid_add(a, b); VERIF_CANARY_POINT; }
void h_merge(void) {
  struct tdigest* s = malloc(sizeof(*s)); struct cvec* v = malloc(sizeof(*v)); __CPROVER_assume(s && v); __CPROVER_assume(v->cap <= NMAX); s->centroids_cap = v->cap;
  v->data = malloc(sizeof(struct centroid) * v->cap); s->centroids_ = malloc(sizeof(struct centroid) * s->centroids_cap); __CPROVER_assume(v->data && s->centroids_);
  verif_exc = 0; g_in = 0; g_closed = 0; tdigest_merge(s, v, nondet_u64()); VERIF_CANARY_POINT; }
'''
UNIT = {
    "id": "tdigest_merge", "property": "C17",
    "clause": "tdigest::merge(buffer, weight) and centroid::add: the centroid weight grows by exactly the merged weight, every input centroid (read exactly once) ends in exactly one output centroid "
              "- new, or added to the current last one with its weight added exactly - so the output weights sum to the input weights; min and max bracket the first and last centroid; the buffer "
              "is emptied and the merge direction alternates (clustering decisions, sort and reverse: any outcome)",
    "prelude": PRELUDE + PRELUDE2, "parts": [centroid_add, merge], "harness": HARNESS,
    "jobs": [{"name": "centroid_add", "entry": "h_add", "enforce": "centroid_add", "timeout": 300},
             {"name": "merge", "entry": "h_merge", "enforce": "tdigest_merge", "replace": ["vec_append", "sort_centroids", "reverse_centroids", "sf_normalizer", "sf_max", "centroid_add"], "loops": True, "expect_loop_steps": 1, "timeout": 900}],
    "assumptions": ["std::copy/back_inserter, std::stable_sort, std::reverse: TRUSTED, frame-only contracts (any permutation: the weight accounting does not depend on the order)",
                    "scale_function::normalizer/max return any value: every clustering decision is covered; FP division/multiplication uninterpreted",
                    "vectors as arrays of the combined capacity; the sum of the input weights is the ghost fold over the elements the loop reads (each index exactly once)"],
}
