F = "tdigest/include/tdigest_impl.hpp"
H = "tdigest/include/tdigest.hpp"
MEMBERS = ["reverse_merge_", "k_", "internal_k_", "min_", "max_", "centroids_capacity_", "centroids_", "centroids_weight_", "buffer_capacity_", "buffer_"]
TD = "tdigest<T, A>"

PRELUDE = r'''
typedef double T;
typedef uint64_t W;
struct centroid { T mean_; W weight_; };
/* std::vector members as (array, size): the arrays have room for the reserved capacities; push_back beyond the reserved capacity is reported (the code never needs it) */
struct tdigest { bool reverse_merge_; uint16_t k_; uint16_t internal_k_; T min_; T max_; size_t centroids_capacity_; struct centroid* centroids_; size_t centroids_size;
                 uint64_t centroids_weight_; size_t buffer_capacity_; T* buffer_; size_t buffer_size; };
#define CAPMAX ((size_t)2 * 65535 + 30)
#define BUFCAP(s) ((s)->centroids_capacity_ * BUFFER_MULTIPLIER)
/* the two arrays are allocated (typed) by the harness; the contracts require validity of the reserved capacities */
#define TD_FRESH(s) ((s)->centroids_capacity_ >= 1 && (s)->centroids_capacity_ <= CAPMAX && (s)->centroids_size <= (s)->centroids_capacity_ && (s)->buffer_size <= BUFCAP(s) && \
                     __CPROVER_rw_ok((s)->centroids_, (s)->centroids_capacity_ * 16 /* sizeof(struct centroid) */) && __CPROVER_rw_ok((s)->buffer_, BUFCAP(s) * 8 /* sizeof(T) */))
#define IS_EMPTY(s) ((s)->centroids_size == 0 && (s)->buffer_size == 0)
double __CPROVER_uninterpreted_fdiv(double, double);
#define FDIV(a, b) __CPROVER_uninterpreted_fdiv((double)(a), (double)(b))
double __CPROVER_uninterpreted_fmul(double, double);
#define FMUL(a, b) __CPROVER_uninterpreted_fmul((double)(a), (double)(b))
/* weighted_average(x1, w1, x2, w2) is a pure function of its four arguments (its body is one expression, under contract in its own job): inside get_quantile the call is kept uninterpreted */
double __CPROVER_uninterpreted_wavg(double, double, double, double);
#define WAVG(x1, w1, x2, w2) __CPROVER_uninterpreted_wavg((double)(x1), (double)(w1), (double)(x2), (double)(w2))
/* ghost: which pair of centroids get_quantile interpolated between, and the weight accumulated left of it */
bool g_hit; size_t g_i;
#define QW FMUL(rank, self->centroids_weight_)
/* compress(): ASSUMED contract here (merge(buffer, weight) is not under contract in this unit): flushes the buffer into at least one centroid, each with weight >= 1 */
void compress(struct tdigest* self)
  __CPROVER_requires(__CPROVER_rw_ok(self, sizeof(*self)))
  __CPROVER_assigns(self->centroids_size, self->centroids_weight_, self->buffer_size, self->min_, self->max_, self->reverse_merge_, __CPROVER_object_whole(self->centroids_), __CPROVER_object_whole(self->buffer_))
  __CPROVER_ensures(self->buffer_size == 0 && self->centroids_size <= self->centroids_capacity_)
  __CPROVER_ensures(!(__CPROVER_old(self->centroids_size) == 0 && __CPROVER_old(self->buffer_size) == 0) ==> self->centroids_size >= 1)
  __CPROVER_ensures((__CPROVER_old(self->centroids_size) == 0 && __CPROVER_old(self->buffer_size) == 0) ==> self->centroids_size == 0);
'''
import crules
FDIV_RULE = [(crules.div_to_uf(), "every binary / -> FDIV(left, right)", "any"), (crules.div_to_uf("FMUL", "*"), "every binary * -> FMUL(left, right)", "any")]
VEC = [(r"self->centroids_\.size\(\)", "self->centroids_size", "any"), (r"self->buffer_\.size\(\)", "self->buffer_size", "any"),
       (r"self->centroids_\.empty\(\)", "(self->centroids_size == 0)", "any"), (r"self->buffer_\.empty\(\)", "(self->buffer_size == 0)", "any"),
       (r"self->centroids_\.front\(\)", "self->centroids_[0]", "any"), (r"self->centroids_\.back\(\)", "self->centroids_[self->centroids_size - 1]", "any"),
       (r"\.get_mean\(\)", ".mean_", "any"), (r"\.get_weight\(\)", ".weight_", "any"),
       (r"self->buffer_\.push_back\(value\);", '{ __CPROVER_assert(self->buffer_size < BUFCAP(self), "VERIF buffer_.push_back within the reserved capacity"); self->buffer_[self->buffer_size++] = value; }', "any")]
BASE = "__CPROVER_requires(__CPROVER_rw_ok(self, sizeof(*self)) && TD_FRESH(self))\n"

def fn(name, params, csig, contract, ret="void", **kw):
    d = {"name": name, "file": F, "members": MEMBERS, "match": r"%s %s::%s\(%s\)(?: const)?" % (ret, TD, name, params), "sig": csig, "contract": contract, "rules": VEC + kw.pop("rules", [])}
    d.update(kw)
    return d

is_empty = fn("is_empty", "", "bool is_empty(const struct tdigest* self)", BASE + "__CPROVER_assigns()\n__CPROVER_ensures(__CPROVER_return_value == IS_EMPTY(self))\n", ret="bool")
total_weight = fn("get_total_weight", "", "uint64_t get_total_weight(const struct tdigest* self)", BASE +
                  "__CPROVER_assigns()\n__CPROVER_ensures(__CPROVER_return_value == self->centroids_weight_ + self->buffer_size)\n", ret="uint64_t")
update = fn("update", "T value", "void update(struct tdigest* self, T value)", BASE + r'''
__CPROVER_assigns(self->centroids_size, self->centroids_weight_, self->buffer_size, self->min_, self->max_, self->reverse_merge_, __CPROVER_object_whole(self->centroids_), __CPROVER_object_whole(self->buffer_))
/* NaN is ignored: nothing changes */
__CPROVER_ensures(value != value ==> (self->buffer_size == __CPROVER_old(self->buffer_size) && self->centroids_size == __CPROVER_old(self->centroids_size) && self->centroids_weight_ == __CPROVER_old(self->centroids_weight_)))
/* an accepted value is buffered (after a flush when the buffer is full, so the buffer never exceeds its reserved capacity) and is the last buffered value */
__CPROVER_ensures(value == value ==> (self->buffer_size >= 1 && self->buffer_size <= BUFCAP(self) && self->buffer_[self->buffer_size - 1] == value))
__CPROVER_ensures((value == value && __CPROVER_old(self->buffer_size) < BUFCAP(self)) ==> (self->buffer_size == __CPROVER_old(self->buffer_size) + 1 && self->centroids_weight_ == __CPROVER_old(self->centroids_weight_)))
/* min and max are the exact extremes: they move only to the new value, and only when it is beyond them */
__CPROVER_ensures((value == value && __CPROVER_old(self->buffer_size) < BUFCAP(self) && __CPROVER_old(self->min_) == __CPROVER_old(self->min_)) ==> self->min_ == (value < __CPROVER_old(self->min_) ? value : __CPROVER_old(self->min_)))
__CPROVER_ensures((value == value && __CPROVER_old(self->buffer_size) < BUFCAP(self) && __CPROVER_old(self->max_) == __CPROVER_old(self->max_)) ==> self->max_ == (value > __CPROVER_old(self->max_) ? value : __CPROVER_old(self->max_)))
__CPROVER_ensures(value == value ==> (self->min_ <= value || self->min_ != self->min_) && (self->max_ >= value || self->max_ != self->max_))
''', methods=["compress"], rules=[(r"std::min\(", "VMIN(", 1), (r"std::max\(", "VMAX(", 1)])

weighted_average = fn("weighted_average", "double x1, double w1, double x2, double w2", "double weighted_average(double x1, double w1, double x2, double w2)", r"""
__CPROVER_assigns()
/* the average of x1 and x2 with weights w1 and w2 */
__CPROVER_ensures(FDIV(FMUL(x1, w1) + FMUL(x2, w2), w1 + w2) == FDIV(FMUL(x1, w1) + FMUL(x2, w2), w1 + w2) ==> __CPROVER_return_value == FDIV(FMUL(x1, w1) + FMUL(x2, w2), w1 + w2))
""", ret="double", rules=FDIV_RULE)
weighted_average["members"] = []

# interpolation spec (published t-digest definition, Dunning & Ertl, MergingDigest.quantile): between the centres of centroids i and i+1 the quantile is the average of the two means
# weighted by the OPPOSITE distances: z1 = distance of the target weight from the left centre, z2 = distance to the right centre  ->  (mean_i * z2 + mean_{i+1} * z1) / (z2 + z1)
SPEC = r'''
#define CI (self->centroids_[g_i])
#define CJ (self->centroids_[g_i + 1])
double g_spec; int g_case;
/* ghost code run when get_quantile has found the pair (i, i+1) whose centres enclose the target weight: the specified answer for that pair */
#define QUANTILE_SPEC(i, weight, weight_so_far) do { g_hit = 1; g_i = (i); \
    const struct centroid cl_ = self->centroids_[i], cr_ = self->centroids_[(i) + 1]; \
    double dw_ = FDIV(cl_.weight_ + cr_.weight_, 2.0); \
    if (cl_.weight_ == 1 && (weight) - (weight_so_far) < 0.5) { g_case = 1; g_spec = cl_.mean_; } \
    else if (cr_.weight_ == 1 && (weight_so_far) + dw_ - (weight) <= 0.5) { g_case = 2; g_spec = cr_.mean_; } \
    else { double z1_ = (weight) - (weight_so_far) - (cl_.weight_ == 1 ? 0.5 : 0.0);        /* distance from the left centre (less the singleton's half unit) */ \
           double z2_ = (weight_so_far) + dw_ - (weight) - (cr_.weight_ == 1 ? 0.5 : 0.0);  /* distance to the right centre */ \
           g_case = 3; g_spec = WAVG(cl_.mean_, z2_, cr_.mean_, z1_); } } while (0)
'''
get_quantile = fn("get_quantile", "double rank", "T get_quantile(struct tdigest* self, double rank)", BASE + r'''
__CPROVER_requires(verif_exc == 0 && !g_hit)
__CPROVER_assigns(verif_exc, g_hit, g_i, g_spec, g_case, self->centroids_size, self->centroids_weight_, self->buffer_size, self->min_, self->max_, self->reverse_merge_, __CPROVER_object_whole(self->centroids_), __CPROVER_object_whole(self->buffer_))
__CPROVER_ensures((verif_exc != 0) == ((__CPROVER_old(self->centroids_size) == 0 && __CPROVER_old(self->buffer_size) == 0) || rank < 0.0 || rank > 1.0))
__CPROVER_ensures((verif_exc == 0 && self->centroids_size == 1 && self->centroids_[0].mean_ == self->centroids_[0].mean_) ==> __CPROVER_return_value == self->centroids_[0].mean_)
/* quantile(0) is the minimum and quantile(1) the maximum: target weights below 1 / above W - 1 */
__CPROVER_ensures((verif_exc == 0 && self->centroids_size > 1 && QW < 1 && self->min_ == self->min_) ==> __CPROVER_return_value == self->min_)
__CPROVER_ensures((verif_exc == 0 && self->centroids_size > 1 && !(QW < 1) && QW > self->centroids_weight_ - 1.0 && self->max_ == self->max_) ==> __CPROVER_return_value == self->max_)
/* between two centroid centres: a singleton centroid within half a unit answers with its own mean, otherwise the published interpolation */
__CPROVER_ensures(g_hit ==> (verif_exc == 0 && g_i + 1 < self->centroids_size && g_case >= 1 && g_case <= 3))
__CPROVER_ensures((g_hit && g_spec == g_spec) ==> __CPROVER_return_value == g_spec)
''', ret="T", throw_rv="0.0", methods=["is_empty"], nloops=1,
    pre_rules=[(r"const_cast<tdigest\*>\(this\)->compress\(\);", "compress(self);", 1), (r"\bweighted_average\(", "WAVG(", "any")], rules=FDIV_RULE,
    inserts=[(r"if \(weight_so_far \+ dw > weight\) \{", "QUANTILE_SPEC(i, weight, weight_so_far);", "after", 1)],
    loops={1: r'''
__CPROVER_assigns(i, weight_so_far, g_hit, g_i, g_spec, g_case)
__CPROVER_loop_invariant(i <= self->centroids_size - 1 && !g_hit)
__CPROVER_decreases(self->centroids_size - 1 - i)
'''})

MK = r"""
static struct tdigest* mk(void) { struct tdigest* s = malloc(sizeof(*s)); __CPROVER_assume(s != NULL); __CPROVER_assume(s->centroids_capacity_ >= 1 && s->centroids_capacity_ <= CAPMAX);
  s->centroids_ = malloc(sizeof(struct centroid) * s->centroids_capacity_); size_t nb_ = BUFCAP(s); s->buffer_ = malloc(sizeof(T) * nb_); __CPROVER_assume(s->centroids_ != NULL && s->buffer_ != NULL); return s; }
"""
def Hn(name, call):
    return "void h_%s(void) { struct tdigest* s = mk(); verif_exc = 0; %s; VERIF_CANARY_POINT; }\n" % (name, call)
HARNESS = MK + Hn("is_empty", "(void)is_empty(s)") + Hn("total", "(void)get_total_weight(s)") + Hn("update", "update(s, nondet_double())") + Hn("quantile", "(void)get_quantile(s, nondet_double())") + "void h_wavg(void) { (void)weighted_average(nondet_double(), nondet_double(), nondet_double(), nondet_double()); VERIF_CANARY_POINT; }\n"

UNIT = {
    "id": "tdigest", "property": "C17",
    "clause": "tdigest<double>: update ignores NaN, buffers every other value (flushing first when the buffer is full, so the buffer stays within its reserved capacity), total weight = centroid "
              "weight + buffered count, min/max move only to a new extreme; get_quantile refuses an empty sketch and ranks outside [0,1], answers min below weight 1 and max above W-1, a singleton "
              "centroid's own mean within half a unit of its centre, and otherwise the published interpolation between the two neighbouring centroid means (weights opposite to the distances)",
    "consts": [{"file": H, "pattern": r"static const (?P<type>size_t) (?P<name>BUFFER_MULTIPLIER) = (?P<value>[^;]+);", "min_count": 1}],
    "prelude": PRELUDE + SPEC,
    "parts": [is_empty, total_weight, update, weighted_average, get_quantile],
    "harness": HARNESS,
    "jobs": [{"name": "is_empty", "entry": "h_is_empty", "enforce": "is_empty", "timeout": 300}, {"name": "get_total_weight", "entry": "h_total", "enforce": "get_total_weight", "timeout": 300},
             {"name": "weighted_average", "entry": "h_wavg", "enforce": "weighted_average", "timeout": 300},
             {"name": "update", "entry": "h_update", "enforce": "update", "replace": ["compress"], "timeout": 600},
             {"name": "get_quantile", "entry": "h_quantile", "enforce": "get_quantile", "replace": ["compress"], "loops": True, "expect_loop_steps": 1, "timeout": 900}],
    "replay": {"get_quantile": {"template": "tdigest_quantile.cpp", "vars": {}}},
    "assumptions": ["T = double; std::vector centroids_/buffer_ as arrays with the reserved capacities (push_back beyond the reservation is reported as a failed obligation)",
                    "compress(): ASSUMED contract (flushes the buffer, at least one centroid afterwards); merge(buffer, weight) itself is not under contract",
                    "FP division and multiplication in get_quantile/weighted_average uninterpreted (equality of identical terms only); FP addition/subtraction/comparison bit-precise",
                    "monotonicity of get_quantile in the rank is not proved as such: the contract pins the interpolation formula to the published definition, whose monotonicity is a real-arithmetic fact"],
}
