F = "tdigest/include/tdigest_impl.hpp"
MEMBERS = ["reverse_merge_", "k_", "internal_k_", "min_", "max_", "centroids_capacity_", "centroids_", "centroids_weight_", "buffer_capacity_", "buffer_"]
PRELUDE = r'''
typedef double T;
typedef uint64_t W;
struct centroid { T mean_; W weight_; };
struct tdc { T* buffer_; size_t buffer_size; size_t centroids_size; };   /* what compress() reads: the buffered values and the number of centroids */
#define NMAX ((size_t)1 << 20)
/* ghost: an arbitrary buffered value g_b; what merge(tmp, weight) was called with */
size_t g_b; uint32_t g_m_calls; size_t g_m_n, g_m_cap; uint64_t g_m_w; T g_m_mean; W g_m_wt;
/* merge(buffer, weight): recorded here; its own contract (every input centroid ends in exactly one output centroid, weights added exactly) is unit tdigest_merge */
void merge_c(struct tdc* self, const struct centroid* tmp, size_t n, size_t cap, uint64_t weight)
  __CPROVER_requires(n >= 1 && n <= cap && __CPROVER_r_ok(tmp, n * sizeof(struct centroid)) && g_b < n)
  __CPROVER_assigns(g_m_calls, g_m_n, g_m_cap, g_m_w, g_m_mean, g_m_wt)
  __CPROVER_ensures(g_m_calls == __CPROVER_old(g_m_calls) + 1 && g_m_n == n && g_m_cap == cap && g_m_w == weight && g_m_mean == tmp[g_b].mean_ && g_m_wt == tmp[g_b].weight_);
'''
LOOPC = ("for (size_t bi_ = 0; bi_ < self->buffer_size; bi_++)\n"
  "__CPROVER_assigns(bi_, tmp_n, __CPROVER_object_whole(tmp))\n"
  "__CPROVER_loop_invariant(bi_ <= self->buffer_size && tmp_n == bi_)\n"
  "__CPROVER_loop_invariant(g_b < bi_ ==> (tmp[g_b].mean_ == self->buffer_[g_b] && tmp[g_b].weight_ == 1))\n"
  "__CPROVER_decreases(self->buffer_size - bi_)\n"
  "{ const T value = self->buffer_[bi_]; tmp[tmp_n++] = (struct centroid){value, 1}; }")
compress = {
    "name": "compress", "file": F, "members": MEMBERS, "match": r"void tdigest<T, A>::compress\(\)", "sig": "void compress(struct tdc* self)", "nloops": 1,
    "pre_rules": [(r"buffer_\.size\(\)", "buffer_size", "any"), (r"centroids_\.size\(\)", "centroids_size", "any"), (r"tmp\.size\(\)", "tmp_n", "any"),
                  (r"vector_centroid tmp\(buffer_\.get_allocator\(\)\);\s*tmp\.reserve\(([^;]*)\);", r"const size_t tmp_cap = \1; struct centroid* tmp = malloc(sizeof(struct centroid) * tmp_cap); __CPROVER_assume(tmp != NULL); size_t tmp_n = 0;", 1),
                  (r"for \(const T value: buffer_\) tmp\.push_back\(centroid\(value, 1\)\);", "@@LOOP@@", 1),
                  (r"merge\(tmp, ", "merge_c(self, tmp, tmp_n, tmp_cap, ", 1)],
    "rules": [(r"(?<![\w>])(buffer|centroids)_size", r"self->\1_size", "any"), (r"@@LOOP@@", LOOPC.replace("\\", "\\\\"), 1)],
    "contract": r'''
__CPROVER_requires(__CPROVER_rw_ok(self, sizeof(*self)) && self->buffer_size <= NMAX && self->centroids_size <= NMAX && __CPROVER_r_ok(self->buffer_, (self->buffer_size ? self->buffer_size : 1) * sizeof(T)))
__CPROVER_requires((self->buffer_size == 0 || g_b < self->buffer_size) && g_m_calls == 0 && (self->buffer_size == 0 || self->buffer_[g_b] == self->buffer_[g_b]))
__CPROVER_assigns(g_m_calls, g_m_n, g_m_cap, g_m_w, g_m_mean, g_m_wt)
/* nothing buffered: nothing happens */
__CPROVER_ensures(self->buffer_size == 0 ==> g_m_calls == 0)
/* otherwise merge() is called once with exactly the buffered values, each as a centroid of weight 1, room reserved for them and the existing centroids, and total weight = number of buffered values */
__CPROVER_ensures(self->buffer_size != 0 ==> (g_m_calls == 1 && g_m_n == self->buffer_size && g_m_w == self->buffer_size && g_m_cap == self->buffer_size + self->centroids_size
    && g_m_mean == self->buffer_[g_b] && g_m_wt == 1))
''',
}
UNIT = {
    "id": "tdigest_compress", "property": "C17",
    "clause": "tdigest::compress for every buffer size and content: an empty buffer does nothing; otherwise merge(buffer, weight) is called exactly once with every buffered value as a centroid of weight 1 "
              "(none lost, none twice), capacity reserved for them plus the existing centroids, and weight equal to the number of buffered values - with unit tdigest_merge this carries 'total weight is the number of accepted values'",
    "prelude": PRELUDE, "parts": [compress],
    "harness": r'''
void h_compress(void) { struct tdc* s = malloc(sizeof(*s)); __CPROVER_assume(s != NULL); size_t n = nondet_size(); __CPROVER_assume(n <= NMAX);
  s->buffer_ = malloc(sizeof(T) * (n ? n : 1)); __CPROVER_assume(s->buffer_ != NULL); s->buffer_size = n; compress(s); VERIF_CANARY_POINT; }
''',
    "jobs": [{"name": "compress", "entry": "h_compress", "enforce": "compress", "replace": ["merge_c"], "loops": True, "expect_loop_steps": 1, "timeout": 600}],
    "assumptions": ["merge(buffer, weight) enters by a recording contract (its own contract is unit tdigest_merge); std::vector<centroid> tmp is an array of the reserved capacity; buffered values are not NaN (update refuses NaN)"],
}
