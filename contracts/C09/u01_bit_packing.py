F = "theta/include/bit_packing.hpp"

PRELUDE = r'''
/* ghost indices: entry gi (0..7) and bit gb (0..bits-1, counted from the most significant packed bit) */
uint8_t g_i; uint8_t g_b;
#define LAYOUT_BIT(ptr, bits)   ((((ptr)[((size_t)g_i * (bits) + g_b) >> 3]) >> (7 - (((size_t)g_i * (bits) + g_b) & 7))) & 1)
#define VALUE_BIT(values, bits) ((((values)[g_i]) >> ((bits) - 1 - g_b)) & 1)
#define CONTRACT_pack_block8 \
  __CPROVER_requires(bits >= 1 && bits <= 63) \
  __CPROVER_requires(__CPROVER_is_fresh(values, 8 * sizeof(uint64_t)) && __CPROVER_is_fresh(ptr, bits)) \
  __CPROVER_requires(g_i < 8 && g_b < bits) \
  __CPROVER_requires(values[0] >> bits == 0 && values[1] >> bits == 0 && values[2] >> bits == 0 && values[3] >> bits == 0) \
  __CPROVER_requires(values[4] >> bits == 0 && values[5] >> bits == 0 && values[6] >> bits == 0 && values[7] >> bits == 0) \
  __CPROVER_assigns(verif_exc, __CPROVER_object_whole(ptr)) \
  __CPROVER_ensures(verif_exc == 0) \
  /* documented layout: entry i occupies stream bits [i*bits, (i+1)*bits), most significant bit first */ \
  __CPROVER_ensures(LAYOUT_BIT(ptr, bits) == VALUE_BIT(values, bits))
#define CONTRACT_unpack_block8 \
  __CPROVER_requires(bits >= 1 && bits <= 63) \
  __CPROVER_requires(__CPROVER_is_fresh(values, 8 * sizeof(uint64_t)) && __CPROVER_is_fresh(ptr, bits)) \
  __CPROVER_requires(g_i < 8 && g_b < bits) \
  __CPROVER_assigns(verif_exc, __CPROVER_object_whole(values)) \
  __CPROVER_ensures(verif_exc == 0) \
  __CPROVER_ensures(LAYOUT_BIT(ptr, bits) == VALUE_BIT(values, bits)) \
  __CPROVER_ensures(values[g_i] >> bits == 0)
'''

PROTOS = "".join("static inline void pack_bits_%d(const uint64_t* values, uint8_t* ptr);\nstatic inline void unpack_bits_%d(uint64_t* values, const uint8_t* ptr);\n" % (w, w) for w in range(1, 64))

def leaf(kind, w):
    if kind == "pack":
        return {"name": "pack_bits_%d" % w, "file": F, "match": r"static inline void pack_bits_%d\(const uint64_t\* values, uint8_t\* ptr\)" % w,
                "sig": "static inline void pack_bits_%d(const uint64_t* values, uint8_t* ptr)" % w}
    return {"name": "unpack_bits_%d" % w, "file": F, "match": r"static inline void unpack_bits_%d\(uint64_t\* values, const uint8_t\* ptr\)" % w,
            "sig": "static inline void unpack_bits_%d(uint64_t* values, const uint8_t* ptr)" % w}

pack_block8 = {"name": "pack_bits_block8", "file": F,
               "match": r"static inline void pack_bits_block8\(const uint64_t\* values, uint8_t\* ptr, uint8_t bits\)",
               "sig": "static inline void pack_bits_block8(const uint64_t* values, uint8_t* ptr, uint8_t bits)", "contract": "CONTRACT_pack_block8"}
unpack_block8 = {"name": "unpack_bits_block8", "file": F,
                 "match": r"static inline void unpack_bits_block8\(uint64_t\* values, const uint8_t\* ptr, uint8_t bits\)",
                 "sig": "static inline void unpack_bits_block8(uint64_t* values, const uint8_t* ptr, uint8_t bits)", "contract": "CONTRACT_unpack_block8"}

pack_bits = {
    "name": "pack_bits", "file": F,
    "match": r"static inline uint8_t pack_bits\(uint64_t value, uint8_t bits, uint8_t\*& ptr, uint8_t offset\)",
    "sig": "static inline uint8_t pack_bits(uint64_t value, uint8_t bits, uint8_t** ptr, uint8_t offset)",
    "refs": ["ptr"], "nloops": 1,
}
unpack_bits = {
    "name": "unpack_bits", "file": F,
    "match": r"static inline uint8_t unpack_bits\(uint64_t& value, uint8_t bits, const uint8_t\*& ptr, uint8_t offset\)",
    "sig": "static inline uint8_t unpack_bits(uint64_t* value, uint8_t bits, const uint8_t** ptr, uint8_t offset)",
    "refs": ["value", "ptr"], "nloops": 1,
    "rules": [(r"std::min\(", "VMIN(", 1)],
}

HARNESS = r'''
#define BITS @W@
void h_pack(void) { const uint64_t* v; uint8_t* p; verif_exc = 0; pack_bits_block8(v, p, BITS); VERIF_CANARY_POINT; }
void h_unpack(void) { uint64_t* v; const uint8_t* p; verif_exc = 0; unpack_bits_block8(v, p, BITS); VERIF_CANARY_POINT; }
/* round trip through the real pack and unpack bodies, full 8 x BITS-bit domain */
void h_roundtrip(void) {
  uint64_t v[8], out[8]; uint8_t buf[64];
  for (int i = 0; i < 8; i++) __CPROVER_assume(v[i] >> BITS == 0);
  verif_exc = 0;
  pack_bits_block8(v, buf, BITS);
  unpack_bits_block8(out, buf, BITS);
  for (int i = 0; i < 8; i++) __CPROVER_assert(out[i] == v[i], "unpack_bits_block8(pack_bits_block8(v)) == v");
  __CPROVER_assert(verif_exc == 0, "no throw for a supported width");
  VERIF_CANARY_POINT;
}
'''
SINGLE_HARNESS = r'''
/* single-value routines: a run of NV (<8) values written by pack_bits at arbitrary start offset is read back by unpack_bits,
   cursor (ptr, offset) threads identically, and never leaves the whole_bytes(NV*BITS + offset) bytes */
#ifndef NV
#define NV 3
#endif
void h_single(void) {
  uint64_t v[NV], out[NV]; uint8_t buf[(NV * BITS + 14) / 8 + 1] = {0}; uint8_t off0;
  __CPROVER_assume(off0 < 8);
  for (int i = 0; i < NV; i++) __CPROVER_assume(v[i] >> BITS == 0);
  uint8_t* wp = buf; uint8_t wo = off0;
  for (int i = 0; i < NV; i++) wo = pack_bits(v[i], BITS, &wp, wo);
  const uint8_t* rp = buf; uint8_t ro = off0;
  for (int i = 0; i < NV; i++) ro = unpack_bits(&out[i], BITS, &rp, ro);
  for (int i = 0; i < NV; i++) __CPROVER_assert(out[i] == v[i], "unpack_bits(pack_bits(v)) == v");
  __CPROVER_assert(rp == wp && ro == wo, "reader and writer cursors agree");
  __CPROVER_assert((size_t)(wp - buf) * 8 + wo == (size_t)off0 + (size_t)NV * BITS, "cursor advanced by exactly NV*BITS bits");
  VERIF_CANARY_POINT;
}
'''

CLAUSE = ("compressed theta entries: for every width 1..63 and every 8-tuple of values, pack_bits_block8 writes and unpack_bits_block8 reads the "
          "documented MSB-first bit layout (so unpack(pack(v)) == v by bit extensionality; also proved directly in the thorough tier), both stay inside "
          "exactly `bits` bytes and dispatch to the routine of that width only; pack_bits/unpack_bits (trailing <8 entries) are inverse for any start "
          "offset and advance the cursor by exactly n*bits bits")

def unit_w(w):
    canary = w in (1, 33, 63)
    return {
        "id": "bit_packing_w%d" % w, "property": "C09", "clause": CLAUSE if w == 1 else None,
        "prelude": PRELUDE + PROTOS,
        "parts": [leaf("pack", w), leaf("unpack", w), pack_block8, unpack_block8],
        "harness": HARNESS.replace("@W@", str(w)),
        "jobs": [
            {"name": "pack_layout", "entry": "h_pack", "enforce": "pack_bits_block8", "timeout": 120, "canary": canary},
            {"name": "unpack_layout", "entry": "h_unpack", "enforce": "unpack_bits_block8", "timeout": 120, "canary": canary},
            {"name": "roundtrip", "entry": "h_roundtrip", "unwind": 9, "timeout": 300, "canary": False, "tier": "thorough"},
        ],
        "assumptions": ["round trip from the two layout contracts is bit extensionality (paper step); the thorough tier proves the round trip directly per width"] if w == 1 else [],
    }

def unit_single():
    js = []
    for w in (1, 7, 8, 9, 13, 31, 32, 33, 56, 62, 63):
        for nv in (1, 3, 7):
            js.append({"name": "single_w%d_n%d" % (w, nv), "entry": "h_single", "defines": {"BITS": w, "NV": nv}, "unwind": 9,
                       "timeout": 300, "canary": (w, nv) == (13, 3), "tier": "quick" if nv == 3 else "thorough"})
    return {"id": "bit_packing_single", "property": "C09", "prelude": "", "parts": [pack_bits, unpack_bits],
            "harness": HARNESS.replace("@W@", "13").split("/* single-value routines")[1].join(["/* single-value routines", ""]) if False else SINGLE_HARNESS,
            "jobs": js,
            "assumptions": ["pack_bits/unpack_bits: widths {1,7,8,9,13,31,32,33,56,62,63} x run lengths {1,3,7} (the loops are bounded by 64/8 iterations; unwinding assertions pass)"]}

UNITS = [unit_w(w) for w in range(1, 64)] + [unit_single()]
