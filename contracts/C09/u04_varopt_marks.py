import varopt_common as V
VS = V.F
PRELUDE = V.PRELUDE + r'''
/* std::ostream as a byte sink: write(os, v) appends the bytes of v */
struct vos { uint8_t* buf; size_t pos; size_t cap; };
#define VOS_WRITE8(os, v) do { __CPROVER_assert((os)->pos < (os)->cap, "VERIF stream model: room for the byte"); (os)->buf[(os)->pos++] = (uint8_t)(v); } while (0)
uint32_t g_m;      /* ghost: an arbitrary heap item */
size_t g_pos0;     /* ghost: stream position where the mark bytes start */
#define HMAX ((uint32_t)1 << 24)
'''
HEAD = {"raw": r'''
/* the mark-packing block of var_opt_sketch::serialize(std::ostream&, sd), extracted as a region (statements between the weights and the items) */
void write_marks(const struct varopt* self, struct vos* os)
__CPROVER_requires(__CPROVER_r_ok(self, sizeof(*self)) && __CPROVER_rw_ok(os, sizeof(*os)) && self->h_ <= HMAX && (self->marks_ == NULL || __CPROVER_r_ok(self->marks_, self->h_)) && os->cap <= ((size_t)1 << 30)
                   && __CPROVER_rw_ok(os->buf, os->cap) && os->pos <= os->cap && os->cap - os->pos >= (size_t)self->h_ / 8 + 1 && g_pos0 == os->pos && g_m < self->h_)
__CPROVER_assigns(os->pos, __CPROVER_object_whole(os->buf))
/* a gadget writes ceil(h / 8) mark bytes; mark i is bit (i mod 8) of byte i / 8, and nothing else is set in those bytes */
__CPROVER_ensures(self->marks_ == NULL ==> os->pos == g_pos0)
__CPROVER_ensures(self->marks_ != NULL ==> os->pos == g_pos0 + ((size_t)self->h_ + 7) / 8)
__CPROVER_ensures(self->marks_ != NULL ==> (((os->buf[g_pos0 + g_m / 8] >> (g_m & 7)) & 1) != 0) == (self->marks_[g_m] != 0))
__CPROVER_ensures((self->marks_ != NULL && (self->h_ & 7) != 0) ==> (os->buf[g_pos0 + self->h_ / 8] >> (self->h_ & 7)) == 0)
{
'''}
REGION = {"name": "serialize_stream_marks_block", "file": VS, "members": V.MEMBERS,
          "begin": r"write\(os, weights_, h_ \* sizeof\(double\)\);", "end": r"sd\.serialize\(os, data_, h_\);",
          "rules": [(r"write\(os, val\);", "VOS_WRITE8(os, val);", 2),
                    (r"for \(uint32_t i = 0; i < self->h_; \+\+i\)", "for (uint32_t i = 0; i < self->h_; ++i)\n"
                     "__CPROVER_assigns(i, val, os->pos, __CPROVER_object_whole(os->buf))\n"
                     "__CPROVER_loop_invariant(i <= self->h_ && os->pos == g_pos0 + i / 8 && (val >> (i & 7)) == 0)\n"
                     "__CPROVER_loop_invariant((g_m < i && g_m / 8 < i / 8) ==> (((os->buf[g_pos0 + g_m / 8] >> (g_m & 7)) & 1) != 0) == (self->marks_[g_m] != 0))\n"
                     "__CPROVER_loop_invariant((g_m < i && g_m / 8 == i / 8) ==> (((val >> (g_m & 7)) & 1) != 0) == (self->marks_[g_m] != 0))\n"
                     "__CPROVER_decreases(self->h_ - i)\n", 1)]}
TAIL = {"raw": "\n}\n"}
UNIT = {
    "id": "varopt_stream_marks", "property": "C09",
    "clause": "var_opt_sketch::serialize(std::ostream&) mark packing (gadget images): exactly ceil(h/8) bytes are written after the weights, mark i is bit (i mod 8) of byte i/8 and no other bit is "
              "set - what the reader unpacks",
    "prelude": PRELUDE, "parts": [HEAD, REGION, TAIL],
    "harness": "void h_marks(void) { struct varopt* s = malloc(sizeof(*s)); struct vos* o = malloc(sizeof(*o)); __CPROVER_assume(s && o); __CPROVER_assume(s->h_ <= HMAX && o->cap <= ((size_t)1 << 30));\n"
               "  if (nondet_bool()) { s->marks_ = malloc(sizeof(bool) * (size_t)s->h_); __CPROVER_assume(s->marks_ != NULL); } else s->marks_ = NULL;\n"
               "  size_t cap_ = o->cap; o->buf = malloc(sizeof(uint8_t) * cap_); __CPROVER_assume(o->buf != NULL); g_pos0 = o->pos; write_marks(s, o); VERIF_CANARY_POINT; }\n",
    "jobs": [{"name": "write_marks", "entry": "h_marks", "enforce": "write_marks", "loops": True, "expect_loop_steps": 1, "timeout": 600, "object_bits": 10}],
    "assumptions": ["std::ostream is a byte sink (array + position); the block is extracted as a region of the stream serialize function and wrapped in a function whose signature and contract are specification",
                    "nondet _Bool marks are compared as != 0"],
}
