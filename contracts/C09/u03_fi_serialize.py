import crules
FS = "fi/include/frequent_items_sketch_impl.hpp"
FH = "fi/include/frequent_items_sketch.hpp"
PRELUDE = crules.MEMOPS_PRELUDE + r'''
typedef uint64_t W;
enum { flags_IS_EMPTY_1 = 0, flags_IS_EMPTY_2 = 2 };
/* frequent_items_sketch as seen by the writer: total weight, offset and the map's size fields */
struct fi { W total_weight; W offset; uint32_t num_active; uint8_t lg_max_size; uint8_t lg_cur_size; };
bool g_stopped; uint8_t g_flags, g_preamble; uint8_t* g_image;
size_t get_serialized_size_bytes(const struct fi* self) __CPROVER_requires(__CPROVER_r_ok(self, sizeof(*self))) __CPROVER_assigns() __CPROVER_ensures(__CPROVER_return_value >= 8 && __CPROVER_return_value <= SIZE_CAP);
'''
ser = {
    "name": "fi_serialize_header", "file": FS,
    "match": r"auto frequent_items_sketch<T, W, H, E, A>::serialize\(unsigned header_size_bytes, const SerDe& sd\) const",
    "sig": "void fi_serialize_header(const struct fi* self, unsigned header_size_bytes)", "dropped_params": ["sd"], "members": ["total_weight", "offset"],
    "pre_rules": [(r"get_serialized_size_bytes\(sd\)", "get_serialized_size_bytes(self)", 1),
                  (r"vector_bytes bytes\(size, 0, map\.get_allocator\(\)\);", "uint8_t* bytes_data = (uint8_t*)malloc(size); __CPROVER_assume(bytes_data != NULL); memset(bytes_data, 0, size); g_image = bytes_data;", 1),
                  (r"bytes\.data\(\)", "bytes_data", 1), (r"(?<![\w.>])is_empty\(\)", "(self->num_active == 0)", "any"),
                  (r"map\.get_lg_max_size\(\)", "self->lg_max_size", 1), (r"map\.get_lg_cur_size\(\)", "self->lg_cur_size", 1),
                  (r"flags::", "flags_", "any")],
    "rules": [(crules.stop_before_loop_block(2, "{ g_stopped = 1; return; }", keep=0), "non-empty block (items) -> stop", 1),
              (r"if \(ptr != end_ptr\)[^;]*;|return bytes;", "return;", "any")],
    "inserts": [(r"ptr \+= copy_to_mem\(flags_byte, ptr\);", "g_flags = flags_byte; g_preamble = preamble_longs;", "after", 1)],
    "contract": r'''
__CPROVER_requires(__CPROVER_r_ok(self, sizeof(*self)) && header_size_bytes <= 1024 && !g_stopped)
__CPROVER_assigns(g_stopped, g_flags, g_preamble, g_image)
/* the 8 preamble bytes are written inside the image; an image is marked empty (and then carries nothing else) only for a sketch that has seen no weight at all */
__CPROVER_ensures(((g_flags & ((1 << flags_IS_EMPTY_1) | (1 << flags_IS_EMPTY_2))) != 0) ==> (self->total_weight == 0 && self->offset == 0))
__CPROVER_ensures(((g_flags & ((1 << flags_IS_EMPTY_1) | (1 << flags_IS_EMPTY_2))) != 0) == (g_preamble == PREAMBLE_LONGS_EMPTY))
''',
}
UNIT = {
    "id": "fi_serialize", "property": "C09",
    "clause": "frequent_items_sketch::serialize (bytes), cut before the item block: the preamble is written inside the image, and the image is flagged empty - carrying neither total weight nor offset - "
              "only for a sketch whose total weight and offset are zero (otherwise a round trip loses them)",
    "consts": [{"file": FH, "pattern": r"static const (?P<type>uint8_t) (?P<name>SERIAL_VERSION|FAMILY_ID|PREAMBLE_LONGS_EMPTY|PREAMBLE_LONGS_NONEMPTY)\s*=\s*(?P<value>[^;]+);", "min_count": 4}],
    "prelude": PRELUDE, "parts": [ser],
    "harness": "void h_ser(void) { struct fi* s = malloc(sizeof(*s)); __CPROVER_assume(s != NULL); g_stopped = 0; fi_serialize_header(s, nondet_u32()); VERIF_CANARY_POINT; }\n",
    "jobs": [{"name": "serialize_header", "entry": "h_ser", "enforce": "fi_serialize_header", "replace": ["get_serialized_size_bytes"], "timeout": 300, "object_bits": 10}],
    "replay": {"*": {"template": "demo_fi_serialize_purged.cpp", "vars": {}}},
    "assumptions": ["the sketch is seen through its total weight, offset and the map's size fields; get_serialized_size_bytes by a frame-only contract (>= 8)"],
}
