import importlib.util, os
_spec = importlib.util.spec_from_file_location("c03coupon", os.path.join(os.path.dirname(__file__), "..", "C03", "u01_coupon.py"))
_c03 = importlib.util.module_from_spec(_spec); _spec.loader.exec_module(_c03)
TS = "theta/include/theta_sketch_impl.hpp"
TP = "theta/include/compact_theta_sketch_parser_impl.hpp"
M = ["entries_"]
PRELUDE = r'''
/* compact theta sketch as seen by the size functions: the sorted entries array */
struct cts { uint64_t* entries_; size_t entries_size; };
size_t g_j;   /* ghost: an arbitrary entry */
'''
whole_bytes = {"name": "whole_bytes_to_hold_bits", "file": TP, "match": r"T whole_bytes_to_hold_bits\(T bits\)", "sig": "size_t whole_bytes_to_hold_bits(size_t bits)",
               "rules": [(r"static_assert\([^;]*\);", "", 1)],
               "contract": "__CPROVER_requires(bits <= SIZE_MAX - 8)\n__CPROVER_assigns()\n/* the smallest number of bytes with at least that many bits */\n"
                           "__CPROVER_ensures(__CPROVER_return_value * 8 >= bits && __CPROVER_return_value * 8 < bits + 8)\n"}
num_entries_bytes = {
    "name": "get_num_entries_bytes", "file": TS, "members": M, "match": r"uint8_t compact_theta_sketch_alloc<A>::get_num_entries_bytes\(\) const", "sig": "uint8_t get_num_entries_bytes(const struct cts* self)",
    "pre_rules": [(r"entries_\.size\(\)", "entries_size", 1), (r"whole_bytes_to_hold_bits<uint8_t>\(", "(uint8_t)whole_bytes_to_hold_bits(", 1)],
    "rules": [(r"\bentries_size\b", "self->entries_size", 1)],
    "contract": r'''
__CPROVER_requires(__CPROVER_r_ok(self, sizeof(*self)) && self->entries_size <= UINT32_MAX)
__CPROVER_assigns()
/* the number of whole bytes the v4 image uses for the entry count: the count fits in that many bytes and in no fewer */
__CPROVER_ensures(__CPROVER_return_value <= 4 && ((uint64_t)self->entries_size >> (8 * __CPROVER_return_value)) == 0)
__CPROVER_ensures(__CPROVER_return_value == 0 || ((uint64_t)self->entries_size >> (8 * (__CPROVER_return_value - 1))) != 0)
''',
}
compute_entry_bits = {
    "name": "compute_entry_bits", "file": TS, "members": M, "match": r"uint8_t compact_theta_sketch_alloc<A>::compute_entry_bits\(\) const", "sig": "uint8_t compute_entry_bits(const struct cts* self)", "nloops": 1,
    "pre_rules": [(r"for \(const uint64_t entry: entries_\) \{", "for (size_t ei_ = 0; ei_ < self->entries_size; ei_++) { const uint64_t entry = self->entries_[ei_];", 1)],
    "contract": r'''
__CPROVER_requires(__CPROVER_r_ok(self, sizeof(*self)) && self->entries_size <= ((size_t)1 << 27) && __CPROVER_r_ok(self->entries_, self->entries_size * 8) && g_j < self->entries_size)
__CPROVER_assigns()
/* every delta between consecutive entries (the first against 0) fits in the returned number of bits, so packing with that width loses nothing */
__CPROVER_ensures(__CPROVER_return_value <= 64)
__CPROVER_ensures(__CPROVER_return_value == 64 || ((self->entries_[g_j] - (g_j == 0 ? 0 : self->entries_[g_j - 1])) >> __CPROVER_return_value) == 0)
''',
    "loops": {1: r'''
__CPROVER_assigns(ei_, previous, ored)
__CPROVER_loop_invariant(ei_ <= self->entries_size && previous == (ei_ == 0 ? 0 : self->entries_[ei_ - 1]))
__CPROVER_loop_invariant(g_j < ei_ ==> ((self->entries_[g_j] - (g_j == 0 ? 0 : self->entries_[g_j - 1])) & ~ored) == 0)
__CPROVER_decreases(self->entries_size - ei_)
'''},
}
HARNESS = r'''
static struct cts* mk(void) { struct cts* s = malloc(sizeof(*s)); __CPROVER_assume(s != NULL); __CPROVER_assume(s->entries_size <= ((size_t)1 << 27)); s->entries_ = malloc(sizeof(uint64_t) * s->entries_size); __CPROVER_assume(s->entries_ != NULL); return s; }
void h_wb(void) { (void)whole_bytes_to_hold_bits(nondet_size()); VERIF_CANARY_POINT; }
void h_neb(void) { struct cts* s = malloc(sizeof(*s)); __CPROVER_assume(s != NULL); (void)get_num_entries_bytes(s); VERIF_CANARY_POINT; }
void h_ceb(void) { struct cts* s = mk(); (void)compute_entry_bits(s); VERIF_CANARY_POINT; }
'''
UNIT = {
    "id": "theta_v4_sizes", "property": "C09",
    "clause": "compressed (v4) theta image sizing: whole_bytes_to_hold_bits is the ceiling of bits/8, get_num_entries_bytes is the least number of bytes that holds the entry count, "
              "compute_entry_bits returns a width in which every delta between consecutive entries fits - so the writer's count field and packed deltas lose nothing",
    "prelude": PRELUDE, "parts": [_c03.tables, _c03.clz32, _c03.clz64, whole_bytes, num_entries_bytes, compute_entry_bits], "harness": HARNESS,
    "jobs": [{"name": "whole_bytes_to_hold_bits", "entry": "h_wb", "enforce": "whole_bytes_to_hold_bits", "timeout": 300},
             {"name": "get_num_entries_bytes", "entry": "h_neb", "enforce": "get_num_entries_bytes", "replace": ["count_leading_zeros_in_u32"], "timeout": 300},
             {"name": "compute_entry_bits", "entry": "h_ceb", "enforce": "compute_entry_bits", "replace": ["count_leading_zeros_in_u64"], "loops": True, "expect_loop_steps": 1, "timeout": 600}],
    "assumptions": ["entries_ (std::vector<uint64_t>) as (array, size); the range-for over entries_ rendered as an index loop (stated rule); count_leading_zeros by contract (proved in C03 unit hll_coupon)"],
}
