HU = "hll/include/HllUnion-internal.hpp"
PRELUDE = r'''
enum { LIST = 0, SET = 1, HLL = 2 };
enum { HLL_4 = 0, HLL_6 = 1, HLL_8 = 2 };
/* HllSketchImpl seen through the virtual getters the union uses (mode, lg_k, emptiness, target type); 'count' = number of coupons of a LIST/SET; 'live' = ghost: not yet released */
struct impl { uint8_t mode; uint8_t lg_k; bool empty; uint8_t tgt; uint32_t count; bool live; };
struct hsk { struct impl* sketch_impl; };                       /* hll_sketch_alloc */
struct hunion { uint8_t lg_max_k_; struct hsk gadget_; };       /* hll_union_alloc */
int g_live_impl;   /* ghost: implementation objects allocated and not released */
/* C models of the virtual calls that allocate / release implementation objects */
static struct impl* impl_new(uint8_t mode, uint8_t lg_k, bool empty) { struct impl* p = malloc(sizeof(*p)); __CPROVER_assume(p != NULL); p->mode = mode; p->lg_k = lg_k; p->empty = empty; p->tgt = HLL_8; p->count = nondet_u32(); p->live = 1; g_live_impl++; return p; }
static void impl_delete(struct impl* p) { __CPROVER_assert(p != NULL && p->live, "VERIF released implementation object is live (no double release)"); p->live = 0; g_live_impl--; }
/* impl->copyAs(HLL_8): a new object of the same mode and lg_k, retargeted */
static struct impl* impl_copy_as(const struct impl* s) { __CPROVER_assert(s->live, "VERIF copied object is live"); return impl_new(s->mode, s->lg_k, s->empty); }
/* impl->couponUpdate(coupon): same object, or (promotion LIST -> SET -> HLL) a new object of the same lg_k */
static struct impl* impl_coupon_update(struct impl* s) { __CPROVER_assert(s->live, "VERIF updated object is live"); s->empty = 0;
  if (nondet_bool() && s->mode != HLL) return impl_new((uint8_t)(s->mode + 1), s->lg_k, 0); return s; }
/* register-level operations proved elsewhere (C04 unit hll_merge) or without effect on the facts tracked here */
#define MERGE_HLL(dst, src) do { __CPROVER_assert((dst)->live && (src)->live && (dst)->mode == HLL && (src)->mode == HLL && (dst)->lg_k <= (src)->lg_k, "VERIF mergeHll: both live, HLL mode, destination lg_k <= source lg_k"); (dst)->empty = (dst)->empty && (src)->empty; } while (0)
#define MERGE_LIST(dst, src) do { __CPROVER_assert((dst)->live && (src)->live && (dst)->mode == HLL && (src)->mode != HLL, "VERIF mergeList: destination HLL, source LIST/SET, both live"); (dst)->empty = (dst)->empty && (src)->empty; } while (0)
uint8_t g_lg0, g_mode0; bool g_empty0, g_stopped;   /* ghost: gadget state at entry */
'''
IMPL = [(r"(\w+)->getCurMode\(\)", r"\1->mode", "any"), (r"(\w+)->getLgConfigK\(\)", r"\1->lg_k", "any"), (r"(\w+)->isEmpty\(\)", r"\1->empty", "any"),
        (r"(\w+)->copyAs\(HLL_8\)", r"impl_copy_as(\1)", "any"),
        (r"self->gadget_\.sketch_impl->get_deleter\(\)\(self->gadget_\.sketch_impl\);", "impl_delete(self->gadget_.sketch_impl);", "any"),
        (r"(\w+)->get_deleter\(\)\(\1\);", r"impl_delete(\1);", "any")]
copy_or_downsample = {
    "name": "copy_or_downsample", "file": HU, "match": r"HllSketchImpl<A>\* hll_union_alloc<A>::copy_or_downsample\(const HllSketchImpl<A>\* src_impl, uint8_t tgt_lg_k\)",
    "sig": "struct impl* copy_or_downsample(const struct impl* src_impl, uint8_t tgt_lg_k)", "throw_rv": "NULL",
    "pre_rules": [(r"const HllArray<A>\* src = static_cast<const HllArray<A>\*>\(src_impl\);", "const struct impl* src = src_impl;", 1),
              (r"typedef typename std::allocator_traits<A>::template rebind_alloc<Hll8Array<A>> hll8Alloc;", "", 1),
              (r"Hll8Array<A>\* tgtHllArr = new \(hll8Alloc\(src->getAllocator\(\)\)\.allocate\(1\)\) Hll8Array<A>\(tgt_lg_k, false, src->getAllocator\(\)\);", "struct impl* tgtHllArr = impl_new(HLL, tgt_lg_k, 1);", 1),
              (r"tgtHllArr->mergeHll\(\*src\);", "MERGE_HLL(tgtHllArr, src);", 1),
              (r"tgtHllArr->putHipAccum\(src->getHipAccum\(\)\);", "", 1), (r"tgtHllArr->putOutOfOrderFlag\(src->isOutOfOrderFlag\(\)\);", "", 1)],
    "rules": IMPL,
    "contract": r'''
__CPROVER_requires(__CPROVER_r_ok(src_impl, sizeof(*src_impl)) && src_impl->live && verif_exc == 0 && g_live_impl >= 0 && g_live_impl < 1000 && tgt_lg_k >= 4 && tgt_lg_k <= 21 && src_impl->lg_k >= 4 && src_impl->lg_k <= 21)
__CPROVER_assigns(verif_exc, g_live_impl)
/* a new HLL_8 array of lg_k = min(source lg_k, target lg_k); refused for a source that is not in HLL mode */
__CPROVER_ensures((verif_exc != 0) == (src_impl->mode != HLL))
__CPROVER_ensures(verif_exc == 0 ==> (__CPROVER_return_value != NULL && __CPROVER_return_value != src_impl && __CPROVER_return_value->live && __CPROVER_return_value->mode == HLL
                   && __CPROVER_return_value->lg_k == (src_impl->lg_k < tgt_lg_k ? src_impl->lg_k : tgt_lg_k) && g_live_impl == __CPROVER_old(g_live_impl) + 1))
__CPROVER_ensures(verif_exc != 0 ==> g_live_impl == __CPROVER_old(g_live_impl))
''',
}
leak_free = {
    "name": "leak_free_coupon_update", "file": HU, "match": r"inline HllSketchImpl<A>\* hll_union_alloc<A>::leak_free_coupon_update\(HllSketchImpl<A>\* impl, uint32_t coupon\)",
    "sig": "struct impl* leak_free_coupon_update(struct impl* impl, uint32_t coupon)",
    "rules": [(r"impl->couponUpdate\(coupon\)", "impl_coupon_update(impl)", 1), (r"HllSketchImpl<A>\* result", "struct impl* result", 1)] + IMPL,
    "contract": r'''
__CPROVER_requires(__CPROVER_rw_ok(impl, sizeof(*impl)) && impl->live && g_live_impl >= 1 && g_live_impl < 1000)
__CPROVER_assigns(g_live_impl, impl->empty, impl->live)
/* the object that holds the state afterwards is live, has the same lg_k, and the number of live objects is unchanged (a replaced object is released) */
__CPROVER_ensures(__CPROVER_return_value != NULL && __CPROVER_return_value->live && __CPROVER_return_value->lg_k == __CPROVER_old(impl->lg_k) && !__CPROVER_return_value->empty && g_live_impl == __CPROVER_old(g_live_impl))
__CPROVER_ensures(__CPROVER_return_value != impl ==> !impl->live)
''',
}
union_impl = {
    "name": "union_impl", "file": HU, "members": ["lg_max_k_", "gadget_"], "match": r"void hll_union_alloc<A>::union_impl\(const hll_sketch_alloc<A>& sketch, uint8_t lg_max_k\)",
    "sig": "void union_impl(struct hunion* self, const struct hsk* sketch, uint8_t lg_max_k)", "refs": ["sketch"], "nloops": 1, "propagate": ["copy_or_downsample"],
    "pre_rules": [(r"const HllSketchImpl<A>\* src_impl = sketch\.sketch_impl;", "const struct impl* src_impl = sketch.sketch_impl;", 1), (r"HllSketchImpl<A>\* dst_impl = gadget_\.sketch_impl;", "struct impl* dst_impl = gadget_.sketch_impl;", 1),
                  (r"const CouponList<A>\* src = static_cast<const CouponList<A>\*>\(src_impl\);\s*for \(auto coupon: \*src\) \{", "const struct impl* src = src_impl; for (uint32_t ci_ = 0; ci_ < src->count; ci_++) { const uint32_t coupon = nondet_u32();", 1),
                  (r"const CouponList<A>\* src = static_cast<const CouponList<A>\*>\(dst_impl\);", "const struct impl* src = dst_impl;", 1),
                  (r"static_cast<Hll8Array<A>\*>\(dst_impl\)->mergeList\(\*src\);", "MERGE_LIST(dst_impl, src);", 1),
                  (r"const HllArray<A>\* src = static_cast<const HllArray<A>\*>\(src_impl\);", "const struct impl* src = src_impl;", 1),
                  (r"static_cast<Hll8Array<A>\*>\(dst_impl\)->mergeHll\(\*src\);", "MERGE_HLL(dst_impl, src);", 1),
                  (r"dst_impl->putOutOfOrderFlag\(true\);", "", 1), (r"static_cast<Hll8Array<A>\*>\(dst_impl\)->putHipAccum\(0\);", "", 1),
                  (r"sketch\.get_lg_config_k\(\)", "sketch.sketch_impl->lg_k", 1)],
    "rules": IMPL,
    "contract": r'''
__CPROVER_requires(__CPROVER_rw_ok(self, sizeof(*self)) && __CPROVER_r_ok(sketch, sizeof(*sketch)) && __CPROVER_rw_ok(self->gadget_.sketch_impl, sizeof(struct impl)) && __CPROVER_r_ok(sketch->sketch_impl, sizeof(struct impl))
                   && self->gadget_.sketch_impl != sketch->sketch_impl && self->gadget_.sketch_impl->live && sketch->sketch_impl->live && verif_exc == 0 && g_live_impl >= 2 && g_live_impl < 1000)
__CPROVER_requires(self->gadget_.sketch_impl->lg_k >= 4 && self->gadget_.sketch_impl->lg_k <= lg_max_k && lg_max_k <= 21 && sketch->sketch_impl->lg_k >= 4 && sketch->sketch_impl->lg_k <= 21 && !sketch->sketch_impl->empty)
/* the union gadget is HLL_8 and, once in HLL mode, never empty (an empty gadget is a LIST) */
__CPROVER_requires(self->gadget_.sketch_impl->mode == HLL ==> !self->gadget_.sketch_impl->empty)
__CPROVER_requires(g_lg0 == self->gadget_.sketch_impl->lg_k && g_mode0 == self->gadget_.sketch_impl->mode && g_empty0 == self->gadget_.sketch_impl->empty)
__CPROVER_assigns(verif_exc, g_live_impl, self->gadget_.sketch_impl, __CPROVER_object_whole(self->gadget_.sketch_impl))
/* exactly one implementation object holds the gadget afterwards: nothing leaked, nothing released twice, the input sketch untouched */
__CPROVER_ensures(verif_exc == 0 ==> (g_live_impl == __CPROVER_old(g_live_impl) && self->gadget_.sketch_impl->live && sketch->sketch_impl->live && !self->gadget_.sketch_impl->empty))
/* lg_k rule: an input in HLL mode brings the gadget down to the smaller lg_k (never above lg_max_k); a LIST/SET input (26-bit coupons) leaves the gadget's lg_k alone */
__CPROVER_ensures((verif_exc == 0 && sketch->sketch_impl->mode != HLL) ==> self->gadget_.sketch_impl->lg_k == g_lg0)
__CPROVER_ensures((verif_exc == 0 && sketch->sketch_impl->mode == HLL && g_mode0 == HLL) ==> self->gadget_.sketch_impl->lg_k == (sketch->sketch_impl->lg_k < g_lg0 ? sketch->sketch_impl->lg_k : g_lg0))
__CPROVER_ensures((verif_exc == 0 && sketch->sketch_impl->mode == HLL && g_mode0 != HLL) ==> self->gadget_.sketch_impl->lg_k == (sketch->sketch_impl->lg_k < lg_max_k ? sketch->sketch_impl->lg_k : lg_max_k))
__CPROVER_ensures(verif_exc == 0 ==> self->gadget_.sketch_impl->lg_k <= lg_max_k)
''',
    "loops": {1: r'''
__CPROVER_assigns(ci_, dst_impl, g_live_impl, __CPROVER_object_whole(self->gadget_.sketch_impl))
__CPROVER_loop_invariant(ci_ <= src->count && dst_impl != NULL && dst_impl->live && dst_impl->lg_k == g_lg0 && g_live_impl == __CPROVER_loop_entry(g_live_impl) && src_impl->live
                         && (dst_impl == self->gadget_.sketch_impl || !self->gadget_.sketch_impl->live) && (ci_ > 0 ==> !dst_impl->empty))
__CPROVER_decreases(src->count - ci_)
'''},
}
update_rv = {
    "name": "union_update_rvalue", "file": HU, "members": ["lg_max_k_", "gadget_"], "match": r"void hll_union_alloc<A>::update\(hll_sketch_alloc<A>&& sketch\)",
    "sig": "void union_update_rvalue(struct hunion* self, struct hsk* sketch)", "refs": ["sketch"], "propagate": ["union_impl"], "methods": ["union_impl"],
    "pre_rules": [(r"sketch\.is_empty\(\)", "sketch.sketch_impl->empty", 1), (r"gadget_\.is_empty\(\)", "gadget_.sketch_impl->empty", 1), (r"sketch\.get_target_type\(\)", "sketch.sketch_impl->tgt", 1),
                  (r"sketch\.get_lg_config_k\(\)", "sketch.sketch_impl->lg_k", "any"), (r"sketch\.get_current_mode\(\)", "sketch.sketch_impl->mode", 1),
                  # hll_sketch_alloc::operator=(hll_sketch_alloc&&) is 'std::swap(sketch_impl, other.sketch_impl)' (HllSketch-internal.hpp)
                  (r"gadget_ = std::move\(sketch\);", "{ struct impl* swap_tmp_ = gadget_.sketch_impl; gadget_.sketch_impl = sketch.sketch_impl; sketch.sketch_impl = swap_tmp_; }", 1)],
    "post_rules": [(r"union_impl\(self, \(\*sketch\), ", "union_impl(self, sketch, ", 1)],
}
import copy, sys, os
sys.path.insert(0, os.path.join(os.path.dirname(__file__), ".."))
import crules
# job A: every branch except the coupon replay loop (cut out: the function stops there); job B (bounded): the whole function with at most 3 coupons
union_cut = copy.deepcopy(union_impl)
union_cut.update({"name": "union_impl_cut", "sig": "void union_impl_cut(struct hunion* self, const struct hsk* sketch, uint8_t lg_max_k)", "loops": {}, "nloops": 0,
                  "rules": [(crules.stop_before_loop_block(1, "{ g_stopped = 1; return; }"), "coupon replay loop -> stop", 1)] + IMPL})
union_cut["contract"] = union_impl["contract"].replace("__CPROVER_assigns(verif_exc, g_live_impl,", "__CPROVER_assigns(verif_exc, g_stopped, g_live_impl,").replace("verif_exc == 0 ==>", "(verif_exc == 0 && !g_stopped) ==>").replace("(verif_exc == 0 && sketch", "(verif_exc == 0 && !g_stopped && sketch")
HARNESS = r'''
static struct impl* mk_impl(void) { struct impl* p = malloc(sizeof(*p)); __CPROVER_assume(p != NULL); p->live = 1; return p; }
void h_cod(void) { struct impl* s = mk_impl(); verif_exc = 0; (void)copy_or_downsample(s, nondet_u8()); VERIF_CANARY_POINT; }
void h_lfcu(void) { struct impl* s = mk_impl(); (void)leak_free_coupon_update(s, nondet_u32()); VERIF_CANARY_POINT; }
void h_union(void) { struct hunion* u = malloc(sizeof(*u)); struct hsk* k = malloc(sizeof(*k)); __CPROVER_assume(u && k); u->gadget_.sketch_impl = mk_impl(); k->sketch_impl = mk_impl(); verif_exc = 0;
  g_lg0 = u->gadget_.sketch_impl->lg_k; g_mode0 = u->gadget_.sketch_impl->mode; g_empty0 = u->gadget_.sketch_impl->empty; g_stopped = 0; union_impl_cut(u, k, nondet_u8()); VERIF_CANARY_POINT; }
void h_union_b(void) { struct hunion* u = malloc(sizeof(*u)); struct hsk* k = malloc(sizeof(*k)); __CPROVER_assume(u && k); struct impl* g = mk_impl(); struct impl* s = mk_impl(); u->gadget_.sketch_impl = g; k->sketch_impl = s; verif_exc = 0;
  uint8_t lgm = nondet_u8(); g_live_impl = 2;
  __CPROVER_assume(g->lg_k >= 4 && g->lg_k <= lgm && lgm <= 21 && s->lg_k >= 4 && s->lg_k <= 21 && !s->empty && (g->mode != HLL || !g->empty) && g->mode <= HLL && s->mode <= HLL && s->count <= 3 && (s->mode == HLL || s->count >= 1));
  const uint8_t lg0 = g->lg_k, mode0 = g->mode;
  union_impl(u, k, lgm);
  struct impl* r = u->gadget_.sketch_impl;
  __CPROVER_assert(verif_exc == 0 ==> (g_live_impl == 2 && r->live && s->live && !r->empty), "exactly one live object holds the gadget, the input is untouched");
  __CPROVER_assert((verif_exc == 0 && s->mode != HLL) ==> r->lg_k == lg0, "a LIST/SET input leaves the gadget's lg_k alone");
  __CPROVER_assert((verif_exc == 0 && s->mode == HLL && mode0 == HLL) ==> r->lg_k == (s->lg_k < lg0 ? s->lg_k : lg0), "HLL into HLL: the smaller lg_k");
  __CPROVER_assert((verif_exc == 0 && s->mode == HLL && mode0 != HLL) ==> r->lg_k == (s->lg_k < lgm ? s->lg_k : lgm), "HLL into a LIST/SET gadget: min(input lg_k, lg_max_k)");
  VERIF_CANARY_POINT; }
void h_update_rv(void) { struct hunion* u = malloc(sizeof(*u)); struct hsk* k = malloc(sizeof(*k)); __CPROVER_assume(u && k); struct impl* g = mk_impl(); struct impl* s = mk_impl(); u->gadget_.sketch_impl = g; k->sketch_impl = s; verif_exc = 0;
  g_live_impl = 2;
  __CPROVER_assume(u->lg_max_k_ <= 21 && g->lg_k >= 4 && g->lg_k <= u->lg_max_k_ && s->lg_k >= 4 && s->lg_k <= 21 && g->mode <= HLL && s->mode <= HLL && s->tgt <= HLL_8 && s->count <= 3 && (s->mode == HLL || s->empty || s->count >= 1));
  /* union gadget invariants: HLL_8; a LIST/SET gadget has lg_max_k (only HLL-mode merges lower it); empty only as a LIST without coupons (constructor / reset state); an HLL-mode gadget is never empty */
  __CPROVER_assume((g->mode != HLL || !g->empty) && (g->mode == HLL || g->lg_k == u->lg_max_k_) && (!g->empty || (g->mode == LIST && g->count == 0)) && g->count <= 3 && (s->mode != HLL || !s->empty));
  const uint8_t lg0 = g->lg_k, mode0 = g->mode, slg = s->lg_k, smode = s->mode, lgm = u->lg_max_k_; const bool sempty = s->empty;
  union_update_rvalue(u, k);
  struct impl* r = u->gadget_.sketch_impl;
  __CPROVER_assert(verif_exc == 0 ==> (g_live_impl == 2 && r->live && k->sketch_impl->live), "the union and the moved-from sketch each hold exactly one live object");
  __CPROVER_assert((verif_exc == 0 && sempty) ==> (r == g && r->lg_k == lg0), "an empty input changes nothing");
  __CPROVER_assert((verif_exc == 0 && !sempty && smode != HLL) ==> r->lg_k == lg0, "a LIST/SET input leaves the gadget's lg_k alone");
  __CPROVER_assert((verif_exc == 0 && !sempty && smode == HLL) ==> r->lg_k == (slg < lg0 ? slg : lg0), "an HLL-mode input brings the gadget to the smaller lg_k");
  __CPROVER_assert(verif_exc == 0 ==> r->lg_k <= lgm, "never above lg_max_k");
  VERIF_CANARY_POINT; }
'''
UNIT = {
    "id": "hll_union", "property": "C04",
    "clause": "hll_union::update(sketch&&), union_impl, copy_or_downsample and leak_free_coupon_update over the implementation objects (mode, lg_k, emptiness; register contents by the merge contracts of unit hll_merge): "
              "after a union step exactly one live object holds the gadget - nothing leaked, nothing released twice, the input untouched; an HLL-mode input brings the gadget to the smaller lg_k "
              "(never above lg_max_k), a LIST/SET input leaves the gadget's lg_k alone; mergeHll is only called with destination lg_k <= source lg_k",
    "prelude": PRELUDE, "parts": [copy_or_downsample, leak_free, union_impl, update_rv], "harness": HARNESS,
    "jobs": [{"name": "copy_or_downsample", "entry": "h_cod", "enforce": "copy_or_downsample", "timeout": 300, "object_bits": 10},
             {"name": "leak_free_coupon_update", "entry": "h_lfcu", "enforce": "leak_free_coupon_update", "timeout": 300, "object_bits": 10},
                          {"name": "union_impl_3coupons", "entry": "h_union_b", "unwind": 5, "timeout": 900, "object_bits": 10, "kind": "bounded", "bound": "coupon lists of at most 3 coupons; every other input (modes, lg_k 4..21, lg_max_k) fully symbolic and every loop-free branch covered completely (the replay loop reassigns the destination pointer: not closable by a loop contract in cbmc 6.11)"},
             {"name": "update_rvalue_3coupons", "entry": "h_update_rv", "unwind": 5, "timeout": 900, "object_bits": 10, "kind": "bounded", "bound": "coupon lists of at most 3 coupons; everything else fully symbolic"}],
    "assumptions": ["HllSketchImpl objects are seen through (mode, lg_k, empty, live); the virtual calls copyAs / couponUpdate / get_deleter / new Hll8Array are small C models over those fields with a live-object counter",
                    "mergeHll / mergeList: only their call preconditions are tracked here (register semantics: unit hll_merge); the range-for over a coupon list is an index loop with arbitrary coupons"],
}
