import crules
H8 = "hll/include/Hll8Array-internal.hpp"
HA = "hll/include/HllArray-internal.hpp"
M = crules.HLL_MEMBERS

PRELUDE = crules.HLL_STRUCT + r'''
#define target_hll_type_HLL_4 HLL_4
#define target_hll_type_HLL_6 HLL_6
#define target_hll_type_HLL_8 HLL_8
#define LGK_OK(x) ((x)->lgConfigK_ >= 4 && (x)->lgConfigK_ <= 21)
#define K(x) ((uint32_t)1 << (x)->lgConfigK_)
#define NBYTES(x) ((x)->tgtHllType_ == HLL_8 ? K(x) : (x)->tgtHllType_ == HLL_6 ? ((K(x) * 3) >> 2) + 1 : (K(x) >> 1))
#define SPEC_GET4(arr, s) (((s) & 1) ? ((arr)[(s) >> 1] >> 4) : ((arr)[(s) >> 1] & 0xf))
#define SPEC_GET6(arr, s) ((uint8_t)(((((uint32_t)(arr)[(((s) * 6) >> 3) + 1] << 8) | (arr)[((s) * 6) >> 3]) >> (((s) * 6) & 7)) & 0x3f))
/* true value of register s of an HLL array of any width (the exception-table entry of the ghost slot is the ghost g_auxval) */
#define TRUE_REG(x, s) ((x)->tgtHllType_ == HLL_8 ? (x)->hllByteArr_[s] : (x)->tgtHllType_ == HLL_6 ? SPEC_GET6((x)->hllByteArr_, s) : \
                        (SPEC_GET4((x)->hllByteArr_, s) < 15 ? (uint8_t)(SPEC_GET4((x)->hllByteArr_, s) + (x)->curMin_) : g_auxval))
#define WF_SRC(x) (__CPROVER_is_fresh(x, sizeof(*x)) && LGK_OK(x) && (x)->tgtHllType_ <= HLL_8 && (x)->curMin_ <= 48 && \
                   ((x)->tgtHllType_ != HLL_4 ==> (x)->curMin_ == 0) && __CPROVER_is_fresh((x)->hllByteArr_, NBYTES(x)) && (x)->hllByteArr_size == NBYTES(x))
#define WF_DST8(x) (__CPROVER_is_fresh(x, sizeof(*x)) && LGK_OK(x) && (x)->tgtHllType_ == HLL_8 && __CPROVER_is_fresh((x)->hllByteArr_, K(x)) && (x)->hllByteArr_size == K(x))
uint32_t g_s, g_d; uint8_t g_old_d, g_true_s, g_auxval;
/* Hll4Array::adjustRawValue by contract (proved in unit hll4_update): nibble + curMin, or the exception entry of the slot */
uint8_t hll4array_adjustRawValue(const struct hllarr* self, uint32_t slot, uint8_t value)
  __CPROVER_requires(value <= 15) __CPROVER_assigns()
  __CPROVER_ensures(value != 15 ==> __CPROVER_return_value == (uint8_t)(value + self->curMin_))
  __CPROVER_ensures((value == 15 && slot == g_s) ==> __CPROVER_return_value == g_auxval);
#define MAX8(a, b) ((uint8_t)((a) < (b) ? (b) : (a)))
'''

RANGE_FOR = [
    (r"for \(const auto value: src\.getHllArray\(\)\) \{", "for (uint32_t vi_ = 0; vi_ < src->hllByteArr_size; vi_++) { const uint8_t value = src->hllByteArr_[vi_];", 2),
    (r"for \(const auto byte: src\.getHllArray\(\)\) \{", "for (uint32_t vi_ = 0; vi_ < src->hllByteArr_size; vi_++) { const uint8_t byte = src->hllByteArr_[vi_];", 2),
]
ACCESSORS = [
    (r"self->getLgConfigK\(\)", "self->lgConfigK_", "any"), (r"src\.getLgConfigK\(\)", "src->lgConfigK_", "any"),
    (r"src\.getTgtHllType\(\)", "src->tgtHllType_", "any"), (r"src\.getHllArray\(\)\.data\(\)", "src->hllByteArr_", 2),
    (r"const auto& src4 = [^;]*;", "const struct hllarr* src4 = src;", 2), (r"src4\.adjustRawValue\(", "hll4array_adjustRawValue(src4, ", 4),
    (r"std::max\(", "MAX8(", None), (r"self->setRebuildKxqCurminFlag\(true\)", "self->rebuild_kxq_curmin_ = true", 1),
]

INV_COMMON = r'''
__CPROVER_loop_invariant(self->hllByteArr_[g_d] >= g_old_d)
__CPROVER_loop_invariant(g_s < i ==> self->hllByteArr_[g_d] >= g_true_s)
__CPROVER_loop_invariant((self->lgConfigK_ == src->lgConfigK_ && g_s >= i) ==> self->hllByteArr_[g_d] == g_old_d)
__CPROVER_loop_invariant((self->lgConfigK_ == src->lgConfigK_ && g_s < i) ==> self->hllByteArr_[g_d] == MAX8(g_old_d, g_true_s))
'''
def loop_bytes8():   # one register per source byte
    return "__CPROVER_assigns(i, vi_, __CPROVER_object_whole(self->hllByteArr_))\n__CPROVER_loop_invariant(vi_ <= src->hllByteArr_size && i == vi_)" + INV_COMMON + "__CPROVER_decreases(src->hllByteArr_size - vi_)\n"
def loop_bytes4():   # two registers per source byte
    return "__CPROVER_assigns(i, vi_, __CPROVER_object_whole(self->hllByteArr_))\n__CPROVER_loop_invariant(vi_ <= src->hllByteArr_size && i == 2 * vi_)" + INV_COMMON + "__CPROVER_decreases(src->hllByteArr_size - vi_)\n"
def loop_6():        # four registers per three source bytes
    return ("__CPROVER_assigns(i, ptr, __CPROVER_object_whole(self->hllByteArr_))\n"
            "__CPROVER_loop_invariant(i <= src_k && (i & 3) == 0 && __CPROVER_same_object(ptr, src->hllByteArr_) && __CPROVER_POINTER_OFFSET(ptr) == 3 * (i >> 2))" + INV_COMMON +
            "__CPROVER_decreases(src_k - i)\n")

LOOPS = {1: loop_bytes8(), 2: loop_6(), 3: loop_bytes4(), 4: loop_bytes8(), 5: loop_6(), 6: loop_bytes4()}
CASES = {1: ("HLL_8", 1), 2: ("HLL_6", 1), 3: ("HLL_4", 1), 4: ("HLL_8", 0), 5: ("HLL_6", 0), 6: ("HLL_4", 0)}

def mergeHll(case):
    t, eq = CASES[case]
    return {
        "name": "hll8array_mergeHll_case%d" % case, "file": H8, "members": M,
        "match": r"void Hll8Array<A>::mergeHll\(const HllArray<A>& src\)",
        "sig": "void hll8array_mergeHll_case%d(struct hllarr* self, const struct hllarr* src)" % case,
        "rules": RANGE_FOR + ACCESSORS + [(crules.keep_only_loop(case, 6), "case split: keep the branch of loop #%d, the other five branch bodies become 'unreachable' assertions" % case, 5)],
        "methods": [("processValue", "any")], "nloops": 1,
        "contract": r'''
__CPROVER_requires(WF_DST8(self) && WF_SRC(src) && src->lgConfigK_ >= self->lgConfigK_)
__CPROVER_requires(src->tgtHllType_ == %s && ((self->lgConfigK_ == src->lgConfigK_) ? 1 : 0) == %d)
__CPROVER_requires(g_s < K(src) && g_d == (g_s & (K(self) - 1)) && g_old_d == self->hllByteArr_[g_d] && g_true_s == TRUE_REG(src, g_s))
__CPROVER_assigns(verif_exc, __CPROVER_object_whole(self->hllByteArr_), self->rebuild_kxq_curmin_)
__CPROVER_ensures(verif_exc == 0)
/* nothing offered is lost: the destination register that source register g_s folds onto is at least its true value, and never decreases */
__CPROVER_ensures(self->hllByteArr_[g_d] >= g_true_s && self->hllByteArr_[g_d] >= g_old_d)
/* equal lg_k: exactly the per-slot maximum */
__CPROVER_ensures(self->lgConfigK_ == src->lgConfigK_ ==> self->hllByteArr_[g_d] == MAX8(g_old_d, g_true_s))
/* curMin / numAtCurMin / KxQ are stale afterwards and flagged for recomputation */
__CPROVER_ensures(self->rebuild_kxq_curmin_)
''' % (t, eq),
        "loops": {1: LOOPS[case]},
    }

processValue = {
    "name": "processValue", "file": H8, "members": M,
    "match": r"void Hll8Array<A>::processValue\(uint32_t slot, uint32_t mask, uint8_t new_val\)",
    "sig": "void processValue(struct hllarr* self, uint32_t slot, uint32_t mask, uint8_t new_val)",
    "rules": [(r"std::max\(", "MAX8(", 1)],
    "contract": r'''
__CPROVER_requires(__CPROVER_r_ok(self, sizeof(*self)) && LGK_OK(self) && mask == K(self) - 1 && __CPROVER_rw_ok(self->hllByteArr_, K(self)))
__CPROVER_assigns(self->hllByteArr_[slot & mask])
__CPROVER_ensures(self->hllByteArr_[slot & mask] == MAX8(__CPROVER_old(self->hllByteArr_[slot & mask]), new_val))
''',
}
processValue_enf = dict(processValue, name="processValue_enf", sig="void processValue_enf(struct hllarr* self, uint32_t slot, uint32_t mask, uint8_t new_val)",
                        contract=processValue["contract"].replace("__CPROVER_r_ok(self, sizeof(*self))", "__CPROVER_is_fresh(self, sizeof(*self))").replace("__CPROVER_rw_ok(self->hllByteArr_, K(self))", "__CPROVER_is_fresh(self->hllByteArr_, K(self))"))

isEmpty = {
    "name": "hllarray_isEmpty", "file": HA, "members": M,
    "match": r"bool HllArray<A>::isEmpty\(\) const",
    "sig": "bool hllarray_isEmpty(const struct hllarr* self)",
    "rules": [(r"for \(const uint8_t byte: self->hllByteArr_\) \{", "for (uint32_t bi_ = 0; bi_ < self->hllByteArr_size; bi_++) { const uint8_t byte = self->hllByteArr_[bi_];", 1)],
    "nloops": 1,
    "contract": r'''
__CPROVER_requires(WF_SRC(self) && g_s < K(self) && (self->rebuild_kxq_curmin_ ==> self->tgtHllType_ == HLL_8))
/* representation invariant (consequence of 'numAtCurMin counts the registers equal to curMin'): if all k registers are counted at curMin, register g_s is at curMin */
__CPROVER_requires((!self->rebuild_kxq_curmin_ && self->numAtCurMin_ == K(self)) ==> TRUE_REG(self, g_s) == self->curMin_)
__CPROVER_assigns()
/* emptiness is reported correctly: 'empty' is never claimed while some register (ghost g_s) is non-zero */
__CPROVER_ensures(__CPROVER_return_value ==> TRUE_REG(self, g_s) == 0)
/* and a valid (no rebuild pending) array whose curMin is above 0 or that has fewer than k registers at 0 is never reported empty */
__CPROVER_ensures((!self->rebuild_kxq_curmin_ && (self->curMin_ != 0 || self->numAtCurMin_ != K(self))) ==> !__CPROVER_return_value)
''',
    "loops": {1: r'''
__CPROVER_assigns(bi_)
__CPROVER_loop_invariant(bi_ <= self->hllByteArr_size)
__CPROVER_loop_invariant(g_s < bi_ ==> self->hllByteArr_[g_s] == 0)
__CPROVER_decreases(self->hllByteArr_size - bi_)
'''},
}

UNIT = {
    "id": "hll_merge", "property": "C04",
    "clause": "HLL union kernels for every lg_k pair and source width: mergeHll folds every source register (4-, 6- or 8-bit, incl. HLL_4 curMin offset and "
              "exception entries) onto slot & mask by max - nothing offered is lost, nothing decreases, equal lg_k gives exactly the per-slot max - and flags "
              "curMin/KxQ for recomputation; isEmpty never reports an array with a non-zero register as empty, also while that recomputation is pending",
    "consts": crules.HLL_CONSTS,
    "prelude": PRELUDE,
    "parts": [processValue, processValue_enf] + [mergeHll(c) for c in range(1, 7)] + [isEmpty],
    "harness": r'''
''' + "".join("void h_merge%d(void) { struct hllarr* d; const struct hllarr* s; verif_exc = 0; hll8array_mergeHll_case%d(d, s); VERIF_CANARY_POINT; }\n" % (c, c) for c in range(1, 7)) + r'''
void h_pv(void) { struct hllarr* d; uint32_t a, m; uint8_t v; processValue_enf(d, a, m, v); VERIF_CANARY_POINT; }
void h_isEmpty(void) { const struct hllarr* s; hllarray_isEmpty(s); VERIF_CANARY_POINT; }
''',
    "jobs": [
        {"name": "processValue", "entry": "h_pv", "enforce": "processValue_enf"},
    ] + [
        {"name": "mergeHll_src%s_%s" % (CASES[c][0], "equal_k" if CASES[c][1] else "downsample"), "entry": "h_merge%d" % c, "enforce": "hll8array_mergeHll_case%d" % c,
         "replace": ["hll4array_adjustRawValue"], "loops": True, "expect_loop_steps": 1, "timeout": 900, "object_bits": 10} for c in range(1, 7)] + [
        {"name": "isEmpty", "entry": "h_isEmpty", "enforce": "hllarray_isEmpty", "loops": True, "expect_loop_steps": 1, "timeout": 300},
    ],
    "assumptions": ["upper bound 'result register is one of the inputs' for down-sampling merges needs a quantifier over all source slots folding onto one slot: not decided (lower bounds + equal-lg_k exactness are)",
                    "mergeHll is verified as six case-split jobs (source width x equal/unequal lg_k): in each job the other five branch bodies are replaced by assertions that they are unreachable under the job's case precondition (proved); the six cases cover all inputs", "Hll4Array::adjustRawValue is used by contract (unit hll4_update); range-for over the source byte vector is rendered as an indexed loop in order"],
}
