"""shared, purely syntactic rewrite rules for allocator / object-lifetime idioms (see DESIGN.md 3.1)"""

def alloc_rules(T="EN", alloc_n=None, dealloc_n=None):
    return [
        (r"(?:self->)?allocator_\.allocate\(([^()]*)\)", r"((%s*)verif_alloc((\1) * sizeof(%s)))" % (T, T), alloc_n),
        (r"(?:self->)?allocator_\.deallocate\(([^(),]*),\s*([^()]*)\)", r"verif_free(\1, (\2) * sizeof(%s))" % T, dealloc_n),
    ]

# placement-new move/copy construction of an entry == assignment of the entry for trivially copyable instantiations
MOVE_NEW = (r"new \(&?([^;]*?)\) EN\(std::move\(([^;]*?)\)\);", r"*(\1) = \2;")
DTOR = (r"[\w\[\]>\-\.]+\.~EN\(\);", "(void)0;")
SWAP = (r"std::swap\(([^,()]+),\s*([^()]+)\);", r"{ __typeof__(\1) swap_tmp_ = \1; \1 = \2; \2 = swap_tmp_; }")

TC = "theta/include/theta_constants.hpp"
THETA_CONSTS = [
    {"name": "theta_constants_MAX_THETA", "file": TC, "match": r"const uint64_t MAX_THETA = ([^;]+);", "ctype": "uint64_t"},
    {"name": "theta_constants_MIN_LG_K", "file": TC, "match": r"const uint8_t MIN_LG_K = ([^;]+);", "ctype": "uint8_t"},
    {"name": "theta_constants_MAX_LG_K", "file": TC, "match": r"const uint8_t MAX_LG_K = ([^;]+);", "ctype": "uint8_t"},
    {"name": "theta_constants_DEFAULT_LG_K", "file": TC, "match": r"const uint8_t DEFAULT_LG_K = ([^;]+);", "ctype": "uint8_t"},
]
