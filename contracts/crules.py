"""shared, purely syntactic rewrite rules for allocator / object-lifetime idioms (see DESIGN.md 3.1)"""

def alloc_rules(T="EN", alloc_n=None, dealloc_n=None):
    return [
        (r"(?:self->)?allocator_\.allocate\(([^()]*)\)", r"((%s*)verif_alloc((\1) * sizeof(%s)))" % (T, T), alloc_n),
        (r"(?:self->)?allocator_\.deallocate\(([^(),]*),\s*([^()]*)\)", r"verif_free(\1, (\2) * sizeof(%s))" % T, dealloc_n),
    ]

# placement-new move/copy construction of an entry == assignment of the entry for trivially copyable instantiations
MOVE_NEW = (r"new \(&?([^;]*?)\) EN\(std::move\(([^;]*?)\)\);", r"*(\1) = \2;")
DTOR = (r"[\w\[\]>\-\.]+\.~EN\(\);", "(void)0;")
SWAP = (r"std::swap\(([^,()]+),\s*([^()]+)\);", r"{ __typeof__(\1) swap_tmp_ = \1; \1 = \2; \2 = swap_tmp_; }")

TC = "theta/include/theta_constants.hpp"
THETA_CONSTS = [
    {"name": "theta_constants_MAX_THETA", "file": TC, "match": r"const uint64_t MAX_THETA = ([^;]+);", "ctype": "uint64_t"},
    {"name": "theta_constants_MIN_LG_K", "file": TC, "match": r"const uint8_t MIN_LG_K = ([^;]+);", "ctype": "uint8_t"},
    {"name": "theta_constants_MAX_LG_K", "file": TC, "match": r"const uint8_t MAX_LG_K = ([^;]+);", "ctype": "uint8_t"},
    {"name": "theta_constants_DEFAULT_LG_K", "file": TC, "match": r"const uint8_t DEFAULT_LG_K = ([^;]+);", "ctype": "uint8_t"},
]


def mul_by_named_constant(names_regex, fn_name="MUL"):
    """structural rule: `<operand> * <Const>` -> MUL(<operand>, <Const>) and `x *= <Const>;` -> x = MUL(x, <Const>);
    the left operand is the primary expression immediately before the `*`: an identifier, or a balanced (...) group
    optionally preceded by the name of the function being called (purely syntactic, no operator/constant changes)."""
    import re
    def rule(body):
        n = 0
        body, k = re.subn(r"(\b[\w.\[\]]+) \*= (%s);" % names_regex, r"\1 = %s(\1, \2);" % fn_name, body)
        n += k
        pat = re.compile(r"\s*\*\s*(%s)\b" % names_regex)
        pos = 0
        while True:
            m = pat.search(body, pos)
            if not m:
                break
            j = m.start() - 1
            while j >= 0 and body[j].isspace():
                j -= 1
            end = j + 1
            if body[j] == ")":
                depth = 0
                while j >= 0:
                    if body[j] == ")":
                        depth += 1
                    elif body[j] == "(":
                        depth -= 1
                        if depth == 0:
                            break
                    j -= 1
                start = j
                while start > 0 and (body[start - 1].isalnum() or body[start - 1] == "_"):
                    start -= 1
            else:
                start = end
                while start > 0 and (body[start - 1].isalnum() or body[start - 1] in "_.[]"):
                    start -= 1
            operand = body[start:end]
            body = body[:start] + "%s(%s, %s)" % (fn_name, operand, m.group(1)) + body[m.end():]
            pos = start + len(fn_name) + 1
            n += 1
        return body, n
    return rule

HU = "hll/include/HllUtil.hpp"
HLL_CONSTS = [{"file": HU, "prefix": "hll_constants_",
               "pattern": r"static const (?P<type>uint8_t|uint32_t) (?P<name>[A-Za-z_0-9]+)\s*=\s*(?P<value>[^;{]+);", "min_count": 40}]
HLL_STRUCT = r'''
enum { HLL_4 = 0, HLL_6 = 1, HLL_8 = 2 };
enum { LIST = 0, SET = 1, HLL = 2 };
struct auxmap;
struct hllarr { uint8_t lgConfigK_; uint8_t tgtHllType_; uint8_t mode_; bool startFullSize_;
                double hipAccum_; double kxq0_; double kxq1_; uint8_t* hllByteArr_; uint32_t hllByteArr_size;
                uint8_t curMin_; uint32_t numAtCurMin_; bool oooFlag_; bool rebuild_kxq_curmin_; struct auxmap* auxHashMap_; };
'''
HLL_MEMBERS = ["lgConfigK_", "tgtHllType_", "mode_", "startFullSize_", "hipAccum_", "kxq0_", "kxq1_", "hllByteArr_", "curMin_", "numAtCurMin_",
               "oooFlag_", "rebuild_kxq_curmin_", "auxHashMap_"]

# shared contract texts (the same text is enforced in one unit and used for replacement in others)
HLL4_GET_CONTRACT = r'''
__CPROVER_requires(slotNo < ((uint32_t)1 << self->lgConfigK_) && __CPROVER_r_ok(self->hllByteArr_, (uint32_t)1 << (self->lgConfigK_ - 1)))
__CPROVER_assigns()
__CPROVER_ensures(__CPROVER_return_value == ((slotNo & 1) ? (self->hllByteArr_[slotNo >> 1] >> 4) : (self->hllByteArr_[slotNo >> 1] & 0xf)))
'''
HLL4_PUT_CONTRACT = r'''
__CPROVER_requires(slotNo < ((uint32_t)1 << self->lgConfigK_) && __CPROVER_rw_ok(self->hllByteArr_, (uint32_t)1 << (self->lgConfigK_ - 1)))
__CPROVER_assigns(self->hllByteArr_[slotNo >> 1])
__CPROVER_ensures(self->hllByteArr_[slotNo >> 1] == ((slotNo & 1) ? (uint8_t)((__CPROVER_old(self->hllByteArr_[slotNo >> 1]) & 0x0f) | ((newValue & 0xf) << 4))
                                                                  : (uint8_t)((__CPROVER_old(self->hllByteArr_[slotNo >> 1]) & 0xf0) | (newValue & 0xf))))
'''


def keep_only_loop(keep, total, label="excluded by the case precondition of this job"):
    """structural rule for case-split jobs: the innermost { } block enclosing every loop other than loop #keep (ordinals in textual
    order, `total` loops expected) is replaced by an assertion that it is unreachable.  The job's case precondition must make those
    blocks dead; the assertion is then a proved obligation, so nothing is assumed."""
    import sys, os
    sys.path.insert(0, os.path.join(os.path.dirname(__file__), "..", "vf"))
    import extract
    def rule(body):
        lps = extract.loop_positions(body)
        if len(lps) != total:
            return body, 0
        import re
        # positions of the loop keywords: search backwards from insert position for the keyword start
        blocks = []
        for n, (kind, pos) in enumerate(lps, 1):
            if n == keep:
                continue
            # find enclosing '{' by scanning backwards with depth counting
            depth = 0
            j = pos
            # move j to the loop keyword start (before the header)
            kw = max(body.rfind("for", 0, pos), body.rfind("while", 0, pos), body.rfind("do", 0, pos))
            j = kw
            while j >= 0:
                c = body[j]
                if c == "}":
                    depth += 1
                elif c == "{":
                    if depth == 0:
                        break
                    depth -= 1
                j -= 1
            cb = extract.match_close(body, j, "{", "}")
            blocks.append((j, cb))
        for (ob, cb) in sorted(set(blocks), reverse=True):
            body = body[:ob] + '{ __CPROVER_assert(0, "%s"); }' % label + body[cb + 1:]
        return body, len(set(blocks))
    return rule

# ---------------------------------------------------------------- byte-image readers/writers (C09, C11)
MO = "common/include/memory_operations.hpp"
MEMOPS_PRELUDE = r'''
/* C rendering of the templates of common/include/memory_operations.hpp: copy_from_mem(src, T& item) / copy_to_mem(T item, dst) copy sizeof(T) bytes */
#define copy_from_mem(src, item) (memcpy(&(item), (src), sizeof(item)), sizeof(item))
#define copy_from_mem_n(src, dst, size) (memcpy((dst), (src), (size)), (size))
#define copy_to_mem(item, dst) (memcpy((dst), &(__typeof__(item)){item}, sizeof(item)), sizeof(item))
#define SIZE_CAP ((size_t)1 << 16)
'''
ensure_minimum_memory = {"name": "ensure_minimum_memory", "file": MO, "match": r"static inline void ensure_minimum_memory\(size_t bytes_available, size_t min_needed\)",
                         "sig": "static inline void ensure_minimum_memory(size_t bytes_available, size_t min_needed)"}
check_memory_size = {"name": "check_memory_size", "file": MO, "match": r"static inline void check_memory_size\(size_t requested_index, size_t capacity\)",
                     "sig": "static inline void check_memory_size(size_t requested_index, size_t capacity)"}
# message building through std::ostringstream before a throw: dropped (only the message text is lost)
OSTREAM = [(r"std::ostringstream os;", "", "any"), (r"\bos\s*<<[^;]*;", "", "any")]

# harness fragment for byte readers: exact-size heap buffer of symbolic length and content, with a 64-byte witness copy of its head that shows up in counterexample traces
READER_INPUT = r"""
  size_t in_size = nondet_size(); __CPROVER_assume(in_size <= SIZE_CAP);
  uint8_t* in_bytes = malloc(in_size); __CPROVER_assume(in_bytes != NULL);
  uint8_t in_img[64]; for (int wi_ = 0; wi_ < 64; wi_++) in_img[wi_] = ((size_t)wi_ < in_size) ? in_bytes[wi_] : 0;
"""
READER_REPLAY_VARS = {"SIZE": "val('in_size')", "BYTES": "''.join('%d,' % (int(x) & 255) for x in arr('in_img', 64))"}
