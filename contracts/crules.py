"""shared, purely syntactic rewrite rules for allocator / object-lifetime idioms (see DESIGN.md 3.1)"""

def alloc_rules(T="EN", alloc_n=None, dealloc_n=None):
    return [
        (r"(?:self->)?allocator_\.allocate\(([^()]*)\)", r"((%s*)verif_alloc((\1) * sizeof(%s)))" % (T, T), alloc_n),
        (r"(?:self->)?allocator_\.deallocate\(([^(),]*),\s*([^()]*)\)", r"verif_free(\1, (\2) * sizeof(%s))" % T, dealloc_n),
    ]

# placement-new move/copy construction of an entry == assignment of the entry for trivially copyable instantiations
MOVE_NEW = (r"new \(&?([^;]*?)\) EN\(std::move\(([^;]*?)\)\);", r"*(\1) = \2;")
DTOR = (r"[\w\[\]>\-\.]+\.~EN\(\);", "(void)0;")
SWAP = (r"std::swap\(([^,()]+),\s*([^()]+)\);", r"{ __typeof__(\1) swap_tmp_ = \1; \1 = \2; \2 = swap_tmp_; }")

TC = "theta/include/theta_constants.hpp"
THETA_CONSTS = [
    {"name": "theta_constants_MAX_THETA", "file": TC, "match": r"const uint64_t MAX_THETA = ([^;]+);", "ctype": "uint64_t"},
    {"name": "theta_constants_MIN_LG_K", "file": TC, "match": r"const uint8_t MIN_LG_K = ([^;]+);", "ctype": "uint8_t"},
    {"name": "theta_constants_MAX_LG_K", "file": TC, "match": r"const uint8_t MAX_LG_K = ([^;]+);", "ctype": "uint8_t"},
    {"name": "theta_constants_DEFAULT_LG_K", "file": TC, "match": r"const uint8_t DEFAULT_LG_K = ([^;]+);", "ctype": "uint8_t"},
]


def mul_by_named_constant(names_regex, fn_name="MUL"):
    """structural rule: `<operand> * <Const>` -> MUL(<operand>, <Const>) and `x *= <Const>;` -> x = MUL(x, <Const>);
    the left operand is the primary expression immediately before the `*`: an identifier, or a balanced (...) group
    optionally preceded by the name of the function being called (purely syntactic, no operator/constant changes)."""
    import re
    def rule(body):
        n = 0
        body, k = re.subn(r"(\b[\w.\[\]]+) \*= (%s);" % names_regex, r"\1 = %s(\1, \2);" % fn_name, body)
        n += k
        pat = re.compile(r"\s*\*\s*(%s)\b" % names_regex)
        pos = 0
        while True:
            m = pat.search(body, pos)
            if not m:
                break
            j = m.start() - 1
            while j >= 0 and body[j].isspace():
                j -= 1
            end = j + 1
            if body[j] == ")":
                depth = 0
                while j >= 0:
                    if body[j] == ")":
                        depth += 1
                    elif body[j] == "(":
                        depth -= 1
                        if depth == 0:
                            break
                    j -= 1
                start = j
                while start > 0 and (body[start - 1].isalnum() or body[start - 1] == "_"):
                    start -= 1
            else:
                start = end
                while start > 0 and (body[start - 1].isalnum() or body[start - 1] in "_.[]"):
                    start -= 1
            operand = body[start:end]
            body = body[:start] + "%s(%s, %s)" % (fn_name, operand, m.group(1)) + body[m.end():]
            pos = start + len(fn_name) + 1
            n += 1
        return body, n
    return rule

HU = "hll/include/HllUtil.hpp"
HLL_CONSTS = [{"file": HU, "prefix": "hll_constants_",
               "pattern": r"static const (?P<type>uint8_t|uint32_t) (?P<name>[A-Za-z_0-9]+)\s*=\s*(?P<value>[^;{]+);", "min_count": 40}]
HLL_STRUCT = r'''
enum { HLL_4 = 0, HLL_6 = 1, HLL_8 = 2 };
enum { LIST = 0, SET = 1, HLL = 2 };
struct auxmap;
struct hllarr { uint8_t lgConfigK_; uint8_t tgtHllType_; uint8_t mode_; bool startFullSize_;
                double hipAccum_; double kxq0_; double kxq1_; uint8_t* hllByteArr_; uint32_t hllByteArr_size;
                uint8_t curMin_; uint32_t numAtCurMin_; bool oooFlag_; bool rebuild_kxq_curmin_; struct auxmap* auxHashMap_; };
'''
HLL_MEMBERS = ["lgConfigK_", "tgtHllType_", "mode_", "startFullSize_", "hipAccum_", "kxq0_", "kxq1_", "hllByteArr_", "curMin_", "numAtCurMin_",
               "oooFlag_", "rebuild_kxq_curmin_", "auxHashMap_"]

# shared contract texts (the same text is enforced in one unit and used for replacement in others)
HLL4_GET_CONTRACT = r'''
__CPROVER_requires(slotNo < ((uint32_t)1 << self->lgConfigK_) && __CPROVER_r_ok(self->hllByteArr_, (uint32_t)1 << (self->lgConfigK_ - 1)))
__CPROVER_assigns()
__CPROVER_ensures(__CPROVER_return_value == ((slotNo & 1) ? (self->hllByteArr_[slotNo >> 1] >> 4) : (self->hllByteArr_[slotNo >> 1] & 0xf)))
'''
HLL4_PUT_CONTRACT = r'''
__CPROVER_requires(slotNo < ((uint32_t)1 << self->lgConfigK_) && __CPROVER_rw_ok(self->hllByteArr_, (uint32_t)1 << (self->lgConfigK_ - 1)))
__CPROVER_assigns(self->hllByteArr_[slotNo >> 1])
__CPROVER_ensures(self->hllByteArr_[slotNo >> 1] == ((slotNo & 1) ? (uint8_t)((__CPROVER_old(self->hllByteArr_[slotNo >> 1]) & 0x0f) | ((newValue & 0xf) << 4))
                                                                  : (uint8_t)((__CPROVER_old(self->hllByteArr_[slotNo >> 1]) & 0xf0) | (newValue & 0xf))))
'''


def stop_before_loop_block(total=1, stop_text="{ g_stopped = 1; return; }", keep=0):
    """structural rule for prefix jobs: the innermost { } block enclosing every loop other than #keep (keep=0: every loop) is replaced by `stop_text`
    (the function returns there); everything else is verified by the job, the blocks themselves by another job."""
    k = keep_only_loop(keep, total)
    def rule(body):
        body2, n = k(body)
        return body2.replace('{ __CPROVER_assert(0, "excluded by the case precondition of this job"); }', stop_text), n
    return rule


def keep_only_loop(keep, total, label="excluded by the case precondition of this job"):
    """structural rule for case-split jobs: the innermost { } block enclosing every loop other than loop #keep (ordinals in textual
    order, `total` loops expected) is replaced by an assertion that it is unreachable.  The job's case precondition must make those
    blocks dead; the assertion is then a proved obligation, so nothing is assumed."""
    import sys, os
    sys.path.insert(0, os.path.join(os.path.dirname(__file__), "..", "vf"))
    import extract
    def rule(body):
        lps = extract.loop_positions(body)
        if len(lps) != total:
            return body, 0
        import re
        # positions of the loop keywords: search backwards from insert position for the keyword start
        blocks = []
        for n, (kind, pos) in enumerate(lps, 1):
            if n == keep:
                continue
            # find enclosing '{' by scanning backwards with depth counting
            depth = 0
            j = pos
            # move j to the loop keyword start (before the header)
            kw = max(body.rfind("for", 0, pos), body.rfind("while", 0, pos), body.rfind("do", 0, pos))
            j = kw
            while j >= 0:
                c = body[j]
                if c == "}":
                    depth += 1
                elif c == "{":
                    if depth == 0:
                        break
                    depth -= 1
                j -= 1
            cb = extract.match_close(body, j, "{", "}")
            blocks.append((j, cb))
        for (ob, cb) in sorted(set(blocks), reverse=True):
            body = body[:ob] + '{ __CPROVER_assert(0, "%s"); }' % label + body[cb + 1:]
        return body, len(set(blocks))
    return rule

# ---------------------------------------------------------------- byte-image readers/writers (C09, C11)
MO = "common/include/memory_operations.hpp"
MEMOPS_PRELUDE = r'''
/* C rendering of the templates of common/include/memory_operations.hpp: copy_from_mem(src, T& item) / copy_to_mem(T item, dst) copy sizeof(T) bytes */
#define copy_from_mem(src, item) (memcpy(&(item), (src), sizeof(item)), sizeof(item))
#define copy_from_mem_n(src, dst, size) (memcpy((dst), (src), (size)), (size))
#define copy_to_mem(item, dst) (memcpy((dst), &(__typeof__(item)){item}, sizeof(item)), sizeof(item))
#define SIZE_CAP ((size_t)1 << 16)
'''
ensure_minimum_memory = {"name": "ensure_minimum_memory", "file": MO, "match": r"static inline void ensure_minimum_memory\(size_t bytes_available, size_t min_needed\)",
                         "sig": "static inline void ensure_minimum_memory(size_t bytes_available, size_t min_needed)"}
check_memory_size = {"name": "check_memory_size", "file": MO, "match": r"static inline void check_memory_size\(size_t requested_index, size_t capacity\)",
                     "sig": "static inline void check_memory_size(size_t requested_index, size_t capacity)"}
# message building through std::ostringstream before a throw: dropped (only the message text is lost)
OSTREAM = [(r"std::ostringstream os;", "", "any"), (r"\bos\s*<<[^;]*;", "", "any")]

# harness fragment for byte readers: exact-size heap buffer of symbolic length and content, with a 64-byte witness copy of its head that shows up in counterexample traces
READER_INPUT = r"""
  size_t in_size = nondet_size(); __CPROVER_assume(in_size <= SIZE_CAP);
  uint8_t* in_bytes = malloc(in_size); __CPROVER_assume(in_bytes != NULL);
  uint8_t in_img[64]; for (int wi_ = 0; wi_ < 64; wi_++) in_img[wi_] = ((size_t)wi_ < in_size) ? in_bytes[wi_] : 0;
"""
READER_REPLAY_VARS = {"SIZE": "val('in_size')", "BYTES": "''.join('%d,' % (int(x) & 255) for x in arr('in_img', 64))"}


def div_to_uf(fn_name="FDIV", op="/"):
    """structural rule: every binary '/' becomes FDIV(<left>, <right>), where the operands are the primary/postfix expressions adjacent to the operator
    (identifier chains with -> . [..] (..) and balanced parenthesised groups); purely syntactic, all divisions of the function are rewritten."""
    def is_id(c):
        return c.isalnum() or c in "_."
    def left_start(b, j):
        # j: index of last char of the left operand
        while j >= 0:
            c = b[j]
            if c in ")]":
                close, op = c, "(" if c == ")" else "["
                depth = 0
                while j >= 0:
                    if b[j] == close: depth += 1
                    elif b[j] == op:
                        depth -= 1
                        if depth == 0: break
                    j -= 1
                j -= 1
            elif is_id(c):
                while j >= 0 and is_id(b[j]): j -= 1
            elif c == ">" and j > 0 and b[j - 1] == "-":
                j -= 2
            else:
                break
            # continue only if what precedes is part of the same postfix chain
            if j >= 0 and not (is_id(b[j]) or b[j] in ")]" or (b[j] == ">" and j > 0 and b[j - 1] == "-")):
                break
        return j + 1
    def right_end(b, j):
        # j: index of first char of the right operand
        n = len(b)
        if j < n and b[j] in "-+": j += 1
        while j < n:
            c = b[j]
            if c in "([":
                op, close = c, ")" if c == "(" else "]"
                depth = 0
                while j < n:
                    if b[j] == op: depth += 1
                    elif b[j] == close:
                        depth -= 1
                        if depth == 0: break
                    j += 1
                j += 1
            elif is_id(c):
                while j < n and is_id(b[j]): j += 1
            elif c == "-" and j + 1 < n and b[j + 1] == ">":
                j += 2
            else:
                break
        return j
    import re as _re
    re_decl = _re.compile(r"\b(?:const\s+)?(?:T|W|double|float|char|void|bool|u?int\d+_t|size_t|struct \w+)\s*\*$")
    def rule(body):
        n = 0
        pos = 0
        while True:
            k = body.find(op, pos)
            if k < 0:
                break
            if body[k:k + 2] in ("/=", "//", "/*", "*=", "*/") or (k > 0 and body[k - 1] in "*/"):
                pos = k + 1
                continue
            l = k - 1
            while l >= 0 and body[l].isspace(): l -= 1
            if l < 0 or not (is_id(body[l]) or body[l] in ")]"):
                pos = k + 1        # not a binary operator here (unary * after an operator or an opening bracket)
                continue
            if op == "*" and re_decl.search(body[max(0, l - 40):k + 1]):
                pos = k + 1        # 'T* p' / 'const T* p' declarator
                continue
            r = k + 1
            while r < len(body) and body[r].isspace(): r += 1
            ls = left_start(body, l)
            re_ = right_end(body, r)
            left, right = body[ls:l + 1], body[r:re_]
            if not left or not right:
                raise ValueError("div_to_uf: cannot parse operands around offset %d" % k)
            rep = "%s(%s, %s)" % (fn_name, left, right)
            body = body[:ls] + rep + body[re_:]
            pos = ls + len(fn_name) + 1    # rescan inside (nested divisions in the operands)
            n += 1
        return body, n
    return rule
