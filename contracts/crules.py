"""shared, purely syntactic rewrite rules for allocator / object-lifetime idioms (see DESIGN.md 3.1)"""

def alloc_rules(T="EN", alloc_n=None, dealloc_n=None):
    return [
        (r"(?:self->)?allocator_\.allocate\(([^()]*)\)", r"((%s*)verif_alloc((\1) * sizeof(%s)))" % (T, T), alloc_n),
        (r"(?:self->)?allocator_\.deallocate\(([^(),]*),\s*([^()]*)\)", r"verif_free(\1, (\2) * sizeof(%s))" % T, dealloc_n),
    ]

# placement-new move/copy construction of an entry == assignment of the entry for trivially copyable instantiations
MOVE_NEW = (r"new \(&?([^;]*?)\) EN\(std::move\(([^;]*?)\)\);", r"*(\1) = \2;")
DTOR = (r"[\w\[\]>\-\.]+\.~EN\(\);", "(void)0;")
SWAP = (r"std::swap\(([^,()]+),\s*([^()]+)\);", r"{ __typeof__(\1) swap_tmp_ = \1; \1 = \2; \2 = swap_tmp_; }")

TC = "theta/include/theta_constants.hpp"
THETA_CONSTS = [
    {"name": "theta_constants_MAX_THETA", "file": TC, "match": r"const uint64_t MAX_THETA = ([^;]+);", "ctype": "uint64_t"},
    {"name": "theta_constants_MIN_LG_K", "file": TC, "match": r"const uint8_t MIN_LG_K = ([^;]+);", "ctype": "uint8_t"},
    {"name": "theta_constants_MAX_LG_K", "file": TC, "match": r"const uint8_t MAX_LG_K = ([^;]+);", "ctype": "uint8_t"},
    {"name": "theta_constants_DEFAULT_LG_K", "file": TC, "match": r"const uint8_t DEFAULT_LG_K = ([^;]+);", "ctype": "uint8_t"},
]


def mul_by_named_constant(names_regex, fn_name="MUL"):
    """structural rule: `<operand> * <Const>` -> MUL(<operand>, <Const>) and `x *= <Const>;` -> x = MUL(x, <Const>);
    the left operand is the primary expression immediately before the `*`: an identifier, or a balanced (...) group
    optionally preceded by the name of the function being called (purely syntactic, no operator/constant changes)."""
    import re
    def rule(body):
        n = 0
        body, k = re.subn(r"(\b[\w.\[\]]+) \*= (%s);" % names_regex, r"\1 = %s(\1, \2);" % fn_name, body)
        n += k
        pat = re.compile(r"\s*\*\s*(%s)\b" % names_regex)
        pos = 0
        while True:
            m = pat.search(body, pos)
            if not m:
                break
            j = m.start() - 1
            while j >= 0 and body[j].isspace():
                j -= 1
            end = j + 1
            if body[j] == ")":
                depth = 0
                while j >= 0:
                    if body[j] == ")":
                        depth += 1
                    elif body[j] == "(":
                        depth -= 1
                        if depth == 0:
                            break
                    j -= 1
                start = j
                while start > 0 and (body[start - 1].isalnum() or body[start - 1] == "_"):
                    start -= 1
            else:
                start = end
                while start > 0 and (body[start - 1].isalnum() or body[start - 1] in "_.[]"):
                    start -= 1
            operand = body[start:end]
            body = body[:start] + "%s(%s, %s)" % (fn_name, operand, m.group(1)) + body[m.end():]
            pos = start + len(fn_name) + 1
            n += 1
        return body, n
    return rule
