F = "count/include/count_min_impl.hpp"
H = "count/include/count_min.hpp"
M = ["_num_hashes", "_num_buckets", "_sketch_array", "_seed", "_total_weight", "hash_seeds"]

PRELUDE = r'''
typedef uint64_t W;
typedef struct { uint64_t h1; uint64_t h2; } HashState;
struct cms { uint8_t _num_hashes; uint32_t _num_buckets; W* _sketch_array; uint64_t _sketch_array_size; uint64_t _seed; W _total_weight; uint64_t* hash_seeds; uint32_t hash_seeds_size; };
#define NCELLS(s) ((uint64_t)(s)->_num_hashes * (s)->_num_buckets)
#define WF(s) (__CPROVER_is_fresh(s, sizeof(*s)) && (s)->_num_hashes >= 1 && (s)->_num_buckets >= 3 && NCELLS(s) < ((uint64_t)1 << 30) && \
               (s)->_sketch_array_size == NCELLS(s) && __CPROVER_is_fresh((s)->_sketch_array, NCELLS(s) * sizeof(W)) && \
               (s)->hash_seeds_size == (s)->_num_hashes && __CPROVER_is_fresh((s)->hash_seeds, 256 * sizeof(uint64_t)))
/* ghost row g_r, its hash seed g_seed and the (deterministic) Murmur h1 of the item under that seed g_h1 */
uint32_t g_r; uint64_t g_seed, g_h1; uint64_t g_c; W g_old_c;
void MurmurHash3_x64_128(const void* key, size_t lenBytes, uint64_t seed, HashState* out)
  __CPROVER_assigns(*out) __CPROVER_ensures(seed == g_seed ==> out->h1 == g_h1);
/* location of the item in ghost row g_r (ghost value; proved to lie inside row g_r by the get_hashes job) */
uint64_t g_loc;
#define LOC_R(s) g_loc
/* r * num_buckets for r < 256 as a ghost table (multiplication by the row number is abstracted: base[0] = 0, base[r+1] = base[r] + B);
   rows are [base[r], base[r] + B) */
uint64_t g_row_base[257];
#define ROWMUL(r, b) (g_row_base[r])
#define IN_ROW(s, loc, r) ((loc) >= g_row_base[r] && (loc) < g_row_base[r] + (s)->_num_buckets)
#define ROWS_OK(s) (g_row_base[0] == 0 && g_row_base[g_r] <= NCELLS(s) && g_row_base[g_r + 1] == g_row_base[g_r] + (s)->_num_buckets && g_row_base[g_r] + (s)->_num_buckets <= NCELLS(s))
'''

get_hashes = {
    "name": "get_hashes", "file": F, "members": M,
    "match": r"std::vector<uint64_t> count_min_sketch<W,A>::get_hashes\(const void\* item, size_t size\) const",
    "sig": "void get_hashes(const struct cms* self, const void* item, size_t size, uint64_t* out)", "extra_params": ["out"], "nloops": 1,
    "rules": [(r"std::vector<uint64_t> sketch_update_locations;", "uint32_t sul_n_ = 0;", 1), (r"sketch_update_locations\.reserve\([^;]*\);", "", 1),
              (r"for \(const auto &it: self->hash_seeds\) \{", "for (uint32_t hi_ = 0; hi_ < self->hash_seeds_size; hi_++) { const uint64_t it = self->hash_seeds[hi_];", 1),
              (r"MurmurHash3_x64_128\(item, size, it, hashes\);", "MurmurHash3_x64_128(item, size, it, &hashes);", 1),
              (r"\(hash_seed_index \* self->_num_buckets\)", "ROWMUL(hash_seed_index, self->_num_buckets)", 1),
              (r"sketch_update_locations\.push_back\(([^;]*)\);", r"out[sul_n_++] = \1;", 1), (r"return sketch_update_locations;", "return;", 1)],
    "contract": r'''
__CPROVER_requires(WF(self) && __CPROVER_is_fresh(out, 256 * sizeof(uint64_t)) && g_r < self->_num_hashes && self->hash_seeds[g_r] == g_seed && ROWS_OK(self))
__CPROVER_assigns(__CPROVER_object_whole(out))
/* one location per row; the location of row r is r*B + (h1 mod B): inside row r */
__CPROVER_ensures(IN_ROW(self, out[g_r], g_r))
''',
    "loops": {1: r'''
__CPROVER_assigns(hi_, sul_n_, hash_seed_index, bucket_index, __CPROVER_object_whole(out))
__CPROVER_loop_invariant(hi_ <= self->hash_seeds_size && sul_n_ == hi_ && hash_seed_index == hi_)
__CPROVER_loop_invariant(hi_ > g_r ==> IN_ROW(self, out[g_r], g_r))
__CPROVER_decreases(self->hash_seeds_size - hi_)
'''},
}

GH_DECL = r'''
void get_hashes_c(const struct cms* self, const void* item, size_t size, uint64_t* out)
  __CPROVER_requires(__CPROVER_rw_ok(out, 256 * sizeof(uint64_t)))
  __CPROVER_assigns(__CPROVER_object_whole(out))
  /* the location of ghost row g_r is the ghost g_loc (get_hashes is a pure function of item bytes, hash seeds and num_buckets) */
  __CPROVER_ensures(out[g_r] == g_loc)
  /* every row's location lies inside that row (proved for an arbitrary ghost row by the get_hashes job; constant-bounded quantifier) */
  __CPROVER_ensures(__CPROVER_forall { uint32_t r; (r < 256) ==> (r < self->_num_hashes ==> (out[r] < NCELLS(self) && (r != g_r ==> !IN_ROW(self, out[r], g_r)))) });
'''

update = {
    "name": "cm_update", "file": F, "members": M,
    "match": r"void count_min_sketch<W,A>::update\(const void\* item, size_t size, W weight\)",
    "sig": "void cm_update(struct cms* self, const void* item, size_t size, W weight)", "nloops": 1,
    "rules": [(r"std::vector<uint64_t> hash_locations = get_hashes\(item, size\);", "uint64_t hash_locations[256]; get_hashes_c(self, item, size, hash_locations);", 1),
              (r"for \(const auto h: hash_locations\) \{", "for (uint32_t li_ = 0; li_ < self->_num_hashes; li_++) { const uint64_t h = hash_locations[li_];", 1)],
    "contract": r'''
__CPROVER_requires(WF(self) && g_r < self->_num_hashes && ROWS_OK(self))
/* ghost cell g_c lies in ghost row g_r; every cell is bounded so that the additions do not overflow */
__CPROVER_requires(IN_ROW(self, g_c, g_r) && g_old_c == self->_sketch_array[g_c])
__CPROVER_requires(IN_ROW(self, g_loc, g_r))
__CPROVER_assigns(self->_total_weight, __CPROVER_object_whole(self->_sketch_array))
/* total weight grows by |w|; in every row exactly the item's cell gets +w, every other cell is untouched */
__CPROVER_ensures(self->_total_weight == __CPROVER_old(self->_total_weight) + (weight >= 0 ? weight : -weight))
__CPROVER_ensures(self->_sketch_array[g_c] == g_old_c + (g_c == LOC_R(self) ? weight : 0))
''',
    "loops": {1: r'''
__CPROVER_assigns(li_, __CPROVER_object_whole(self->_sketch_array))
__CPROVER_loop_invariant(li_ <= self->_num_hashes)
__CPROVER_loop_invariant(self->_sketch_array[g_c] == g_old_c + ((li_ > g_r && g_c == LOC_R(self)) ? weight : 0))
__CPROVER_decreases(self->_num_hashes - li_)
'''},
}

get_estimate = {
    "name": "cm_get_estimate", "file": F, "members": M,
    "match": r"W count_min_sketch<W,A>::get_estimate\(const void\* item, size_t size\) const",
    "sig": "W cm_get_estimate(const struct cms* self, const void* item, size_t size)", "nloops": 1,
    "rules": [(r"std::vector<uint64_t> hash_locations = get_hashes\(item, size\);", "uint64_t hash_locations[256]; get_hashes_c(self, item, size, hash_locations);", 1),
              (r"std::vector<W> estimates;", "W estimates[256]; uint32_t est_n_ = 0;", 1),
              (r"for \(const auto h: hash_locations\) \{", "for (uint32_t li_ = 0; li_ < self->_num_hashes; li_++) { const uint64_t h = hash_locations[li_];", 1),
              (r"estimates\.push_back\(([^;]*)\);", r"estimates[est_n_++] = \1;", 1),
              (r"return \*std::min_element\(estimates\.begin\(\), estimates\.end\(\)\);", "return min_element_w(estimates, est_n_);", 1)],
    "contract": r'''
__CPROVER_requires(WF(self) && g_r < self->_num_hashes && ROWS_OK(self) && IN_ROW(self, g_loc, g_r))
__CPROVER_assigns()
/* the estimate is the minimum over the rows of the item's cells: at most the item's cell of any row (ghost row g_r) ... */
__CPROVER_ensures(__CPROVER_return_value <= self->_sketch_array[LOC_R(self)])
''',
    "loops": {1: r'''
__CPROVER_assigns(li_, est_n_, __CPROVER_object_whole(estimates))
__CPROVER_loop_invariant(li_ <= self->_num_hashes && est_n_ == li_)
__CPROVER_loop_invariant(li_ > g_r ==> estimates[g_r] == self->_sketch_array[LOC_R(self)])
__CPROVER_decreases(self->_num_hashes - li_)
'''},
}

merge = {
    "name": "cm_merge", "file": F, "members": M,
    "match": r"void count_min_sketch<W,A>::merge\(const count_min_sketch &other_sketch\)",
    "sig": "void cm_merge(struct cms* self, const struct cms* other_sketch)", "nloops": 1,
    "rules": [(r"if \(this == &other_sketch\)", "if (self == other_sketch)", 1),
              (r"other_sketch\.get_(num_hashes|num_buckets|seed|total_weight)\(\)", r"other_sketch->_\1", 4), (r"(?<![\w.>])get_(num_hashes|num_buckets|seed)\(\)", r"self->_\1", 3),
              (r"auto it = self->_sketch_array\.begin\(\);", "uint64_t it_i_ = 0;", 1), (r"auto other_it = other_sketch\.begin\(\);", "", 1),
              (r"while \(it != self->_sketch_array\.end\(\)\) \{", "while (it_i_ != self->_sketch_array_size) {", 1),
              (r"\*it \+= \*other_it;", "self->_sketch_array[it_i_] += other_sketch->_sketch_array[it_i_];", 1), (r"\+\+it;", "++it_i_;", 1), (r"\+\+other_it;", "", 1)],
    "contract": r'''
__CPROVER_requires(WF(self) && (g_same ? other_sketch == self : WF(other_sketch)))
__CPROVER_requires(g_c < NCELLS(self) && g_old_c == self->_sketch_array[g_c])
__CPROVER_requires((!g_same && g_c < NCELLS(other_sketch)) ==> g_oth_c == other_sketch->_sketch_array[g_c])
__CPROVER_assigns(verif_exc, self->_total_weight, __CPROVER_object_whole(self->_sketch_array))
/* self merges and incompatible configurations (hashes, buckets, seed) are refused and change nothing */
__CPROVER_ensures((verif_exc != 0) == (g_same || self->_num_hashes != other_sketch->_num_hashes || self->_num_buckets != other_sketch->_num_buckets || self->_seed != other_sketch->_seed))
__CPROVER_ensures(verif_exc != 0 ==> (self->_sketch_array[g_c] == g_old_c && self->_total_weight == __CPROVER_old(self->_total_weight)))
/* otherwise every cell is the sum of the two cells and the total weights add */
__CPROVER_ensures(verif_exc == 0 ==> (self->_sketch_array[g_c] == g_old_c + g_oth_c && self->_total_weight == __CPROVER_old(self->_total_weight) + other_sketch->_total_weight))
''',
    "loops": {1: r'''
__CPROVER_assigns(it_i_, __CPROVER_object_whole(self->_sketch_array))
__CPROVER_loop_invariant(it_i_ <= self->_sketch_array_size)
__CPROVER_loop_invariant(self->_sketch_array[g_c] == g_old_c + (it_i_ > g_c ? g_oth_c : 0))
__CPROVER_decreases(self->_sketch_array_size - it_i_)
'''},
}

UNIT = {
    "id": "count_min", "property": "C14",
    "clause": "count-min for every configuration (1..255 hashes, >= 3 buckets, < 2^30 cells): each row contributes exactly one location r*B + (h1 mod B) inside row r; update adds w to exactly "
              "the item's cell of every row and |w| to the total weight, leaving all other cells untouched; the estimate is at most the item's cell in every row (it is their minimum); "
              "merge adds cell by cell and adds total weights, and refuses self merges and any difference in hashes, buckets or seed without changing anything",
    "prelude": PRELUDE + "bool g_same; W g_oth_c;\n" + GH_DECL + r'''
/* std::min_element over the first n entries: TRUSTED to return the minimum (ghost-index form: not above entry g_r) */
W min_element_w(const W* a, uint32_t n) __CPROVER_requires(n >= 1) __CPROVER_assigns() __CPROVER_ensures(g_r < n ==> __CPROVER_return_value <= a[g_r]);
''',
    "member_checks": [{"file": H, "members": M}],
    "parts": [get_hashes, update, get_estimate, merge],
    "harness": r'''
void h_hashes(void) { const struct cms* s; const void* it; size_t n; uint64_t* o; get_hashes(s, it, n, o); VERIF_CANARY_POINT; }
void h_update(void) { struct cms* s; const void* it; size_t n; W w; cm_update(s, it, n, w); VERIF_CANARY_POINT; }
void h_est(void) { const struct cms* s; const void* it; size_t n; cm_get_estimate(s, it, n); VERIF_CANARY_POINT; }
void h_merge(void) { struct cms* s; const struct cms* o; verif_exc = 0; cm_merge(s, o); VERIF_CANARY_POINT; }
''',
    "jobs": [
        {"name": "get_hashes", "entry": "h_hashes", "enforce": "get_hashes", "replace": ["MurmurHash3_x64_128"], "loops": True, "expect_loop_steps": 1, "timeout": 600},
        {"name": "update", "entry": "h_update", "enforce": "cm_update", "replace": ["get_hashes_c"], "loops": True, "expect_loop_steps": 1, "timeout": 600},
        {"name": "get_estimate", "entry": "h_est", "enforce": "cm_get_estimate", "replace": ["get_hashes_c", "min_element_w"], "loops": True, "expect_loop_steps": 1, "timeout": 600},
        {"name": "merge", "entry": "h_merge", "enforce": "cm_merge", "loops": True, "expect_loop_steps": 1, "timeout": 600},
    ],
    "assumptions": ["W = uint64_t (additions are modulo 2^64, as in the library)", "row base r * num_buckets is read from a ghost table with base[0] = 0, base[r+1] = base[r] + B (multiplication by the row number treated as repeated addition)", "get_hashes is a pure function (reads only the item bytes, the hash seeds and num_buckets): equal arguments give equal locations - the ghost location g_loc of the ghost row is shared by update and get_estimate on that assumption; that every location lies inside its row is proved",
                    "MurmurHash3 is used by contract: a deterministic function of (item bytes, seed) (ghost g_h1 for the ghost row's seed); its definition is decided in C10",
                    "std::vector<uint64_t>/<W> locals are rendered as fixed arrays of 256 entries with a count; std::min_element is trusted",
                    "'estimate >= true count' follows from the update contract by induction over the stream (every cell of the item only ever receives its own non-negative weights plus others'): paper step",
                    "the (epsilon, delta) sentence is statistical: not decided"],
}

# ---------------------------------------------------------------- constructor: size check
ctor = {
    "name": "cm_ctor", "file": F, "ctor": True, "members": M,
    "match": r"count_min_sketch<W,A>::count_min_sketch\(uint8_t num_hashes, uint32_t num_buckets, uint64_t seed, const A& allocator\)",
    "sig": "void cm_ctor(struct cms* self, uint8_t num_hashes, uint32_t num_buckets, uint64_t seed)", "dropped_params": ["allocator"], "nloops": 1,
    "pre_rules": [(r"self->_allocator = CTOR_INIT\(allocator\);", "", 1),
                  (r"self->_sketch_array = CTOR_INIT\((.*), 0, _allocator\);", r"self->_sketch_array_size = (\1);", 1),
                  (r"std::default_random_engine rng\(_seed\);", "", 1), (r"std::uniform_int_distribution<uint64_t> extra_hash_seeds\([^;]*\);", "", 1),
                  (r"hash_seeds\.reserve\(num_hashes\);", "", 1), (r"hash_seeds\.push_back\([^;]*\);", "(void)0;", 1)],
    "contract": r'''
__CPROVER_requires(__CPROVER_is_fresh(self, sizeof(*self)))
__CPROVER_assigns(verif_exc, __CPROVER_object_whole(self))
/* configurations with fewer than 3 buckets or 2^30 or more cells are refused; an accepted sketch has exactly num_hashes * num_buckets cells */
__CPROVER_ensures((verif_exc != 0) == (num_buckets < 3 || (uint64_t)num_hashes * num_buckets >= ((uint64_t)1 << 30)))
__CPROVER_ensures(verif_exc == 0 ==> (self->_sketch_array_size == (uint64_t)num_hashes * num_buckets && self->_num_hashes == num_hashes && self->_num_buckets == num_buckets && self->_total_weight == 0))
''',
    "loops": {1: r'''
__CPROVER_assigns(i)
__CPROVER_loop_invariant(i <= num_hashes)
__CPROVER_decreases(num_hashes - i)
'''},
}
UNIT["parts"].append(ctor)
UNIT["harness"] += "void h_ctor(void) { struct cms* s; uint8_t h; uint32_t b; uint64_t seed; verif_exc = 0; cm_ctor(s, h, b, seed); VERIF_CANARY_POINT; }\n"
UNIT["jobs"].append({"name": "constructor", "entry": "h_ctor", "enforce": "cm_ctor", "loops": True, "expect_loop_steps": 1, "timeout": 300})
UNIT["assumptions"].append("constructor: hash-seed generation (std::default_random_engine) and the allocator member are dropped by extraction; only the size checks and the cell count are under contract")
UNIT["prelude"] += "uint16_t compute_seed_hash(uint64_t seed) __CPROVER_assigns() __CPROVER_ensures(1);\n"
for j in UNIT["jobs"]:
    if j["name"] == "merge":
        j["replace"] = ["compute_seed_hash"]
