import importlib.util, os
_spec = importlib.util.spec_from_file_location("c03coupon", os.path.join(os.path.dirname(__file__), "..", "C03", "u01_coupon.py"))
_c03 = importlib.util.module_from_spec(_spec); _spec.loader.exec_module(_c03)
CS = "cpc/include/cpc_sketch_impl.hpp"
CU = "cpc/include/cpc_union_impl.hpp"
UT = "cpc/include/u32_table_impl.hpp"

PRELUDE = r'''
struct cpc_union { uint8_t lg_k; uint64_t* bit_matrix; };
struct u32_table { uint8_t lg_size; uint8_t num_valid_bits; uint32_t num_items; uint32_t* slots; };
#define CLZ64(x) ((x) == 0 ? 64 : __builtin_clzll(x))
#define KROWS(lg) ((size_t)1 << (lg))
uint32_t g_s;        /* ghost: an arbitrary source row / table slot */
uint32_t g_d;        /* ghost: an arbitrary destination row */
uint64_t g_acc;      /* ghost: OR of everything folded into destination row g_d so far */
uint64_t g_dst0;     /* ghost: destination row g_d at entry */
uint32_t g_e;        /* ghost: a slot of the table that is empty (the table is never full) */
/* arrays are allocated (typed) by the harness: the contracts require validity of exactly 2^lg elements */
#define MATRIX_FRESH(u) ((u)->lg_k >= 4 && (u)->lg_k <= 26 && __CPROVER_rw_ok((u)->bit_matrix, KROWS((u)->lg_k) * 8))
'''
row_col = {
    "name": "row_col_from_two_hashes", "file": CS, "match": r"static inline uint32_t row_col_from_two_hashes\(uint64_t hash0, uint64_t hash1, uint8_t lg_k\)",
    "sig": "static inline uint32_t row_col_from_two_hashes(uint64_t hash0, uint64_t hash1, uint8_t lg_k)", "throw_rv": "0",
    "contract": r'''
__CPROVER_requires(verif_exc == 0)
__CPROVER_assigns(verif_exc)
__CPROVER_ensures((verif_exc != 0) == (lg_k > 26))
/* row = low lg_k bits of the first hash, column = leading zeros of the second hash clipped to 63; the one pair that would collide with the table's EMPTY marker has bit 0 of its row flipped */
__CPROVER_ensures(verif_exc == 0 ==> __CPROVER_return_value != UINT32_MAX)
__CPROVER_ensures(verif_exc == 0 ==> (__CPROVER_return_value & 63) == (CLZ64(hash1) > 63 ? 63 : CLZ64(hash1)))
__CPROVER_ensures((verif_exc == 0 && !(lg_k == 26 && (hash0 & 0x3ffffff) == 0x3ffffff && CLZ64(hash1) >= 63)) ==> (__CPROVER_return_value >> 6) == (uint32_t)(hash0 & (KROWS(lg_k) - 1)))
__CPROVER_ensures((verif_exc == 0 && lg_k == 26 && (hash0 & 0x3ffffff) == 0x3ffffff && CLZ64(hash1) >= 63) ==> (__CPROVER_return_value >> 6) == 0x3fffffe)
''',
}
FOLD_FRAME = "__CPROVER_assigns(verif_exc, g_acc, __CPROVER_object_whole(self->bit_matrix))\n"
or_matrix = {
    "name": "or_matrix_into_matrix", "file": CU, "members": ["lg_k", "bit_matrix"], "match": r"void cpc_union_alloc<A>::or_matrix_into_matrix\(const vector_u64& src_matrix, uint8_t src_lg_k\)",
    "sig": "void or_matrix_into_matrix(struct cpc_union* self, const uint64_t* src_matrix, uint8_t src_lg_k)", "nloops": 1,
    "inserts": [(r"self->bit_matrix\[src_row & dst_mask\] \|= src_matrix\[src_row\];", "if ((src_row & dst_mask) == g_d) g_acc |= src_matrix[src_row];", "after", 1)],
    "contract": r'''
__CPROVER_requires(__CPROVER_rw_ok(self, sizeof(*self)) && MATRIX_FRESH(self) && src_lg_k <= 26 && __CPROVER_r_ok(src_matrix, KROWS(src_lg_k) * 8) && !__CPROVER_same_object(src_matrix, self->bit_matrix) && verif_exc == 0)
__CPROVER_requires(g_d < KROWS(self->lg_k) && g_dst0 == self->bit_matrix[g_d] && g_acc == 0 && g_s < KROWS(src_lg_k))
''' + FOLD_FRAME + r'''
__CPROVER_ensures((verif_exc != 0) == (self->lg_k > src_lg_k))
/* every destination row is its old content ORed with the source rows that fold onto it: nothing lost, nothing invented */
__CPROVER_ensures(verif_exc == 0 ==> self->bit_matrix[g_d] == (g_dst0 | g_acc))
/* every source row lands, whole, on the row given by its low lg_k bits */
__CPROVER_ensures(verif_exc == 0 ==> (self->bit_matrix[g_s & (KROWS(self->lg_k) - 1)] & src_matrix[g_s]) == src_matrix[g_s])
/* g_acc is the OR of exactly the source rows congruent to g_d: it contains source row g_s iff that row folds onto g_d (ghost fold over each row once) */
__CPROVER_ensures((verif_exc == 0 && (g_s & (KROWS(self->lg_k) - 1)) == g_d) ==> (g_acc & src_matrix[g_s]) == src_matrix[g_s])
__CPROVER_ensures(verif_exc != 0 ==> self->bit_matrix[g_d] == g_dst0)
''',
    "loops": {1: r'''
__CPROVER_assigns(src_row, g_acc, __CPROVER_object_whole(self->bit_matrix))
__CPROVER_loop_invariant(src_row <= src_k)
__CPROVER_loop_invariant(self->bit_matrix[g_d] == (g_dst0 | g_acc))
__CPROVER_loop_invariant(g_s < src_row ==> (self->bit_matrix[g_s & dst_mask] & src_matrix[g_s]) == src_matrix[g_s])
__CPROVER_loop_invariant((g_s < src_row && (g_s & dst_mask) == g_d) ==> (g_acc & src_matrix[g_s]) == src_matrix[g_s])
__CPROVER_decreases(src_k - src_row)
'''},
}
or_window = {
    "name": "or_window_into_matrix", "file": CU, "members": ["lg_k", "bit_matrix"],
    "match": r"void cpc_union_alloc<A>::or_window_into_matrix\(const vector_bytes& sliding_window, uint8_t offset, uint8_t src_lg_k\)",
    "sig": "void or_window_into_matrix(struct cpc_union* self, const uint8_t* sliding_window, uint8_t offset, uint8_t src_lg_k)", "nloops": 1,
    "inserts": [(r"self->bit_matrix\[src_row & dst_mask\] \|= \(\(uint64_t\)\(sliding_window\[src_row\]\)\) << offset;", "if ((src_row & dst_mask) == g_d) g_acc |= ((uint64_t)sliding_window[src_row]) << offset;", "after", 1)],
    "contract": r'''
__CPROVER_requires(__CPROVER_rw_ok(self, sizeof(*self)) && MATRIX_FRESH(self) && src_lg_k <= 26 && __CPROVER_r_ok(sliding_window, KROWS(src_lg_k)) && !__CPROVER_same_object(sliding_window, self->bit_matrix) && offset <= 56 && verif_exc == 0)
__CPROVER_requires(g_d < KROWS(self->lg_k) && g_dst0 == self->bit_matrix[g_d] && g_acc == 0 && g_s < KROWS(src_lg_k))
''' + FOLD_FRAME + r'''
__CPROVER_ensures((verif_exc != 0) == (self->lg_k > src_lg_k))
/* the 8 window bits of every source row land at columns offset..offset+7 of the row given by its low lg_k bits; nothing else changes */
__CPROVER_ensures(verif_exc == 0 ==> self->bit_matrix[g_d] == (g_dst0 | g_acc))
__CPROVER_ensures(verif_exc == 0 ==> (self->bit_matrix[g_s & (KROWS(self->lg_k) - 1)] & ((uint64_t)sliding_window[g_s] << offset)) == ((uint64_t)sliding_window[g_s] << offset))
__CPROVER_ensures(verif_exc == 0 ==> (g_acc & ~((uint64_t)0xff << offset)) == 0)
''',
    "loops": {1: r'''
__CPROVER_assigns(src_row, g_acc, __CPROVER_object_whole(self->bit_matrix))
__CPROVER_loop_invariant(src_row <= src_k)
__CPROVER_loop_invariant(self->bit_matrix[g_d] == (g_dst0 | g_acc) && (g_acc & ~((uint64_t)0xff << offset)) == 0)
__CPROVER_loop_invariant(g_s < src_row ==> (self->bit_matrix[g_s & dst_mask] & ((uint64_t)sliding_window[g_s] << offset)) == ((uint64_t)sliding_window[g_s] << offset))
__CPROVER_decreases(src_k - src_row)
'''},
}
or_table = {
    "name": "or_table_into_matrix", "file": CU, "members": ["lg_k", "bit_matrix"], "match": r"void cpc_union_alloc<A>::or_table_into_matrix\(const u32_table<A>& table\)",
    "sig": "void or_table_into_matrix(struct cpc_union* self, const struct u32_table* table)", "refs": ["table"], "nloops": 1,
    "pre_rules": [(r"table\.get_slots\(\)", "table.slots", 1), (r"table\.get_lg_size\(\)", "table.lg_size", 1)],
    "inserts": [(r"self->bit_matrix\[row & dest_mask\] \|= \(\(uint64_t\)\(1\)\) << col;", "if ((row & dest_mask) == g_d) g_acc |= ((uint64_t)1) << col;", "after", 1)],
    "contract": r'''
__CPROVER_requires(__CPROVER_rw_ok(self, sizeof(*self)) && MATRIX_FRESH(self) && __CPROVER_r_ok(table, sizeof(*table)) && table->lg_size >= 2 && table->lg_size <= 26
                   && __CPROVER_r_ok(table->slots, KROWS(table->lg_size) * 4) && !__CPROVER_same_object(table->slots, self->bit_matrix) && verif_exc == 0)
__CPROVER_requires(g_d < KROWS(self->lg_k) && g_dst0 == self->bit_matrix[g_d] && g_acc == 0 && g_s < KROWS(table->lg_size))
__CPROVER_assigns(g_acc, __CPROVER_object_whole(self->bit_matrix))
/* every (row, col) pair of the table sets bit col of the row given by the low lg_k bits of its row; nothing else changes */
__CPROVER_ensures(self->bit_matrix[g_d] == (g_dst0 | g_acc))
__CPROVER_ensures(table->slots[g_s] != UINT32_MAX ==> ((self->bit_matrix[(table->slots[g_s] >> 6) & (KROWS(self->lg_k) - 1)] >> (table->slots[g_s] & 63)) & 1) == 1)
__CPROVER_ensures((table->slots[g_s] != UINT32_MAX && ((table->slots[g_s] >> 6) & (KROWS(self->lg_k) - 1)) == g_d) ==> ((g_acc >> (table->slots[g_s] & 63)) & 1) == 1)
''',
    "loops": {1: r'''
__CPROVER_assigns(i, g_acc, __CPROVER_object_whole(self->bit_matrix))
__CPROVER_loop_invariant(i <= num_slots)
__CPROVER_loop_invariant(self->bit_matrix[g_d] == (g_dst0 | g_acc))
__CPROVER_loop_invariant((g_s < i && slots[g_s] != UINT32_MAX) ==> ((self->bit_matrix[(slots[g_s] >> 6) & dest_mask] >> (slots[g_s] & 63)) & 1) == 1)
__CPROVER_loop_invariant((g_s < i && slots[g_s] != UINT32_MAX && ((slots[g_s] >> 6) & dest_mask) == g_d) ==> ((g_acc >> (slots[g_s] & 63)) & 1) == 1)
__CPROVER_decreases(num_slots - i)
'''},
}
TM = ["lg_size", "num_valid_bits", "num_items", "slots"]
TABLE_FRESH = "__CPROVER_rw_ok(self, sizeof(*self)) && self->lg_size >= 2 && self->lg_size <= 26 && self->num_valid_bits >= self->lg_size && self->num_valid_bits <= 32 && __CPROVER_rw_ok(self->slots, KROWS(self->lg_size) * 4)"
lookup = {
    "name": "lookup", "file": UT, "members": TM, "match": r"uint32_t u32_table<A>::lookup\(uint32_t item\) const", "sig": "uint32_t lookup(const struct u32_table* self, uint32_t item)", "throw_rv": "0", "nloops": 1,
    "contract": "__CPROVER_requires(" + TABLE_FRESH + r''' && verif_exc == 0)
/* the table is never full: some slot (ghost g_e) is empty */
__CPROVER_requires(g_e < KROWS(self->lg_size) && self->slots[g_e] == UINT32_MAX)
__CPROVER_assigns(verif_exc)
__CPROVER_ensures((verif_exc != 0) == ((item >> (self->num_valid_bits - self->lg_size)) > KROWS(self->lg_size) - 1))
/* linear probing ends at the slot holding the item or at the first empty slot after its home position */
__CPROVER_ensures(verif_exc == 0 ==> (__CPROVER_return_value < KROWS(self->lg_size) && (self->slots[__CPROVER_return_value] == item || self->slots[__CPROVER_return_value] == UINT32_MAX)))
''',
    "loops": {1: r'''
__CPROVER_assigns(probe)
__CPROVER_loop_invariant(probe <= mask)
__CPROVER_decreases((g_e - probe) & mask)
'''},
}
maybe_insert = {
    "name": "maybe_insert", "file": UT, "members": TM, "match": r"bool u32_table<A>::maybe_insert\(uint32_t item\)", "sig": "bool maybe_insert(struct u32_table* self, uint32_t item)", "throw_rv": "0",
    "methods": ["lookup", "rebuild"], "propagate": ["lookup", "rebuild"],
    "consts": True,
    "contract": "__CPROVER_requires(" + TABLE_FRESH + r''' && verif_exc == 0 && item != UINT32_MAX && self->num_items < KROWS(self->lg_size))
__CPROVER_requires(g_e < KROWS(self->lg_size) && self->slots[g_e] == UINT32_MAX)
__CPROVER_assigns(verif_exc, g_found, self->num_items, self->lg_size, self->slots, __CPROVER_object_whole(self->slots))
__CPROVER_frees(self->slots)
/* a novel item is stored and counted exactly once; an item already present changes nothing */
__CPROVER_ensures((verif_exc == 0 && !__CPROVER_return_value) ==> (self->num_items == __CPROVER_old(self->num_items) && g_found))
__CPROVER_ensures((verif_exc == 0 && __CPROVER_return_value) ==> (self->num_items == __CPROVER_old(self->num_items) + 1 && !g_found))
''',
    "inserts": [(r"const uint32_t index = lookup\(self, item\); VERIF_PROPAGATE;", "g_found = (self->slots[index] == item);", "after", 1)],
}
PRELUDE2 = r'''
bool g_found;   /* ghost: lookup ended at a slot holding the item */
/* rebuild(new_lg_size): ASSUMED contract in this unit (re-inserts every item into a table of the new size) */
void rebuild(struct u32_table* self, uint8_t new_lg_size)
  __CPROVER_requires(__CPROVER_rw_ok(self, sizeof(*self)))
  __CPROVER_assigns(verif_exc, self->lg_size, self->slots, __CPROVER_object_whole(self->slots)) __CPROVER_frees(self->slots)
  __CPROVER_ensures(1);
'''
HARNESS = r'''
static struct cpc_union* mk_union(void) { struct cpc_union* u = malloc(sizeof(*u)); __CPROVER_assume(u != NULL); u->lg_k = nondet_u8(); __CPROVER_assume(u->lg_k <= 26);
  u->bit_matrix = malloc(sizeof(uint64_t) * KROWS(u->lg_k)); __CPROVER_assume(u->bit_matrix != NULL); return u; }
static struct u32_table* mk_table(void) { struct u32_table* t = malloc(sizeof(*t)); __CPROVER_assume(t != NULL); t->lg_size = nondet_u8(); __CPROVER_assume(t->lg_size <= 26);
  t->num_valid_bits = nondet_u8(); t->num_items = nondet_u32(); t->slots = malloc(sizeof(uint32_t) * KROWS(t->lg_size)); __CPROVER_assume(t->slots != NULL); return t; }
void h_row_col(void) { verif_exc = 0; (void)row_col_from_two_hashes(nondet_u64(), nondet_u64(), nondet_u8()); VERIF_CANARY_POINT; }
void h_or_matrix(void) { struct cpc_union* u = mk_union(); verif_exc = 0; uint8_t l = nondet_u8(); __CPROVER_assume(l <= 26); const uint64_t* src = malloc(sizeof(uint64_t) * KROWS(l)); __CPROVER_assume(src != NULL); or_matrix_into_matrix(u, src, l); VERIF_CANARY_POINT; }
void h_or_window(void) { struct cpc_union* u = mk_union(); verif_exc = 0; uint8_t l = nondet_u8(); __CPROVER_assume(l <= 26); const uint8_t* w = malloc(KROWS(l)); __CPROVER_assume(w != NULL); or_window_into_matrix(u, w, nondet_u8(), l); VERIF_CANARY_POINT; }
void h_or_table(void) { struct cpc_union* u = mk_union(); struct u32_table* t = mk_table(); verif_exc = 0; or_table_into_matrix(u, t); VERIF_CANARY_POINT; }
void h_lookup(void) { struct u32_table* t = mk_table(); verif_exc = 0; (void)lookup(t, nondet_u32()); VERIF_CANARY_POINT; }
void h_maybe_insert(void) { struct u32_table* t = mk_table(); verif_exc = 0; (void)maybe_insert(t, nondet_u32()); VERIF_CANARY_POINT; }
'''
del maybe_insert["consts"]
UNIT = {
    "id": "cpc_matrix", "property": "C05",
    "clause": "CPC coupon kernels: row_col_from_two_hashes gives (low lg_k bits of hash0, leading zeros of hash1 clipped to 63) and never the EMPTY marker; the union's or_matrix_into_matrix, "
              "or_window_into_matrix and or_table_into_matrix fold every source row / window byte / table pair onto the row given by its low lg_k bits, each destination row becoming exactly "
              "its old content ORed with what folds onto it, for every lg_k 4..26 and source lg_k up to 26; u32_table::lookup ends at the item's slot or the first empty slot and terminates "
              "on a table that is not full; maybe_insert stores and counts a novel item exactly once",
    "consts": [{"file": "cpc/include/u32_table.hpp", "pattern": r"static const uint32_t (?P<name>U32_TABLE_UPSIZE_NUMER|U32_TABLE_UPSIZE_DENOM|U32_TABLE_DOWNSIZE_NUMER|U32_TABLE_DOWNSIZE_DENOM)\s*=\s*(?P<value>[^;]+);", "min_count": 4}],
    "prelude": PRELUDE + PRELUDE2,
    "parts": [_c03.tables, _c03.clz64, row_col, or_matrix, or_window, or_table, lookup, maybe_insert], "harness": HARNESS,
    "jobs": [{"name": "row_col_from_two_hashes", "entry": "h_row_col", "enforce": "row_col_from_two_hashes", "replace": ["count_leading_zeros_in_u64"], "timeout": 300},
             {"name": "or_matrix_into_matrix", "entry": "h_or_matrix", "enforce": "or_matrix_into_matrix", "loops": True, "expect_loop_steps": 1, "timeout": 900},
             {"name": "or_window_into_matrix", "entry": "h_or_window", "enforce": "or_window_into_matrix", "loops": True, "expect_loop_steps": 1, "timeout": 900},
             {"name": "or_table_into_matrix", "entry": "h_or_table", "enforce": "or_table_into_matrix", "loops": True, "expect_loop_steps": 1, "timeout": 900},
             {"name": "lookup", "entry": "h_lookup", "enforce": "lookup", "loops": True, "expect_loop_steps": 1, "timeout": 600},
             {"name": "maybe_insert", "entry": "h_maybe_insert", "enforce": "maybe_insert", "replace": ["lookup", "rebuild"], "timeout": 600}],
    "assumptions": ["vector_u64 bit_matrix / vector_bytes window / u32 slots as arrays of exactly 2^lg elements; count_leading_zeros_in_u64 by its contract (proved in C03 unit coupon)",
                    "u32_table::rebuild enters maybe_insert through an ASSUMED frame-only contract",
                    "'the table is never full' is a precondition of lookup (ghost empty slot); it follows from the resize rule num_items <= 3/4 size, which is a paper step here"],
}
