import importlib.util, os
_spec = importlib.util.spec_from_file_location("c03coupon", os.path.join(os.path.dirname(__file__), "..", "C03", "u01_coupon.py"))
_c03 = importlib.util.module_from_spec(_spec); _spec.loader.exec_module(_c03)
CS = "cpc/include/cpc_sketch_impl.hpp"
M = ["lg_k", "seed", "was_merged", "num_coupons", "surprising_value_table", "sliding_window", "window_offset", "first_interesting_column", "kxp", "hip_est_accum"]

PRELUDE = r'''
struct cpc { uint8_t lg_k; uint32_t num_coupons; uint8_t* sliding_window; size_t sliding_window_size; uint8_t window_offset; uint8_t first_interesting_column; double kxp;
             uint32_t table_items; /* surprising_value_table, abstract: number of items */ };
#define KROWS(lg) ((size_t)1 << (lg))
#define CTZ64(x) ((x) == 0 ? 64 : __builtin_ctzll(x))
uint32_t g_r;                /* ghost: an arbitrary row */
const uint64_t* g_matrix;    /* ghost: the bit matrix build_bit_matrix() reconstructed from the sketch */
/* callee contracts ASSUMED in this unit */
uint8_t determine_correct_offset(uint8_t lg_k, uint64_t c) __CPROVER_assigns() __CPROVER_ensures(1);
const uint64_t* build_bit_matrix(const struct cpc* self) __CPROVER_requires(__CPROVER_r_ok(self, sizeof(*self))) __CPROVER_assigns() __CPROVER_ensures(__CPROVER_return_value == g_matrix);
void refresh_kxp(struct cpc* self, const uint64_t* bit_matrix) __CPROVER_requires(__CPROVER_rw_ok(self, sizeof(*self))) __CPROVER_assigns(self->kxp);
void table_clear(struct cpc* self) __CPROVER_requires(__CPROVER_rw_ok(self, sizeof(*self))) __CPROVER_assigns(self->table_items) __CPROVER_ensures(self->table_items == 0);
/* maybe_insert of a pair not yet in the (just cleared) table: novel (the real function is under contract in unit cpc_matrix) */
bool table_maybe_insert(struct cpc* self, uint32_t row_col) __CPROVER_requires(__CPROVER_rw_ok(self, sizeof(*self)) && row_col != UINT32_MAX) __CPROVER_assigns(self->table_items) __CPROVER_ensures(__CPROVER_return_value);
'''
move_window = {
    "name": "move_window", "file": CS, "members": M, "match": r"void cpc_sketch_alloc<A>::move_window\(\)", "sig": "void move_window(struct cpc* self)", "nloops": 2,
    "pre_rules": [(r"sliding_window\.size\(\)", "sliding_window_size", 1), (r"vector_u64 bit_matrix = build_bit_matrix\(\);", "const uint64_t* bit_matrix = build_bit_matrix();", 1),
                  (r"refresh_kxp\(bit_matrix\.data\(\)\)", "refresh_kxp(bit_matrix)", 1), (r"surprising_value_table\.clear\(\);", "table_clear();", 1),
                  (r"surprising_value_table\.maybe_insert\(row_col\)", "table_maybe_insert(row_col)", 1)],
    "rules": [(r"\bsliding_window_size\b", "self->sliding_window_size", 1)],
    "methods": ["build_bit_matrix", "refresh_kxp", "table_clear", "table_maybe_insert"],
    "contract": r'''
__CPROVER_requires(__CPROVER_rw_ok(self, sizeof(*self)) && self->lg_k >= 4 && self->lg_k <= 26 && self->sliding_window_size == KROWS(self->lg_k) && __CPROVER_rw_ok(self->sliding_window, KROWS(self->lg_k))
                   && __CPROVER_r_ok(g_matrix, KROWS(self->lg_k) * 8) && g_r < KROWS(self->lg_k) && verif_exc == 0)
/* sketch invariants: window offset in range; the pair (row 2^26-1, column 63) is never a coupon (row_col_from_two_hashes remaps it: unit cpc_matrix) */
__CPROVER_requires(self->window_offset <= 56 && !(self->lg_k == 26 && (g_matrix[KROWS(26) - 1] >> 63) != 0))
__CPROVER_assigns(verif_exc, self->window_offset, self->first_interesting_column, self->kxp, self->table_items, __CPROVER_object_whole(self->sliding_window))
/* the window moves up by one column; each window byte holds the 8 matrix columns starting at the new offset */
__CPROVER_ensures(verif_exc == 0 ==> (self->window_offset == __CPROVER_old(self->window_offset) + 1 && self->window_offset <= 56))
__CPROVER_ensures(verif_exc == 0 ==> self->sliding_window[g_r] == ((g_matrix[g_r] >> self->window_offset) & 0xff))
/* updates to columns below first_interesting_column are ignored (row_col_update): that is lossless only if it never exceeds the window offset and every row already has all those columns set */
__CPROVER_ensures(verif_exc == 0 ==> self->first_interesting_column <= self->window_offset)
__CPROVER_ensures(verif_exc == 0 ==> (g_matrix[g_r] & (((uint64_t)1 << self->first_interesting_column) - 1)) == (((uint64_t)1 << self->first_interesting_column) - 1))
''',
    "loops": {1: r'''
__CPROVER_assigns(i, all_surprises_ored, verif_exc, self->table_items, __CPROVER_object_whole(self->sliding_window))
__CPROVER_loop_invariant(i <= k && verif_exc == 0)
__CPROVER_loop_invariant(g_r < i ==> self->sliding_window[g_r] == ((bit_matrix[g_r] >> new_offset) & 0xff))
__CPROVER_loop_invariant(g_r < i ==> ((((bit_matrix[g_r] & mask_for_clearing_window) ^ mask_for_flipping_early_zone)) & ~all_surprises_ored) == 0)
__CPROVER_decreases(k - i)
''', 2: r'''
__CPROVER_assigns(pattern, verif_exc, self->table_items)
__CPROVER_loop_invariant(verif_exc == 0 && (pattern & ~((bit_matrix[i] & mask_for_clearing_window) ^ mask_for_flipping_early_zone)) == 0)
__CPROVER_decreases(pattern)
'''},
    "propagate": [],
}
HARNESS = r'''
void h_move(void) { struct cpc* s = malloc(sizeof(*s)); __CPROVER_assume(s != NULL); s->lg_k = nondet_u8(); __CPROVER_assume(s->lg_k <= 26);
  s->sliding_window = malloc(KROWS(s->lg_k)); g_matrix = malloc(sizeof(uint64_t) * KROWS(s->lg_k)); __CPROVER_assume(s->sliding_window != NULL && g_matrix != NULL);
  verif_exc = 0; move_window(s); VERIF_CANARY_POINT; }
'''
UNIT = {
    "id": "cpc_move_window", "property": "C05",
    "clause": "cpc_sketch::move_window: the window offset advances by one (at most 56), every window byte holds the 8 columns of the reconstructed bit matrix starting at the new offset, and "
              "first_interesting_column never exceeds the window offset while every row has all columns below it set - so ignoring updates below it loses no coupon",
    "prelude": PRELUDE, "parts": [_c03.tables, _c03.ctz64, move_window], "harness": HARNESS,
    "jobs": [{"name": "move_window", "entry": "h_move", "enforce": "move_window", "loops": True, "expect_loop_steps": 2, "timeout": 900, "object_bits": 10,
              "replace": ["determine_correct_offset", "build_bit_matrix", "refresh_kxp", "table_clear", "table_maybe_insert", "count_trailing_zeros_in_u64"]}],
    "assumptions": ["build_bit_matrix() returns the matrix the sketch stands for (ghost g_matrix): ASSUMED; determine_correct_offset, refresh_kxp: frame only; the surprising-value table is abstract "
                    "(clear, then maybe_insert of pairs never inserted before is always novel); count_trailing_zeros_in_u64 by contract"],
}
