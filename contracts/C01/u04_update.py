import crules
F = "theta/include/theta_sketch_impl.hpp"
H = "theta/include/theta_update_sketch_base.hpp"

PRELUDE = r'''
typedef uint64_t EN;
typedef struct { EN* first; bool second; } find_result;
struct theta_base { bool is_empty_; uint8_t lg_cur_size_; uint8_t lg_nom_size_; uint8_t rf_; float p_;
                    uint32_t num_entries_; uint64_t theta_; uint64_t seed_; EN* entries_; };
struct update_sketch { struct theta_base table_; };
/* ghost record of what reaches the byte-level update */
uint64_t g_img; size_t g_len; uint32_t g_update_calls;
uint64_t g_find_key; uint64_t g_hash; bool g_found; EN* g_slot; uint32_t g_find_calls, g_insert_calls; EN* g_ins_it; EN g_ins_entry;
uint64_t hash_and_screen(struct theta_base* self, const void* data, size_t length)
  __CPROVER_assigns() __CPROVER_ensures(__CPROVER_return_value == g_hash);
find_result find_m(struct theta_base* self, uint64_t key)
  __CPROVER_assigns(g_find_calls, g_find_key)
  __CPROVER_ensures(g_find_calls == __CPROVER_old(g_find_calls) + 1 && g_find_key == key)
  __CPROVER_ensures(__CPROVER_return_value.first == g_slot && __CPROVER_return_value.second == g_found);
void insert(struct theta_base* self, EN* it, EN entry)
  __CPROVER_assigns(g_insert_calls, g_ins_it, g_ins_entry)
  __CPROVER_ensures(g_insert_calls == __CPROVER_old(g_insert_calls) + 1 && g_ins_it == it && g_ins_entry == entry);
'''

canonical_double = {
    "name": "canonical_double", "file": H,
    "match": r"static inline int64_t canonical_double\(double value\)",
    "sig": "static inline int64_t canonical_double(double value)",
    "contract": r'''
__CPROVER_assigns()
/* Java Double.doubleToLongBits compatibility: -0.0 and +0.0 hash alike, every NaN hashes alike, anything else is its own bit pattern */
__CPROVER_ensures(value == 0.0 ==> __CPROVER_return_value == 0)
__CPROVER_ensures(isnan(value) ==> __CPROVER_return_value == 0x7ff8000000000000L)
__CPROVER_ensures((value != 0.0 && !isnan(value)) ==> __CPROVER_return_value == g_bits)
''',
}

def upd(name, ctype, post):
    return {
        "name": "update_" + name, "file": F,
        "match": r"void update_theta_sketch_alloc<A>::update\(%s value\)" % ctype.replace("*", r"\*"),
        "sig": "void update_%s(struct update_sketch* self, %s value)" % (name, ctype),
        # C++ overload resolution made explicit: the callee is selected by the static type of the argument expression
        "pre_rules": [(r"(?<![\w.])update\(static_cast<(\w+)>\(", r"UPDATE_OVERLOAD_\1(self, static_cast<\1>(", "any"),
                      (r"(?<![\w.])update\(&value, sizeof\(value\)\)", "update_bytes(self, &value, sizeof(value))", "any"),
                      (r"(?<![\w.])update\(canonical_double\(", "UPDATE_OVERLOAD_int64_t(self, canonical_double(", "any")],
        "contract": "__CPROVER_assigns(g_img, g_len, g_update_calls)\n"
                    "__CPROVER_ensures(g_update_calls == __CPROVER_old(g_update_calls) + 1 && g_len == 8 && g_img == %s)\n" % post,
    }

# what must reach the hash: the 8-byte little-endian image of the value sign-extended to 64 bits (Java long compatibility)
update_i64 = upd("i64", "int64_t", "(uint64_t)value")
update_u64 = upd("u64", "uint64_t", "value")
update_i32 = upd("i32", "int32_t", "(uint64_t)(int64_t)value")
update_u32 = upd("u32", "uint32_t", "(uint64_t)(int64_t)(int32_t)value")
update_i16 = upd("i16", "int16_t", "(uint64_t)(int64_t)value")
update_u16 = upd("u16", "uint16_t", "(uint64_t)(int64_t)(int16_t)value")
update_i8 = upd("i8", "int8_t", "(uint64_t)(int64_t)value")
update_u8 = upd("u8", "uint8_t", "(uint64_t)(int64_t)(int8_t)value")
update_double = upd("double", "double", "(value == 0.0 ? 0 : isnan(value) ? 0x7ff8000000000000UL : g_bits)")
update_float = upd("float", "float", "((double)value == 0.0 ? 0 : isnan((double)value) ? 0x7ff8000000000000UL : g_bits)")

update_bytes_decl = r'''
void update_bytes(struct update_sketch* self, const void* data, size_t length)
  __CPROVER_requires(length == 8 && __CPROVER_r_ok(data, 8))
  __CPROVER_assigns(g_img, g_len, g_update_calls)
  __CPROVER_ensures(g_update_calls == __CPROVER_old(g_update_calls) + 1 && g_len == length && g_img == *(const uint64_t*)data);
#define UPDATE_OVERLOAD_int64_t update_i64
#define UPDATE_OVERLOAD_uint64_t update_u64
#define UPDATE_OVERLOAD_int32_t update_i32
#define UPDATE_OVERLOAD_uint32_t update_u32
#define UPDATE_OVERLOAD_int16_t update_i16
#define UPDATE_OVERLOAD_uint16_t update_u16
#define UPDATE_OVERLOAD_int8_t update_i8
#define UPDATE_OVERLOAD_uint8_t update_u8
#define UPDATE_OVERLOAD_double update_double
#define UPDATE_OVERLOAD_float update_float
''' + "".join("void update_%s(struct update_sketch* self, %s value);\n" % (n, t) for n, t in [("i64", "int64_t"), ("u64", "uint64_t"), ("i32", "int32_t"), ("u32", "uint32_t"), ("i16", "int16_t"), ("u16", "uint16_t"), ("i8", "int8_t"), ("u8", "uint8_t"), ("double", "double"), ("float", "float")])

update_impl = {
    "name": "update_bytes_impl", "file": F,
    "match": r"void update_theta_sketch_alloc<A>::update\(const void\* data, size_t length\)",
    "sig": "void update_bytes_impl(struct update_sketch* self, const void* data, size_t length)",
    "rules": [(r"(?:self->)?table_\.find\(", "find_m(&self->table_, ", 1),
              (r"(?:self->)?table_\.(hash_and_screen|insert)\(", r"\1(&self->table_, ", 2),
              (r"\bauto result\b", "find_result result", 1)],
    "contract": r'''
__CPROVER_requires(__CPROVER_is_fresh(self, sizeof(*self)))
__CPROVER_assigns(g_find_calls, g_find_key, g_insert_calls, g_ins_it, g_ins_entry)
/* screened-out hash (0): nothing is looked up or stored */
__CPROVER_ensures(g_hash == 0 ==> (g_find_calls == __CPROVER_old(g_find_calls) && g_insert_calls == __CPROVER_old(g_insert_calls)))
/* otherwise exactly one lookup of that hash; stored iff not already present (none twice), at the slot find designated */
__CPROVER_ensures(g_hash != 0 ==> (g_find_calls == __CPROVER_old(g_find_calls) + 1 && g_find_key == g_hash))
__CPROVER_ensures((g_hash != 0 && g_found) ==> g_insert_calls == __CPROVER_old(g_insert_calls))
__CPROVER_ensures((g_hash != 0 && !g_found) ==> (g_insert_calls == __CPROVER_old(g_insert_calls) + 1 && g_ins_it == g_slot && g_ins_entry == g_hash))
''',
}

CHAIN = [("i64", "update_bytes"), ("u64", "update_bytes"), ("i32", "update_i64"), ("u32", "update_i32"), ("i16", "update_i64"),
         ("u16", "update_i16"), ("i8", "update_i64"), ("u8", "update_i8"), ("double", "update_i64"), ("float", "update_double")]

HARNESS = "\n".join(
    "void h_%s(void) { struct update_sketch* s; %s v; union { double d; uint64_t u; } c; c.d = (double)v; g_bits = c.u; update_%s(s, v); VERIF_CANARY_POINT; }"
    % (n, {"i64": "int64_t", "u64": "uint64_t", "i32": "int32_t", "u32": "uint32_t", "i16": "int16_t", "u16": "uint16_t", "i8": "int8_t",
           "u8": "uint8_t", "double": "double", "float": "float"}[n], n) for (n, _) in CHAIN) + r'''
void h_canon(void) { double v; union { double d; uint64_t u; } c; c.d = v; g_bits = c.u; canonical_double(v); VERIF_CANARY_POINT; }
void h_impl(void) { struct update_sketch* s; const void* d; size_t n; update_bytes_impl(s, d, n); VERIF_CANARY_POINT; }
'''

UNIT = {
    "id": "theta_update", "property": "C01",
    "clause": "input canonicalisation: every integer update overload hashes the 8-byte image of the value sign-extended to int64 (uint32 0x80000000.. "
              "and int32 of the same bits hash alike), float is widened to double, double is canonicalised (-0.0 -> 0.0, every NaN -> 0x7ff8000000000000); "
              "update(bytes): a screened-out hash touches nothing, otherwise one lookup and an insert iff the hash is not already present",
    "prelude": PRELUDE + "uint64_t g_bits;\n" + update_bytes_decl,
    "parts": [canonical_double, update_i64, update_u64, update_i32, update_u32, update_i16, update_u16, update_i8, update_u8,
              update_double, update_float, update_impl],
    "harness": HARNESS,
    "jobs": [{"name": "update_" + n, "entry": "h_" + n, "enforce": "update_" + n,
              "replace": ["update_bytes", "canonical_double"] + ["update_" + m for (m, _) in CHAIN if m != n], "canary": n in ("u32", "double")} for (n, callee) in CHAIN] + [
        {"name": "canonical_double", "entry": "h_canon", "enforce": "canonical_double"},
        {"name": "update_bytes", "entry": "h_impl", "enforce": "update_bytes_impl", "replace": ["hash_and_screen", "find_m", "insert"]},
    ],
    "replay": {"*": {"template": "theta_update.cpp", "vars": {
        "TYPE": "{'i64':'int64_t','u64':'uint64_t','i32':'int32_t','u32':'uint32_t','i16':'int16_t','u16':'uint16_t','i8':'int8_t','u8':'uint8_t','double':'double','float':'float'}[job['name'].split('_')[1]]",
        "EXPECT": "{'i64':'(int64_t)v','u64':'(int64_t)v','i32':'(int64_t)v','u32':'(int64_t)(int32_t)v','i16':'(int64_t)v','u16':'(int64_t)(int16_t)v','i8':'(int64_t)v','u8':'(int64_t)(int8_t)v','double':'canon(v)','float':'canon((double)v)'}[job['name'].split('_')[1]]",
        "RAWBITS": "rawbits(t, 'v')"}}},
    "assumptions": ["the string overload (empty string ignored, otherwise bytes of the string) is not extracted (std::string)"],
}
