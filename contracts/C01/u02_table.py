F = "theta/include/theta_update_sketch_base_impl.hpp"
H = "theta/include/theta_update_sketch_base.hpp"
TH = "theta/include/theta_helpers.hpp"
TC = "theta/include/theta_constants.hpp"
MEMBERS = ["is_empty_", "lg_cur_size_", "lg_nom_size_", "rf_", "p_", "num_entries_", "theta_", "seed_", "entries_"]

PRELUDE = r'''
typedef uint64_t EN;
#define KEY(x) (x)
typedef struct { EN* first; bool second; } find_result;
struct theta_base { bool is_empty_; uint8_t lg_cur_size_; uint8_t lg_nom_size_; uint8_t rf_; float p_;
                    uint32_t num_entries_; uint64_t theta_; uint64_t seed_; EN* entries_; };
#define TSIZE(lg) (((size_t)1 << (lg)) * sizeof(EN))
#define WF(self) (__CPROVER_is_fresh(self, sizeof(*self)) && (self)->lg_nom_size_ <= 26 && (self)->lg_cur_size_ >= 1 && \
                  (self)->lg_cur_size_ <= (self)->lg_nom_size_ + 1 && (self)->rf_ <= 3 && \
                  ((self)->rf_ == 0 ==> (self)->lg_cur_size_ == (self)->lg_nom_size_ + 1) && \
                  __CPROVER_is_fresh((self)->entries_, TSIZE((self)->lg_cur_size_)))
/* ghosts */
uint64_t g_hash; uint32_t g_i, g_j; uint64_t g_old; uint64_t g_theta0;

/* the 63-bit hash of the canonicalised input (MurmurHash3 h1 >> 1: decided in C10) */
uint64_t compute_hash(const void* data, size_t length, uint64_t seed)
  __CPROVER_assigns() __CPROVER_ensures(__CPROVER_return_value == g_hash);
'''

hash_and_screen = {
    "name": "hash_and_screen", "file": F, "members": MEMBERS,
    "match": r"uint64_t theta_update_sketch_base<EN, EK, A>::hash_and_screen\(const void\* data, size_t length\)",
    "sig": "uint64_t hash_and_screen(struct theta_base* self, const void* data, size_t length)",
    "contract": r'''
__CPROVER_requires(__CPROVER_is_fresh(self, sizeof(*self)))
__CPROVER_assigns(self->is_empty_)
/* property: retains exactly the hashes strictly below theta; 0 marks 'screened out' */
__CPROVER_ensures(__CPROVER_return_value == (g_hash < __CPROVER_old(self->theta_) ? g_hash : 0))
__CPROVER_ensures(self->is_empty_ == false)
''',
}

get_capacity = {
    "name": "get_capacity", "file": F,
    "match": r"uint32_t theta_update_sketch_base<EN, EK, A>::get_capacity\(uint8_t lg_cur_size, uint8_t lg_nom_size\)",
    "sig": "uint32_t get_capacity(uint8_t lg_cur_size, uint8_t lg_nom_size)",
    "contract": r'''
__CPROVER_requires(lg_cur_size >= 1 && lg_cur_size <= 27 && lg_nom_size <= 26)
__CPROVER_assigns()
/* always at least one empty slot left: the probe loop of find() terminates on an empty slot */
__CPROVER_ensures(__CPROVER_return_value < ((uint32_t)1 << lg_cur_size))
__CPROVER_ensures(lg_cur_size <= lg_nom_size ==> __CPROVER_return_value == ((uint32_t)1 << lg_cur_size) / 2)
__CPROVER_ensures(lg_cur_size > lg_nom_size ==> __CPROVER_return_value == (((uint32_t)1 << lg_cur_size) / 16) * 15 + ((((uint32_t)1 << lg_cur_size) % 16) * 15) / 16)
''',
}

starting_sub_multiple = {
    "name": "starting_sub_multiple", "file": TH,
    "match": r"static uint8_t starting_sub_multiple\(uint8_t lg_tgt, uint8_t lg_min, uint8_t lg_rf\)",
    "sig": "uint8_t starting_sub_multiple(uint8_t lg_tgt, uint8_t lg_min, uint8_t lg_rf)",
    "contract": r'''
__CPROVER_requires(lg_tgt <= 27 && lg_min <= 27 && lg_rf <= 3)
__CPROVER_assigns()
/* between lg_min and lg_tgt, and reachable from it by whole resize steps */
__CPROVER_ensures(lg_tgt <= lg_min ==> __CPROVER_return_value == lg_min)
__CPROVER_ensures(lg_tgt > lg_min ==> (__CPROVER_return_value >= lg_min && __CPROVER_return_value <= lg_tgt))
__CPROVER_ensures((lg_tgt > lg_min && lg_rf > 0) ==> (lg_tgt - __CPROVER_return_value) % lg_rf == 0)
__CPROVER_ensures((lg_tgt > lg_min && lg_rf == 0) ==> __CPROVER_return_value == lg_tgt)
''',
}

starting_theta_from_p = {
    "name": "starting_theta_from_p", "file": TH,
    "match": r"static uint64_t starting_theta_from_p\(float p\)",
    "sig": "uint64_t starting_theta_from_p(float p)",
    "contract": r'''
__CPROVER_requires(p > 0.0f && p <= 1.0f)
__CPROVER_assigns()
__CPROVER_ensures(p == 1.0f ==> __CPROVER_return_value == theta_constants_MAX_THETA)
__CPROVER_ensures(__CPROVER_return_value <= theta_constants_MAX_THETA)
__CPROVER_ensures(__CPROVER_return_value == g_theta0)
''',
}

trim = {
    "name": "trim", "file": F, "members": MEMBERS,
    "match": r"void theta_update_sketch_base<EN, EK, A>::trim\(\)",
    "sig": "void trim(struct theta_base* self)", "propagate": ["rebuild"], "methods": ["rebuild"],
    "contract": r'''
__CPROVER_requires(WF(self) && self->lg_nom_size_ >= 1)
__CPROVER_assigns(verif_exc, g_rebuild_calls)
/* rebuild (which cuts to exactly k) runs iff more than k = 2^lg_nom entries are retained */
__CPROVER_ensures(g_rebuild_calls == __CPROVER_old(g_rebuild_calls) + (__CPROVER_old(self->num_entries_) > ((uint32_t)1 << self->lg_nom_size_) ? 1 : 0))
''',
}

insert = {
    "name": "insert", "file": F, "members": MEMBERS,
    "match": r"void theta_update_sketch_base<EN, EK, A>::insert\(iterator it, Fwd&& entry\)",
    "sig": "void insert(struct theta_base* self, EN* it, EN entry)",
    "rules": [(r"new \(it\) EN\(std::forward<Fwd>\(entry\)\);", "*it = entry;", 1)],
    "propagate": ["resize", "rebuild"], "methods": ["resize", "rebuild"],
    "contract": r'''
__CPROVER_requires(WF(self))
__CPROVER_requires(__CPROVER_same_object(it, self->entries_) && __CPROVER_POINTER_OFFSET(it) % sizeof(EN) == 0 &&
                   __CPROVER_POINTER_OFFSET(it) < TSIZE(self->lg_cur_size_))
__CPROVER_requires(self->num_entries_ < ((uint32_t)1 << 27))
__CPROVER_assigns(verif_exc, *it, self->num_entries_, g_rebuild_calls, g_resize_calls)
__CPROVER_ensures(*it == entry)
__CPROVER_ensures(self->num_entries_ == __CPROVER_old(self->num_entries_) + 1)
/* grow while the table is below its final size, otherwise cut back to k by rebuild - exactly when the load limit is exceeded */
__CPROVER_ensures(g_resize_calls - __CPROVER_old(g_resize_calls) ==
   ((self->num_entries_ > g_cap && self->lg_cur_size_ <= self->lg_nom_size_) ? 1 : 0))
__CPROVER_ensures(g_rebuild_calls - __CPROVER_old(g_rebuild_calls) ==
   ((self->num_entries_ > g_cap && self->lg_cur_size_ > self->lg_nom_size_) ? 1 : 0))
''',
}

UNIT = {
    "id": "theta_table", "property": "C01",
    "clause": "screening (hash_and_screen): an update is retained iff its 63-bit hash is strictly below theta, and marks the sketch non-empty; "
              "capacity arithmetic (get_capacity: half below nominal size, 15/16 at final size, always < table size so an empty slot exists); "
              "insert: count +1, resize iff over capacity below final size, rebuild iff over capacity at final size; trim: rebuild iff more than k "
              "retained; starting table size / starting theta helpers",
    "consts": [
        {"name": "RESIZE_THRESHOLD", "file": H, "match": r"static constexpr double RESIZE_THRESHOLD = ([^;]+);", "ctype": "double"},
        {"name": "REBUILD_THRESHOLD", "file": H, "match": r"static constexpr double REBUILD_THRESHOLD = ([^;]+);", "ctype": "double"},
        {"name": "theta_constants_MAX_THETA", "file": TC, "match": r"const uint64_t MAX_THETA = ([^;]+);", "ctype": "uint64_t"},
        {"name": "theta_constants_MIN_LG_K", "file": TC, "match": r"const uint8_t MIN_LG_K = ([^;]+);", "ctype": "uint8_t"},
    ],
    "member_checks": [{"file": H, "members": MEMBERS}],
    "prelude": PRELUDE + r'''
uint32_t g_rebuild_calls, g_resize_calls, g_cap;
void rebuild(struct theta_base* self) __CPROVER_assigns(g_rebuild_calls) __CPROVER_ensures(g_rebuild_calls == __CPROVER_old(g_rebuild_calls) + 1);
void resize(struct theta_base* self) __CPROVER_assigns(g_resize_calls) __CPROVER_ensures(g_resize_calls == __CPROVER_old(g_resize_calls) + 1);
''',
    "parts": [hash_and_screen, get_capacity, starting_sub_multiple, starting_theta_from_p,
              {"raw": "uint32_t get_capacity_c(uint8_t lg_cur_size, uint8_t lg_nom_size) __CPROVER_assigns() __CPROVER_ensures(__CPROVER_return_value == g_cap);\n#define get_capacity get_capacity_c\n"},
              trim, insert,
              {"raw": "#undef get_capacity\n"}],
    "harness": r'''
void h_screen(void) { struct theta_base* s; const void* d; size_t n; __CPROVER_assume(g_hash >> 63 == 0); hash_and_screen(s, d, n); VERIF_CANARY_POINT; }
void h_cap(void) { uint8_t a, b; get_capacity(a, b); VERIF_CANARY_POINT; }
void h_ssm(void) { uint8_t a, b, c; starting_sub_multiple(a, b, c); VERIF_CANARY_POINT; }
void h_stp(void) { float p; g_theta0 = (p < 1) ? (uint64_t)((double)theta_constants_MAX_THETA * p) : theta_constants_MAX_THETA; starting_theta_from_p(p); VERIF_CANARY_POINT; }
void h_trim(void) { struct theta_base* s; verif_exc = 0; trim(s); VERIF_CANARY_POINT; }
void h_insert(void) { struct theta_base* s; EN* it; EN e; verif_exc = 0; insert(s, it, e); VERIF_CANARY_POINT; }
''',
    "jobs": [
        {"name": "hash_and_screen", "entry": "h_screen", "enforce": "hash_and_screen", "replace": ["compute_hash"]},
        {"name": "get_capacity", "entry": "h_cap", "enforce": "get_capacity", "timeout": 300},
        {"name": "starting_sub_multiple", "entry": "h_ssm", "enforce": "starting_sub_multiple"},
        {"name": "starting_theta_from_p", "entry": "h_stp", "enforce": "starting_theta_from_p", "timeout": 300},
        {"name": "trim", "entry": "h_trim", "enforce": "trim", "replace": ["rebuild"]},
        {"name": "insert", "entry": "h_insert", "enforce": "insert", "replace": ["rebuild", "resize", "get_capacity_c"]},
    ],
    "assumptions": ["compute_hash is any value (ghost g_hash) here; MurmurHash3 >> 1 is decided in C10",
                    "resize/rebuild are replaced by counting contracts in trim/insert; their own contracts are in unit theta_restructure"],
}
