F = "theta/include/theta_update_sketch_base_impl.hpp"
H = "theta/include/theta_update_sketch_base.hpp"

PRELUDE = r'''
typedef uint64_t EN;
#define KEY(x) (x)
typedef struct { EN* first; bool second; } find_result;
'''

get_stride = {
    "name": "get_stride", "file": F,
    "match": r"uint32_t\s+theta_update_sketch_base<EN, EK, A>::get_stride\(uint64_t key, uint8_t lg_size\)",
    "sig": "uint32_t get_stride(uint64_t key, uint8_t lg_size)",
    "contract": r'''
__CPROVER_requires(lg_size <= 31)
__CPROVER_ensures((__CPROVER_return_value & 1) == 1 && __CPROVER_return_value <= 255)
__CPROVER_assigns()
''',
}

find = {
    "name": "find", "file": F,
    "match": r"auto\s+theta_update_sketch_base<EN, EK, A>::find\(EN\* entries, uint8_t lg_size, uint64_t key\)",
    "sig": "find_result find(EN* entries, uint8_t lg_size, uint64_t key)",
    "throw_rv": "(find_result){0, false}",
    "rules": [(r"std::pair<iterator, bool>\(([^;]*)\);", r"(find_result){\1};", 2)],
    "contract": r'''
__CPROVER_requires(lg_size >= 1 && lg_size <= 27)
__CPROVER_requires(__CPROVER_is_fresh(entries, ((size_t)1 << lg_size) * sizeof(EN)))
__CPROVER_requires(g_old == KEY(entries[g_i & (((uint32_t)1 << lg_size) - 1)]))
__CPROVER_assigns(verif_exc)
/* result designates a slot of the table */
__CPROVER_ensures(verif_exc == 0 ==> __CPROVER_pointer_in_range_dfcc(entries, __CPROVER_return_value.first, entries + (((size_t)1 << lg_size) - 1)))
__CPROVER_ensures(verif_exc == 0 ==> (__CPROVER_same_object(__CPROVER_return_value.first, entries)
   && __CPROVER_POINTER_OFFSET(__CPROVER_return_value.first) < ((size_t)1 << lg_size) * sizeof(EN)
   && __CPROVER_POINTER_OFFSET(__CPROVER_return_value.first) % sizeof(EN) == 0))
/* found => slot holds the key ; not found => slot is empty (insertion point) */
__CPROVER_ensures(verif_exc == 0 ==> (__CPROVER_return_value.second ? KEY(*__CPROVER_return_value.first) == key : KEY(*__CPROVER_return_value.first) == 0))
/* the home slot is the first one probed: a key stored at its home slot, or an empty home slot, is reported */
__CPROVER_ensures((key != 0 && KEY(entries[(uint32_t)key & (((uint32_t)1 << lg_size) - 1)]) == key) ==> (verif_exc == 0 && __CPROVER_return_value.second))
__CPROVER_ensures(KEY(entries[(uint32_t)key & (((uint32_t)1 << lg_size) - 1)]) == 0 ==> (verif_exc == 0 && !__CPROVER_return_value.second
   && __CPROVER_return_value.first == &entries[(uint32_t)key & (((uint32_t)1 << lg_size) - 1)]))
/* the table itself is never written */
__CPROVER_ensures(KEY(entries[g_i & (((uint32_t)1 << lg_size) - 1)]) == g_old)
''',
    "nloops": 1,
    "loops": {1: r'''
__CPROVER_assigns(index)
__CPROVER_loop_invariant(index <= mask)
'''},
}

UNIT = {
    "id": "theta_find", "property": "C01",
    "clause": "hash-table probe (find/get_stride): for every table size 2..2^27 and every content, find returns a slot inside the "
              "table that holds the key (found) or is empty (insertion point), never writes the table, stride is odd (probe orbit "
              "covers the whole power-of-two table) - the basis of 'none missing, none twice'",
    "consts": [
        {"name": "STRIDE_HASH_BITS", "file": H, "match": r"static constexpr uint8_t STRIDE_HASH_BITS = ([^;]+);", "ctype": "uint8_t"},
        {"name": "STRIDE_MASK", "file": H, "match": r"static constexpr uint32_t STRIDE_MASK = ([^;]+);", "ctype": "uint32_t"},
    ],
    "prelude": PRELUDE + "uint32_t g_i; uint64_t g_old;\n",
    "parts": [get_stride, find],
    "harness": r'''
void h_find(void) {
  EN* e; uint8_t lg; uint64_t key;
  verif_exc = 0;
  __CPROVER_assume(lg >= 1 && lg <= 27);
  find_result r = find(e, lg, key);
  VERIF_CANARY_POINT;
}
void h_stride(void) {
  uint64_t key; uint8_t lg;
  uint32_t s = get_stride(key, lg);
  VERIF_CANARY_POINT;
}
''',
    "jobs": [
        {"name": "get_stride", "entry": "h_stride", "enforce": "get_stride", "timeout": 60},
        {"name": "find", "entry": "h_find", "enforce": "find", "replace": ["get_stride"], "loops": True,
         "expect_loop_steps": 1, "timeout": 120},
    ],
}
