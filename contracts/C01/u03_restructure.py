import crules
F = "theta/include/theta_update_sketch_base_impl.hpp"
H = "theta/include/theta_update_sketch_base.hpp"
TC = "theta/include/theta_constants.hpp"
MEMBERS = ["is_empty_", "lg_cur_size_", "lg_nom_size_", "rf_", "p_", "num_entries_", "theta_", "seed_", "entries_"]

PRELUDE = r'''
typedef uint64_t EN;
#define KEY(x) (x)
typedef struct { EN* first; bool second; } find_result;
struct theta_base { bool is_empty_; uint8_t lg_cur_size_; uint8_t lg_nom_size_; uint8_t rf_; float p_;
                    uint32_t num_entries_; uint64_t theta_; uint64_t seed_; EN* entries_; };
#define TSIZE(lg) (((size_t)1 << (lg)) * sizeof(EN))
#define VMIN_U8(a, b) ((uint8_t)VMIN((uint8_t)(a), (uint8_t)(b)))
uint32_t g_i, g_j; uint64_t g_old; uint64_t g_theta0; uint8_t g_lg0;
/* callee contracts (each proved in its own job: find in unit theta_find; helpers in unit theta_table) */
find_result find(EN* entries, uint8_t lg_size, uint64_t key)
  __CPROVER_requires(lg_size >= 1 && lg_size <= 27)
  __CPROVER_requires(__CPROVER_r_ok(entries, TSIZE(lg_size)))
  __CPROVER_assigns(verif_exc)
  __CPROVER_ensures(verif_exc == 0 ==> __CPROVER_pointer_in_range_dfcc(entries, __CPROVER_return_value.first, entries + (((size_t)1 << lg_size) - 1)))
  __CPROVER_ensures(verif_exc == 0 ==> (__CPROVER_same_object(__CPROVER_return_value.first, entries)
     && __CPROVER_POINTER_OFFSET(__CPROVER_return_value.first) < TSIZE(lg_size)
     && __CPROVER_POINTER_OFFSET(__CPROVER_return_value.first) % sizeof(EN) == 0))
  __CPROVER_ensures(verif_exc == 0 ==> (__CPROVER_return_value.second ? KEY(*__CPROVER_return_value.first) == key : KEY(*__CPROVER_return_value.first) == 0));
uint64_t starting_theta_from_p(float p) __CPROVER_assigns() __CPROVER_ensures(__CPROVER_return_value == g_theta0);
uint8_t starting_sub_multiple(uint8_t lg_tgt, uint8_t lg_min, uint8_t lg_rf) __CPROVER_assigns() __CPROVER_ensures(__CPROVER_return_value == g_lg0);
/* std::nth_element(first, nth, last, compare_by_key): TRUSTED to meet its specification; ghost-index form */
void nth_element_keys(EN* first, size_t nth, size_t num)
  __CPROVER_requires(nth < num && __CPROVER_rw_ok(first, num * sizeof(EN)))
  __CPROVER_assigns(__CPROVER_object_upto(first, num * sizeof(EN)))
  __CPROVER_ensures(g_j < num ==> (g_j < nth ? KEY(first[g_j]) <= KEY(first[nth]) : KEY(first[g_j]) >= KEY(first[nth])))
  __CPROVER_ensures(KEY(first[nth]) != 0);
void consolidate_non_empty(EN* entries, size_t size, size_t num)
  __CPROVER_requires(__CPROVER_rw_ok(entries, size * sizeof(EN)) && num <= size)
  __CPROVER_assigns(__CPROVER_object_upto(entries, size * sizeof(EN)));
'''

resize = {
    "name": "resize", "file": F, "members": MEMBERS,
    "match": r"void theta_update_sketch_base<EN, EK, A>::resize\(\)",
    "sig": "void resize(struct theta_base* self)",
    "rules": [(r"std::min<uint8_t>\(", "VMIN_U8(", 1),
              (r"new \(find\(([^;]*?)\)\.first\) EN\(std::move\(([^;]*?)\)\);", r"{ find_result fr_ = find(\1); VERIF_PROPAGATE; *(fr_.first) = \2; }", 1),
              crules.DTOR + (1,), crules.SWAP + (1,)] + crules.alloc_rules("EN", 1, 1),
    "nloops": 2,
    "contract": r'''
__CPROVER_requires(__CPROVER_is_fresh(self, sizeof(*self)) && self->lg_nom_size_ <= 26 && self->lg_cur_size_ >= 1 &&
                   self->lg_cur_size_ <= self->lg_nom_size_ && self->rf_ >= 1 && self->rf_ <= 3)
__CPROVER_requires(__CPROVER_is_fresh(self->entries_, TSIZE(self->lg_cur_size_)))
__CPROVER_requires(g_i < ((uint32_t)1 << self->lg_cur_size_) && g_old == KEY(self->entries_[g_i]))
__CPROVER_assigns(verif_exc, g_slot, self->entries_, self->lg_cur_size_, __CPROVER_object_whole(self->entries_))
__CPROVER_frees(self->entries_)
/* grows by the resize factor but never beyond twice the nominal size */
__CPROVER_ensures(verif_exc == 0 ==> self->lg_cur_size_ == VMIN_U8(__CPROVER_old(self->lg_cur_size_) + self->rf_, self->lg_nom_size_ + 1))
__CPROVER_ensures(verif_exc == 0 ==> self->lg_cur_size_ > __CPROVER_old(self->lg_cur_size_))
__CPROVER_ensures(verif_exc == 0 ==> __CPROVER_rw_ok(self->entries_, TSIZE(self->lg_cur_size_)))
__CPROVER_ensures(self->num_entries_ == __CPROVER_old(self->num_entries_) && self->theta_ == __CPROVER_old(self->theta_))
/* nothing lost: an arbitrary old entry (ghost slot g_i) is present in the new table at the end */
__CPROVER_ensures((verif_exc == 0 && g_old != 0) ==> (g_slot < ((size_t)1 << self->lg_cur_size_) && KEY(self->entries_[g_slot]) == g_old))
''',
    "loops": {
        1: r'''
__CPROVER_assigns(i, __CPROVER_object_whole(new_entries))
__CPROVER_loop_invariant(i <= new_size)
__CPROVER_loop_invariant(g_j < i ==> KEY(new_entries[g_j]) == 0)
__CPROVER_decreases(new_size - i)
''',
        2: r'''
__CPROVER_assigns(i, verif_exc, g_slot, __CPROVER_object_whole(new_entries), __CPROVER_object_whole(self->entries_))
__CPROVER_loop_invariant(i <= old_size && verif_exc == 0)
__CPROVER_loop_invariant(i <= g_i ==> KEY(self->entries_[g_i]) == g_old)
__CPROVER_loop_invariant((i > g_i && g_old != 0) ==> (g_slot < new_size && KEY(new_entries[g_slot]) == g_old))
__CPROVER_decreases(old_size - i)
'''},
    "inserts": [(r"\*\(fr_\.first\) = [^;]*;", "if (i == g_i) g_slot = (size_t)(fr_.first - new_entries);", "after", 1)],
}

rebuild = {
    "name": "rebuild", "file": F, "members": MEMBERS,
    "match": r"void theta_update_sketch_base<EN, EK, A>::rebuild\(\)",
    "sig": "void rebuild(struct theta_base* self)", "methods": [],
    "rules": [(r"std::nth_element\(self->entries_, self->entries_ \+ nominal_size, self->entries_ \+ self->num_entries_, comparator\(\)\);",
               "nth_element_keys(self->entries_, nominal_size, self->num_entries_);", 1),
              (r"new \(find\(([^;]*?)\)\.first\) EN\(std::move\(([^;]*?)\)\);", r"{ find_result fr_ = find(self->entries_, self->lg_cur_size_, \1); VERIF_PROPAGATE; *(fr_.first) = \2; }", 1),
              (r"old_entries\[i\]\.~EN\(\);", "(void)0;", 2)] + crules.alloc_rules("EN", 1, 1),
    "nloops": 3,
    "contract": r'''
__CPROVER_requires(__CPROVER_is_fresh(self, sizeof(*self)) && self->lg_nom_size_ <= 26 && self->lg_cur_size_ >= 1 &&
                   self->lg_cur_size_ == self->lg_nom_size_ + 1)
__CPROVER_requires(__CPROVER_is_fresh(self->entries_, TSIZE(self->lg_cur_size_)))
/* "assumes number of entries > nominal size" */
__CPROVER_requires(self->num_entries_ > ((uint32_t)1 << self->lg_nom_size_) && self->num_entries_ <= ((uint32_t)1 << self->lg_cur_size_))
__CPROVER_assigns(verif_exc, self->entries_, self->num_entries_, self->theta_, g_pivot, __CPROVER_object_whole(self->entries_))
__CPROVER_frees(self->entries_)
/* theta becomes the (k+1)-th smallest retained hash (the key nth_element puts at index k) and exactly k entries remain */
__CPROVER_ensures(self->theta_ == g_pivot && g_pivot != 0)
__CPROVER_ensures(verif_exc == 0 ==> self->num_entries_ == ((uint32_t)1 << self->lg_nom_size_))
__CPROVER_ensures(verif_exc == 0 ==> __CPROVER_rw_ok(self->entries_, TSIZE(self->lg_cur_size_)))
__CPROVER_ensures(self->lg_cur_size_ == __CPROVER_old(self->lg_cur_size_))
''',
    "inserts": [(r"self->theta_ = KEY\(self->entries_\[nominal_size\]\);", "g_pivot = KEY(self->entries_[nominal_size]);", "after", 1)],
    "loops": {
        1: r'''
__CPROVER_assigns(i, __CPROVER_object_whole(self->entries_))
__CPROVER_loop_invariant(i <= size)
__CPROVER_loop_invariant(g_j < i ==> KEY(self->entries_[g_j]) == 0)
__CPROVER_decreases(size - i)
''',
        2: r'''
__CPROVER_assigns(i, verif_exc, __CPROVER_object_whole(self->entries_))
__CPROVER_loop_invariant(i <= nominal_size && verif_exc == 0)
__CPROVER_decreases(nominal_size - i)
''',
        3: r'''
__CPROVER_assigns(i)
__CPROVER_loop_invariant(i >= nominal_size && i <= num_old_entries)
__CPROVER_decreases(num_old_entries - i)
'''},
}

reset = {
    "name": "reset", "file": F, "members": MEMBERS,
    "match": r"void theta_update_sketch_base<EN, EK, A>::reset\(\)",
    "sig": "void reset(struct theta_base* self)",
    "rules": [(r"theta_build_helper<true>::", "", "any"), (r"self->entries_\[i\]\.~EN\(\);", "(void)0;", 1)] + crules.alloc_rules("EN", 1, 1),
    "nloops": 2,
    "contract": r'''
__CPROVER_requires(__CPROVER_is_fresh(self, sizeof(*self)) && self->lg_nom_size_ <= 26 && self->lg_cur_size_ >= 1 &&
                   self->lg_cur_size_ <= self->lg_nom_size_ + 1 && self->rf_ <= 3 && g_lg0 >= 1 && g_lg0 <= self->lg_nom_size_ + 1)
__CPROVER_requires(__CPROVER_is_fresh(self->entries_, TSIZE(self->lg_cur_size_)))
__CPROVER_assigns(self->entries_, self->lg_cur_size_, self->num_entries_, self->theta_, self->is_empty_, __CPROVER_object_whole(self->entries_))
__CPROVER_frees(self->entries_)
/* back to the configured starting state: starting theta derived from p, starting table size, no entries, empty */
__CPROVER_ensures(self->theta_ == g_theta0)
__CPROVER_ensures(self->lg_cur_size_ == g_lg0 && __CPROVER_rw_ok(self->entries_, TSIZE(g_lg0)))
__CPROVER_ensures(self->num_entries_ == 0 && self->is_empty_)
__CPROVER_ensures(g_j < ((uint32_t)1 << g_lg0) ==> KEY(self->entries_[g_j]) == 0)
''',
    "loops": {
        1: r'''
__CPROVER_assigns(i, __CPROVER_object_whole(self->entries_))
__CPROVER_loop_invariant(i <= cur_size)
__CPROVER_loop_invariant(g_j < i ==> KEY(self->entries_[g_j]) == 0)
__CPROVER_decreases(cur_size - i)
''',
        2: r'''
__CPROVER_assigns(i, __CPROVER_object_whole(self->entries_))
__CPROVER_loop_invariant(i <= new_size)
__CPROVER_loop_invariant(g_j < i ==> KEY(self->entries_[g_j]) == 0)
__CPROVER_decreases(new_size - i)
'''},
}

UNIT = {
    "id": "theta_restructure", "property": "C01",
    "clause": "resize: new size = min(cur+rf, nominal+1), every old entry present afterwards (ghost slot), count/theta unchanged, old block released with "
              "its allocation size; rebuild: theta' = key at rank k after nth_element, exactly k entries re-inserted, (that each re-inserted key is below theta' needs a quantified permutation fact: bounded group only); reset: theta back to "
              "the start value derived from p, start table size, all slots empty, count 0, empty flag set",
    "consts": crules.THETA_CONSTS,
    "member_checks": [{"file": H, "members": MEMBERS}],
    "prelude": PRELUDE + "size_t g_slot; uint64_t g_pivot;\n",
    "parts": [resize, rebuild, reset],
    "harness": r'''
void h_resize(void) { struct theta_base* s; verif_exc = 0; resize(s); VERIF_CANARY_POINT; }
void h_rebuild(void) { struct theta_base* s; verif_exc = 0; rebuild(s); VERIF_CANARY_POINT; }
void h_reset(void) { struct theta_base* s; verif_exc = 0; reset(s); VERIF_CANARY_POINT; }
''',
    "jobs": [
        {"name": "resize", "entry": "h_resize", "enforce": "resize", "replace": ["find"], "loops": True, "expect_loop_steps": 2, "timeout": 300},
        {"name": "rebuild", "entry": "h_rebuild", "enforce": "rebuild", "replace": ["find", "nth_element_keys", "consolidate_non_empty"], "loops": True,
         "expect_loop_steps": 3, "timeout": 300},
        {"name": "reset", "entry": "h_reset", "enforce": "reset", "replace": ["starting_theta_from_p", "starting_sub_multiple"], "loops": True,
         "expect_loop_steps": 2, "timeout": 300},
    ],
    "assumptions": ["std::nth_element is trusted to meet its specification (contract nth_element_keys, ghost-index form)",
                    "consolidate_non_empty is replaced by a frame-only contract in rebuild (it only permutes the table; its set semantics is in the bounded group)",
                    "allocator never fails; placement-new move of an entry == assignment for EN=uint64_t"],
}
