import importlib.util, os
_spec = importlib.util.spec_from_file_location("c02_setops", os.path.join(os.path.dirname(os.path.abspath(__file__)), "u01_setops.py"))
S = importlib.util.module_from_spec(_spec); _spec.loader.exec_module(S)
IF = "theta/include/theta_intersection_base_impl.hpp"

PRELUDE = S.PRELUDE + r'''
#ifndef theta_constants_MAX_THETA
#define theta_constants_MAX_THETA ((uint64_t)0x7fffffffffffffffULL)
#endif
struct theta_isect { bool is_valid_; struct theta_base table_; };
/* ghost for the matching loop: whether entry g_e was looked up, and whether it was recorded as a match */
bool g_continue;   /* ghost: the state block fell through to the rest of update() */
bool g_e_looked, g_e_matched; uint32_t g_match_count, g_count; uint32_t g_max_matches;
void record_match(EN* slot) __CPROVER_assigns() __CPROVER_ensures(1);
'''
MEMBERS = ["is_valid_", "table_", "policy_"]

HEAD1 = {"raw": r'''
#undef VERIF_RV
#define VERIF_RV
#undef VERIF_UNWIND
#define VERIF_UNWIND
/* the first statements of theta_intersection_base::update (state rule: emptiness and theta), extracted as a region */
void isect_header(struct theta_isect* self, const struct csk* sketch)
__CPROVER_requires(__CPROVER_is_fresh(self, sizeof(*self)) && __CPROVER_is_fresh(sketch, sizeof(*sketch)) && verif_exc == 0)
__CPROVER_requires(!g_continue)
__CPROVER_assigns(verif_exc, self->table_.is_empty_, self->table_.theta_, g_continue)
/* update() goes on to look at the entries unless the intersection was already empty, the input was refused, or a valid intersection already has no entries */
__CPROVER_ensures((g_continue != 0) == (!__CPROVER_old(self->table_.is_empty_) && verif_exc == 0 && !(self->is_valid_ && self->table_.num_entries_ == 0)))
/* an intersection that is already empty stays as it is, whatever comes in */
__CPROVER_ensures(__CPROVER_old(self->table_.is_empty_) ==> (verif_exc == 0 && self->table_.is_empty_ && self->table_.theta_ == __CPROVER_old(self->table_.theta_)))
/* a non-empty input with another seed is refused */
__CPROVER_ensures((!__CPROVER_old(self->table_.is_empty_) && !sketch->is_empty && sketch->seed_hash != g_seed_hash) == (verif_exc != 0))
__CPROVER_ensures(verif_exc != 0 ==> (self->table_.is_empty_ == __CPROVER_old(self->table_.is_empty_) && self->table_.theta_ == __CPROVER_old(self->table_.theta_)))
/* otherwise: empty as soon as one input is empty (theta back to the maximum), else theta is the minimum of the previous theta and the input's theta */
__CPROVER_ensures((verif_exc == 0 && !__CPROVER_old(self->table_.is_empty_)) ==> ((self->table_.is_empty_ != 0) == (sketch->is_empty != 0)
    && self->table_.theta_ == (sketch->is_empty ? theta_constants_MAX_THETA : VMIN64(__CPROVER_old(self->table_.theta_), sketch->theta))))
{
'''}
REGION1 = {"name": "intersection_update_state_block", "file": IF, "members": MEMBERS,
           "begin": r"if \(table_\.is_empty_\) return;", "include_begin": True, "end": r"if \(sketch\.get_num_retained\(\) == 0\) \{",
           "rules": S.SKACC + [(r"compute_seed_hash\(self->table_\.seed_\)", "compute_seed_hash(self->table_.seed_)", 1)]}
TAIL = {"raw": "\n}\n"}

UNIT = {
    "id": "theta_intersection_state", "property": "C02",
    "clause": "theta_intersection_base::update state rule (first statements of update): an empty intersection stays empty; a non-empty input with another seed hash is refused with nothing changed; "
              "otherwise the result is empty as soon as one input is empty (theta = MAX_THETA) and else theta = min(previous theta, input theta)",
    "prelude": PRELUDE, "parts": [HEAD1, REGION1, {"raw": "\n g_continue = 1;\n}\n"}],
    "harness": "void h_isect_header(void) { struct theta_isect* s = malloc(sizeof(*s)); struct csk* k = malloc(sizeof(*k)); verif_exc = 0; isect_header(s, k); VERIF_CANARY_POINT; }\n",
    "jobs": [{"name": "isect_header", "entry": "h_isect_header", "enforce": "isect_header", "replace": ["compute_seed_hash"], "timeout": 300}],
    "assumptions": ["the block is extracted as a region of update() and wrapped in a function whose signature and contract are specification; compute_seed_hash enters as 'some fixed 16-bit value' (Murmur itself is decided in C10)",
                    "the input sketch is seen through its accessors (is_empty, get_seed_hash, get_theta64) as plain fields"],
}

PRELUDE2 = PRELUDE + r"""
uint64_t g_key;   /* ghost: the key of input entry g_e; the table's answer for that key is g_found (any answer for other keys) */
find_result find_k(struct theta_base* t, uint64_t key) __CPROVER_assigns(g_find_calls, g_last_find)
  __CPROVER_ensures(g_find_calls == __CPROVER_old(g_find_calls) + 1 && g_last_find == key && (key == g_key ==> __CPROVER_return_value.second == g_found) && __CPROVER_return_value.first == &g_dummy_slot);
"""
LOOPC = ("for (uint32_t si_ = 0; si_ < sketch->n; si_++)\n"
  "__CPROVER_assigns(si_, match_count, count, matched_n, verif_exc, g_find_calls, g_last_find, g_policy_calls, g_e_examined, g_e_looked, g_e_matched, g_broke, g_break_idx, __CPROVER_object_whole(matched_entries))\n"
  "__CPROVER_loop_invariant(si_ <= sketch->n && !g_broke && verif_exc == 0 && count == si_ && match_count <= count && match_count <= max_matches && matched_n == match_count && g_policy_calls == g_pol0 + match_count)\n"
  "__CPROVER_loop_invariant(g_e_examined == (si_ > g_e))\n"
  "__CPROVER_loop_invariant(g_e_examined ==> (g_e_looked == (KEY(sketch->e[g_e]) < self->table_.theta_) && g_e_matched == (g_e_looked && g_found)))\n"
  "__CPROVER_loop_invariant(!g_e_examined ==> (!g_e_looked && !g_e_matched))\n"
  "__CPROVER_decreases(sketch->n - si_)\n"
  "{ const EN entry = sketch->e[si_]; if (si_ == g_e) g_e_examined = 1;")
HEAD2 = {"raw": r"""
#undef VERIF_RV
#define VERIF_RV
#undef VERIF_UNWIND
#define VERIF_UNWIND
uint32_t g_pol0;
/* the matching loop of theta_intersection_base::update (the 'intersection' branch up to the rebuild of the table), extracted as a region */
void isect_match(struct theta_isect* self, const struct csk* sketch)
__CPROVER_requires(__CPROVER_is_fresh(self, sizeof(*self)) && WF_SK(sketch) && g_e < sketch->n && g_key == KEY(sketch->e[g_e]) && !g_e_examined && !g_e_looked && !g_e_matched && !g_broke && verif_exc == 0)
__CPROVER_requires(g_find_calls < 1000 && g_policy_calls < 1000 && g_pol0 == g_policy_calls)
__CPROVER_assigns(verif_exc, g_find_calls, g_last_find, g_policy_calls, g_e_examined, g_e_looked, g_e_matched, g_broke, g_break_idx, g_match_count, g_count, g_max_matches)
/* the scan stops early only on an ordered input and only at an entry that is not below theta */
__CPROVER_ensures(g_broke ==> (sketch->is_ordered && KEY(sketch->e[g_break_idx]) >= self->table_.theta_))
/* accepted: every entry before the stopping point (all entries of an unordered input) was examined */
__CPROVER_ensures((verif_exc == 0 && (!g_broke || g_e < g_break_idx)) ==> g_e_examined)
__CPROVER_ensures((verif_exc == 0 && !sketch->is_ordered) ==> (!g_broke && g_count == sketch->n))
/* an examined entry is looked up exactly if its key is below theta, and is a match exactly if it was looked up and the table holds the key */
__CPROVER_ensures((verif_exc == 0 && g_e_examined) ==> (g_e_looked == (KEY(sketch->e[g_e]) < self->table_.theta_) && g_e_matched == (g_e_looked && g_found)))
__CPROVER_ensures(!g_e_examined ==> (!g_e_looked && !g_e_matched))
/* counts: matches <= examined <= retained, matches <= min(table entries, retained); the policy ran once per match */
__CPROVER_ensures(verif_exc == 0 ==> (g_match_count <= g_count && g_count <= sketch->n && g_match_count <= g_max_matches && g_max_matches == VMIN64(self->table_.num_entries_, sketch->n) && g_policy_calls == g_pol0 + g_match_count))
{
"""}
REGION2 = {"name": "intersection_update_match_block", "file": IF, "members": MEMBERS,
           "begin": r"const uint32_t max_matches = std::min\(", "include_begin": True, "end": r"if \(match_count == 0\) \{",
           "rules": S.SKACC + [(r"sketch\.get_num_retained\(\)", "sketch->n", "any"),
                               (r"std::vector<EN, A> matched_entries\(self->table_\.allocator_\);\s*matched_entries\.reserve\(max_matches\);",
                                "EN* matched_entries = malloc(sizeof(EN) * (size_t)sketch->n); __CPROVER_assume(matched_entries != NULL); uint32_t matched_n = 0; g_max_matches = max_matches;", 1),
                               (r"for \(auto&& entry: sketch\) \{", LOOPC, 1),
                               (r"auto result = self->table_\.find\(KEY\(entry\)\);", "find_result result = find_k(&self->table_, KEY(entry)); if (si_ == g_e) g_e_looked = 1;", 1),
                               (r"self->policy_\(\*result\.first, conditional_forward<SS>\(entry\)\);", "policy_(result.first, entry);", 1),
                               (r"matched_entries\.push_back\(std::move\(\*result\.first\)\);", "matched_entries[matched_n++] = *result.first;", 1),
                               (r"\+\+match_count;", "++match_count; if (si_ == g_e) g_e_matched = 1;", 1),
                               (r"break;", "{ g_broke = 1; g_break_idx = si_; break; }", 1)]}
TAIL2 = {"raw": "\n g_match_count = match_count; g_count = count; free(matched_entries);\n}\n"}
UNIT2 = {
    "id": "theta_intersection_match", "property": "C02",
    "clause": "theta_intersection_base::update matching loop for every input size and content: an input entry is looked up in the table exactly if its key is below the (already minimised) theta and is "
              "recorded as a match exactly if the table holds it; the scan stops early only on an ordered input at an entry not below theta; an unordered input is examined completely; "
              "matches <= min(table entries, retained); the policy runs once per match",
    "prelude": PRELUDE2, "parts": [HEAD2, REGION2, TAIL2],
    "harness": "void h_isect_match(void) { struct theta_isect* s = malloc(sizeof(*s)); const struct csk* k; verif_exc = 0; isect_match(s, k); VERIF_CANARY_POINT; }\n",
    "jobs": [{"name": "isect_match", "entry": "h_isect_match", "enforce": "isect_match", "replace": ["find_k", "policy_"], "loops": True, "expect_loop_steps": 1, "timeout": 600}],
    "assumptions": ["the block is extracted as a region of update() and wrapped in a function whose signature and contract are specification",
                    "table_.find enters by a ghost contract: the answer for the key of the ghost entry is g_found, any answer for other keys (find itself: unit theta_find of C01); the policy is a counted call",
                    "the vector of matched entries is an array of get_num_retained() entries (growth never fails); the rebuild of the table from the matched entries after the loop is not under contract"],
}

PRELUDE3 = PRELUDE2 + r"""
uint8_t lg_size_from_count(uint32_t n, double load_factor) __CPROVER_assigns() __CPROVER_ensures(1);   /* any value here; its arithmetic is C01 theta_table */
#define REBUILD_THRESHOLD_C 0.9375
uint32_t g_new_calls; uint8_t g_new_lg; uint64_t g_new_theta; bool g_new_empty;
/* table_ = hash_table(lg_size, lg_size - 1, X1, 1, theta, seed, allocator, is_empty): a fresh table with no entries that keeps theta, seed and emptiness (ctor: C19 theta_lifecycle) */
void table_new(struct theta_base* t, uint8_t lg_cur, uint8_t lg_nom, uint64_t theta, uint64_t seed, bool is_empty)
  __CPROVER_assigns(t->num_entries_, t->lg_cur_size_, t->lg_nom_size_, g_new_calls) __CPROVER_ensures(t->num_entries_ == 0 && g_new_calls == __CPROVER_old(g_new_calls) + 1 && t->lg_cur_size_ == lg_cur);
/* insert by contract: one more entry (a rebuild inside insert may lower theta and drop entries: not on this path, the table was sized for the count - assumed) */
void insert_c(struct theta_base* t, EN* it, EN entry) __CPROVER_assigns(g_insert_calls, t->num_entries_)
  __CPROVER_ensures(g_insert_calls == __CPROVER_old(g_insert_calls) + 1 && t->num_entries_ == __CPROVER_old(t->num_entries_) + 1);
uint32_t g_ins0;
"""
LOOPC3 = ("for (uint32_t si_ = 0; si_ < sketch->n; si_++)\n"
  "__CPROVER_assigns(si_, verif_exc, g_find_calls, g_last_find, g_insert_calls, self->table_.num_entries_, g_e_examined, g_e_matched)\n"
  "__CPROVER_loop_invariant(si_ <= sketch->n && verif_exc == 0 && self->table_.num_entries_ == si_ && g_insert_calls == g_ins0 + si_)\n"
  "__CPROVER_loop_invariant(g_e_examined == (si_ > g_e) && g_e_matched == g_e_examined && (g_e_examined ==> !g_found))\n"
  "__CPROVER_decreases(sketch->n - si_)\n"
  "{ const EN entry = sketch->e[si_]; if (si_ == g_e) g_e_examined = 1;")
HEAD3 = {"raw": r"""
#undef VERIF_RV
#define VERIF_RV
#undef VERIF_UNWIND
#define VERIF_UNWIND
/* the first-update branch of theta_intersection_base::update (copy of the incoming sketch into a fresh table), extracted as a region */
void isect_first(struct theta_isect* self, const struct csk* sketch)
__CPROVER_requires(__CPROVER_is_fresh(self, sizeof(*self)) && WF_SK(sketch) && g_e < sketch->n && g_key == KEY(sketch->e[g_e]) && !g_e_examined && !g_e_matched && verif_exc == 0)
__CPROVER_requires(g_find_calls < 1000 && g_insert_calls < 1000 && g_ins0 == g_insert_calls && g_new_calls == 0)
__CPROVER_assigns(verif_exc, self->is_valid_, self->table_.num_entries_, self->table_.lg_cur_size_, self->table_.lg_nom_size_, g_new_calls, g_find_calls, g_last_find, g_insert_calls, g_e_examined, g_e_matched)
/* the intersection becomes valid, gets one fresh table, and keeps theta, seed and emptiness */
__CPROVER_ensures(self->is_valid_ && g_new_calls == 1 && self->table_.theta_ == __CPROVER_old(self->table_.theta_) && self->table_.seed_ == __CPROVER_old(self->table_.seed_))
/* accepted: every entry of the input was inserted exactly once (an arbitrary entry g_e was inserted; inserts == entries == retained) */
__CPROVER_ensures(verif_exc == 0 ==> (g_e_examined && g_e_matched && g_insert_calls == g_ins0 + sketch->n && self->table_.num_entries_ == sketch->n))
/* an input that holds the key of g_e twice (the table already has it when it comes up) is refused */
__CPROVER_ensures((g_found) ==> verif_exc != 0)
{
"""}
REGION3 = {"name": "intersection_update_first_block", "file": IF, "members": MEMBERS,
           "begin": r"is_valid_ = true;\s*const uint8_t lg_size = lg_size_from_count\(sketch\.get_num_retained\(\)", "include_begin": True, "end": r"\}\s*else\s*\{\s*const uint32_t max_matches",
           "rules": S.SKACC + [(r"sketch\.get_num_retained\(\)", "sketch->n", "any"),
                               (r"theta_update_sketch_base<EN, EK, A>::REBUILD_THRESHOLD", "REBUILD_THRESHOLD_C", 1),
                               (r"self->table_ = hash_table\(lg_size, lg_size - 1, resize_factor::X1, 1, self->table_\.theta_, self->table_\.seed_, self->table_\.allocator_, self->table_\.is_empty_\);",
                                "table_new(&self->table_, lg_size, lg_size - 1, self->table_.theta_, self->table_.seed_, self->table_.is_empty_);", 1),
                               (r"for \(auto&& entry: sketch\) \{", LOOPC3, 1),
                               (r"auto result = self->table_\.find\(KEY\(entry\)\);", "find_result result = find_k(&self->table_, KEY(entry));", 1),
                               (r"self->table_\.insert\(result\.first, conditional_forward<SS>\(entry\)\);", "insert_c(&self->table_, result.first, entry); if (si_ == g_e) g_e_matched = 1;", 1)]}
UNIT3 = {
    "id": "theta_intersection_first", "property": "C02",
    "clause": "theta_intersection_base::update first-update branch for every input size and content: the intersection becomes valid with one fresh table that keeps theta, seed and emptiness; every entry of "
              "the input is inserted exactly once; an input whose key is already in the table when it comes up (duplicate) is refused (the closing entry-count check cannot fail under the insert contract used here and is not exercised)",
    "prelude": PRELUDE3, "parts": [HEAD3, REGION3, TAIL],
    "harness": "void h_isect_first(void) { struct theta_isect* s = malloc(sizeof(*s)); const struct csk* k; verif_exc = 0; isect_first(s, k); VERIF_CANARY_POINT; }\n",
    "jobs": [{"name": "isect_first", "entry": "h_isect_first", "enforce": "isect_first", "replace": ["find_k", "insert_c", "table_new", "lg_size_from_count"], "loops": True, "expect_loop_steps": 1, "timeout": 600}],
    "assumptions": ["the block is extracted as a region of update() and wrapped in a function whose signature and contract are specification",
                    "hash_table construction, find and insert enter by ghost contracts (fresh empty table; answer g_found for the key of the ghost entry; one more entry per insert - a rebuild inside insert is not on this path because the table is sized from the count: assumed, lg_size_from_count is C01)"],
}

LOOPC4 = ("for (uint32_t i = 0; i < match_count; ++i)\n"
  "__CPROVER_assigns(i, g_find_calls, g_last_find, g_insert_calls, self->table_.num_entries_, g_e_examined)\n"
  "__CPROVER_loop_invariant(i <= match_count && self->table_.num_entries_ == i && g_insert_calls == g_ins0 + i && g_e_examined == (i > g_e))\n"
  "__CPROVER_decreases(match_count - i)\n"
  "{")
HEAD4 = {"raw": r"""
#undef VERIF_RV
#define VERIF_RV
#undef VERIF_UNWIND
#define VERIF_UNWIND
/* the closing block of the intersection branch of theta_intersection_base::update (new table from the matched entries), extracted as a region */
void isect_rebuild(struct theta_isect* self, const struct csk* sketch, const EN* matched_entries, uint32_t match_count)
__CPROVER_requires(__CPROVER_is_fresh(self, sizeof(*self)) && __CPROVER_is_fresh(sketch, sizeof(*sketch)) && match_count <= (1u << 27) && __CPROVER_is_fresh(matched_entries, (size_t)(match_count ? match_count : 1) * sizeof(EN)) && verif_exc == 0)
__CPROVER_requires((match_count == 0 || g_e < match_count) && !g_e_examined && g_find_calls < 1000 && g_insert_calls < 1000 && g_ins0 == g_insert_calls && g_new_calls == 0)
__CPROVER_assigns(self->table_.is_empty_, self->table_.num_entries_, self->table_.lg_cur_size_, self->table_.lg_nom_size_, g_new_calls, g_find_calls, g_last_find, g_insert_calls, g_e_examined)
/* one fresh table that keeps theta and seed; it holds exactly the matched entries (an arbitrary one, g_e, was inserted; inserts == matches) */
__CPROVER_ensures(verif_exc == 0 && g_new_calls == 1 && self->table_.theta_ == __CPROVER_old(self->table_.theta_) && self->table_.num_entries_ == match_count && g_insert_calls == g_ins0 + match_count)
__CPROVER_ensures(match_count != 0 ==> (g_e_examined && (self->table_.is_empty_ != 0) == (__CPROVER_old(self->table_.is_empty_) != 0)))
/* no match: minimal table; the result is the empty set exactly if it was empty already or theta is still the maximum (no sampling anywhere) */
__CPROVER_ensures(match_count == 0 ==> (self->table_.lg_cur_size_ == 0 && (self->table_.is_empty_ != 0) == (__CPROVER_old(self->table_.is_empty_) != 0 || self->table_.theta_ == theta_constants_MAX_THETA)))
{
"""}
REGION4 = {"name": "intersection_update_rebuild_block", "file": IF, "members": MEMBERS,
           "begin": r"if \(match_count == 0\) \{", "include_begin": True, "end": r"\}\s*\}\s*template<[^>]*>\s*CS theta_intersection_base<EN, EK, P, S, CS, A>::get_result",
           "rules": S.SKACC + [(r"sketch\.get_num_retained\(\)", "sketch->n", "any"), (r"theta_update_sketch_base<EN, EK, A>::REBUILD_THRESHOLD", "REBUILD_THRESHOLD_C", 1),
                     (r"self->table_ = hash_table\(([^,]+), ([^,]+), resize_factor::X1, 1, self->table_\.theta_, self->table_\.seed_, self->table_\.allocator_, self->table_\.is_empty_\);",
                      r"table_new(&self->table_, \1, \2, self->table_.theta_, self->table_.seed_, self->table_.is_empty_);", 2),
                     (r"for \(uint32_t i = 0; i < match_count; \+\+i\) \{", LOOPC4, 1),
                     (r"auto result = self->table_\.find\(KEY\(matched_entries\[i\]\)\);", "find_result result = find_k(&self->table_, KEY(matched_entries[i]));", 1),
                     (r"self->table_\.insert\(result\.first, std::move\(matched_entries\[i\]\)\);", "insert_c(&self->table_, result.first, matched_entries[i]); if (i == g_e) g_e_examined = 1;", 1)]}
UNIT4 = {
    "id": "theta_intersection_rebuild", "property": "C02",
    "clause": "theta_intersection_base::update closing block for every match count: one fresh table that keeps theta and seed and receives every matched entry exactly once; with no match the table is minimal and "
              "the result is the empty set exactly if it was empty already or theta is still MAX_THETA",
    "prelude": PRELUDE3, "parts": [HEAD4, REGION4, TAIL],
    "harness": "void h_isect_rebuild(void) { struct theta_isect* s = malloc(sizeof(*s)); const EN* m; const struct csk* k; verif_exc = 0; isect_rebuild(s, k, m, nondet_u32()); VERIF_CANARY_POINT; }\n",
    "jobs": [{"name": "isect_rebuild", "entry": "h_isect_rebuild", "enforce": "isect_rebuild", "replace": ["find_k", "insert_c", "table_new", "lg_size_from_count"], "loops": True, "expect_loop_steps": 1, "timeout": 600}],
    "assumptions": ["the block is extracted as a region of update() and wrapped in a function whose signature and contract are specification (matched_entries / match_count are its inputs)",
                    "hash_table construction, find and insert enter by the same ghost contracts as in theta_intersection_first"],
}

HEAD5 = {"raw": r"""
#undef VERIF_RV
#define VERIF_RV
#undef VERIF_UNWIND
#define VERIF_UNWIND
/* the no-retained-entries shortcut of theta_intersection_base::update, extracted as a region */
void isect_noretained(struct theta_isect* self, const struct csk* sketch)
__CPROVER_requires(__CPROVER_is_fresh(self, sizeof(*self)) && __CPROVER_is_fresh(sketch, sizeof(*sketch)) && verif_exc == 0 && g_new_calls == 0 && !g_continue)
__CPROVER_assigns(self->is_valid_, self->table_.num_entries_, self->table_.lg_cur_size_, self->table_.lg_nom_size_, g_new_calls, g_continue)
/* an input without retained entries makes the intersection valid with a minimal table without entries; theta, seed and emptiness (already settled by the state block) are kept */
__CPROVER_ensures(sketch->n == 0 ==> (!g_continue && self->is_valid_ && g_new_calls == 1 && self->table_.num_entries_ == 0 && self->table_.lg_cur_size_ == 0
    && self->table_.theta_ == __CPROVER_old(self->table_.theta_) && self->table_.seed_ == __CPROVER_old(self->table_.seed_) && self->table_.is_empty_ == __CPROVER_old(self->table_.is_empty_)))
/* any other input falls through with nothing changed */
__CPROVER_ensures(sketch->n != 0 ==> (g_continue && g_new_calls == 0 && self->is_valid_ == __CPROVER_old(self->is_valid_) && self->table_.num_entries_ == __CPROVER_old(self->table_.num_entries_)))
{
"""}
REGION5 = {"name": "intersection_update_no_retained_block", "file": IF, "members": MEMBERS,
           "begin": r"if \(sketch\.get_num_retained\(\) == 0\) \{", "include_begin": True, "end": r"if \(!is_valid_\) \{",
           "rules": [(r"sketch\.get_num_retained\(\)", "sketch->n", "any"),
                     (r"self->table_ = hash_table\(([^,]+), ([^,]+), resize_factor::X1, 1, self->table_\.theta_, self->table_\.seed_, self->table_\.allocator_, self->table_\.is_empty_\);",
                      r"table_new(&self->table_, \1, \2, self->table_.theta_, self->table_.seed_, self->table_.is_empty_);", 1)]}
UNIT5 = {
    "id": "theta_intersection_noretained", "property": "C02",
    "clause": "theta_intersection_base::update shortcut for an input without retained entries: the intersection becomes valid with a minimal table without entries and keeps theta, seed and emptiness; "
              "any other input falls through unchanged",
    "prelude": PRELUDE3, "parts": [HEAD5, REGION5, {"raw": "\n g_continue = 1;\n}\n"}],
    "harness": "void h_isect_noret(void) { struct theta_isect* s = malloc(sizeof(*s)); struct csk* k = malloc(sizeof(*k)); verif_exc = 0; isect_noretained(s, k); VERIF_CANARY_POINT; }\n",
    "jobs": [{"name": "isect_noretained", "entry": "h_isect_noret", "enforce": "isect_noretained", "replace": ["table_new"], "timeout": 300}],
    "assumptions": ["the block is extracted as a region of update() and wrapped in a function whose signature and contract are specification; hash_table construction enters by a ghost contract (fresh table without entries)"],
}
UNITS = [UNIT, UNIT2, UNIT3, UNIT4, UNIT5]
