import crules
UF = "theta/include/theta_union_base_impl.hpp"
SD = "theta/include/theta_set_difference_base_impl.hpp"

PRELUDE = r'''
typedef uint64_t EN;
#define KEY(x) (x)
typedef struct { EN* first; bool second; } find_result;
struct theta_base { bool is_empty_; uint8_t lg_cur_size_; uint8_t lg_nom_size_; uint8_t rf_; float p_; uint32_t num_entries_; uint64_t theta_; uint64_t seed_; EN* entries_; };
/* any theta sketch as the set operations see it: update, compact ordered/unordered, wrapped */
struct csk { bool is_empty; bool is_ordered; uint16_t seed_hash; uint64_t theta; const EN* e; uint32_t n; };
#define WF_SK(s) (__CPROVER_is_fresh(s, sizeof(*s)) && (s)->n <= (1u << 27) && (s)->n >= 1 && __CPROVER_is_fresh((s)->e, (size_t)(s)->n * sizeof(EN)))
struct theta_union { struct theta_base table_; uint64_t union_theta_; };
uint16_t g_seed_hash;
uint16_t compute_seed_hash(uint64_t seed) __CPROVER_assigns() __CPROVER_ensures(__CPROVER_return_value == g_seed_hash);
/* table operations by contract: find reports membership (ghost), insert may rebuild and thereby only ever lowers theta */
uint32_t g_find_calls, g_insert_calls, g_policy_calls; uint64_t g_last_find; bool g_found; EN g_dummy_slot;
find_result find_m(struct theta_base* t, uint64_t key) __CPROVER_assigns(g_find_calls, g_last_find)
  __CPROVER_ensures(g_find_calls == __CPROVER_old(g_find_calls) + 1 && g_last_find == key && __CPROVER_return_value.second == g_found && __CPROVER_return_value.first == &g_dummy_slot);
void insert(struct theta_base* t, EN* it, EN entry) __CPROVER_assigns(g_insert_calls, t->theta_, t->num_entries_)
  __CPROVER_ensures(g_insert_calls == __CPROVER_old(g_insert_calls) + 1 && t->theta_ <= __CPROVER_old(t->theta_));
void policy_(EN* existing, EN incoming) __CPROVER_assigns(g_policy_calls) __CPROVER_ensures(g_policy_calls == __CPROVER_old(g_policy_calls) + 1);
uint64_t g_theta0; void table_reset(struct theta_base* t) __CPROVER_assigns(t->theta_, t->num_entries_, t->is_empty_) __CPROVER_ensures(t->theta_ == g_theta0 && t->num_entries_ == 0 && t->is_empty_);
#define VMIN64(a, b) ((uint64_t)((b) < (a) ? (b) : (a)))
/* ghost entry index of the input sketch and what happened to it */
uint32_t g_e; bool g_e_examined, g_e_offered; uint64_t g_thr_at_e; bool g_broke; uint32_t g_break_idx;
'''

SKACC = [(r"sketch\.is_empty\(\)", "sketch->is_empty", "any"), (r"sketch\.get_seed_hash\(\)", "sketch->seed_hash", "any"), (r"sketch\.get_theta64\(\)", "sketch->theta", "any"),
         (r"sketch\.is_ordered\(\)", "sketch->is_ordered", "any"), (r"std::min\(", "VMIN64(", "any")]

union_update = {
    "name": "union_update", "file": UF, "members": ["table_", "union_theta_", "policy_"],
    "match": r"void theta_union_base<EN, EK, P, S, CS, A>::update\(SS&& sketch\)",
    "sig": "void union_update(struct theta_union* self, const struct csk* sketch)", "nloops": 1,
    "rules": SKACC + [(r"for \(auto&& entry: sketch\) \{", "for (uint32_t si_ = 0; si_ < sketch->n; si_++) { const EN entry = sketch->e[si_];", 1),
                      (r"auto result = self->table_\.find\(hash\);", "find_result result = find_m(&self->table_, hash);", 1),
                      (r"self->table_\.insert\(result\.first, conditional_forward<SS>\(entry\)\);", "insert(&self->table_, result.first, entry);", 1),
                      (r"self->policy_\(\*result\.first, conditional_forward<SS>\(entry\)\);", "policy_(result.first, entry);", 1)],
    "contract": r'''
__CPROVER_requires(__CPROVER_is_fresh(self, sizeof(*self)) && WF_SK(sketch) && g_e < sketch->n && !g_e_examined && !g_e_offered && !g_broke)
__CPROVER_requires(g_find_calls < 1000 && g_insert_calls < 1000 && g_policy_calls < 1000)
__CPROVER_assigns(verif_exc, self->table_.is_empty_, self->table_.theta_, self->table_.num_entries_, self->union_theta_, g_find_calls, g_last_find, g_insert_calls, g_policy_calls,
                  g_e_examined, g_e_offered, g_thr_at_e, g_broke, g_break_idx, g_thr_at_break, g_tth0)
/* an empty input changes nothing; a different seed is refused */
__CPROVER_ensures(sketch->is_empty ==> (verif_exc == 0 && self->union_theta_ == __CPROVER_old(self->union_theta_) && self->table_.is_empty_ == __CPROVER_old(self->table_.is_empty_) && g_find_calls == __CPROVER_old(g_find_calls)))
__CPROVER_ensures((!sketch->is_empty && sketch->seed_hash != g_seed_hash) == (verif_exc != 0))
/* theta of the union is the minimum of its previous theta, the input's theta and the table's (possibly lowered) theta; the union is no longer empty */
__CPROVER_ensures((verif_exc == 0 && !sketch->is_empty) ==> (self->union_theta_ == VMIN64(VMIN64(__CPROVER_old(self->union_theta_), sketch->theta), self->table_.theta_) && !self->table_.is_empty_))
/* the scan may stop early only on an ordered input, and only at an entry that is not below the current threshold */
__CPROVER_ensures(g_broke ==> (sketch->is_ordered && sketch->e[g_break_idx] >= g_thr_at_break))
/* every entry up to the stopping point (all entries if there was none) was examined; an examined entry below both thresholds of that moment was offered to the table */
__CPROVER_ensures((verif_exc == 0 && !sketch->is_empty && (!g_broke || g_e < g_break_idx)) ==> g_e_examined)
__CPROVER_ensures(g_e_examined ==> (g_e_offered == (sketch->e[g_e] < g_thr_at_e)))
''',
    "loops": {1: r'''
__CPROVER_assigns(si_, self->table_.theta_, self->table_.num_entries_, g_find_calls, g_last_find, g_insert_calls, g_policy_calls, g_e_examined, g_e_offered, g_thr_at_e, g_broke, g_break_idx, g_thr_at_break)
__CPROVER_loop_invariant(si_ <= sketch->n && !g_broke && self->table_.theta_ <= g_tth0)
__CPROVER_loop_invariant(g_e_examined == (si_ > g_e))
__CPROVER_loop_invariant(g_e_examined ==> (g_e_offered == (sketch->e[g_e] < g_thr_at_e)))
__CPROVER_loop_invariant(!g_e_examined ==> !g_e_offered)
__CPROVER_decreases(sketch->n - si_)
'''},
    "inserts": [(r"const uint64_t hash = KEY\(entry\);", "if (si_ == g_e) { g_e_examined = 1; g_thr_at_e = VMIN64(self->union_theta_, self->table_.theta_); }", "after", 1),
                (r"find_result result = find_m\(&self->table_, hash\);", "if (si_ == g_e) g_e_offered = 1;", "after", 1),
                (r"if \(sketch->is_ordered\) break;", "{ g_thr_at_break = VMIN64(self->union_theta_, self->table_.theta_); if (sketch->is_ordered) { g_broke = 1; g_break_idx = si_; } }", "before", 1),
                (r"self->table_\.is_empty_ = false;", "g_tth0 = self->table_.theta_;", "after", 1)],
}

union_reset = {
    "name": "union_reset", "file": UF, "members": ["table_", "union_theta_", "policy_"],
    "match": r"void theta_union_base<EN, EK, P, S, CS, A>::reset\(\)",
    "sig": "void union_reset(struct theta_union* self)",
    "rules": [(r"self->table_\.reset\(\);", "table_reset(&self->table_);", 1)],
    "contract": r'''
__CPROVER_requires(__CPROVER_is_fresh(self, sizeof(*self)))
__CPROVER_assigns(self->table_.theta_, self->table_.num_entries_, self->table_.is_empty_, self->union_theta_)
/* back to the configured starting state: the union's theta is the table's starting theta AFTER the table was reset */
__CPROVER_ensures(self->union_theta_ == g_theta0 && self->table_.theta_ == g_theta0 && self->table_.is_empty_ && self->table_.num_entries_ == 0)
''',
}

# ---------------------------------------------------------------- A-not-B
ANB_PRE = r'''
struct anb { uint16_t seed_hash_; };
uint32_t g_a, g_b; bool g_a_examined, g_a_kept, g_b_examined, g_b_inserted, g_found_a; bool g_ret_copy_a; bool g_res_is_empty, g_res_ordered; uint64_t g_res_theta; uint32_t g_res_n;
uint32_t g_copyif_calls, g_setdiff_calls, g_sort_calls;
uint8_t lg_size_from_count(uint32_t n, double load_factor) __CPROVER_assigns() __CPROVER_ensures(__CPROVER_return_value >= 1 && __CPROVER_return_value <= 27);
void table_ctor_c(struct theta_base* t, uint8_t lg) __CPROVER_assigns(*t) __CPROVER_ensures(1);
void table_insert_found_c(struct theta_base* t, uint64_t hash) __CPROVER_assigns(g_insert_calls) __CPROVER_ensures(g_insert_calls == __CPROVER_old(g_insert_calls) + 1);
/* lookup of A's ghost entry in the table built from B: ghost answer g_found_a; other lookups arbitrary */
find_result find_a(struct theta_base* t, uint64_t key, uint32_t idx) __CPROVER_assigns(g_find_calls)
  __CPROVER_ensures(g_find_calls == __CPROVER_old(g_find_calls) + 1 && (idx == g_a ==> __CPROVER_return_value.second == g_found_a));
void copy_if_less_c(const struct csk* a, uint64_t theta) __CPROVER_assigns(g_copyif_calls, g_res_n) __CPROVER_ensures(g_copyif_calls == __CPROVER_old(g_copyif_calls) + 1);
void set_difference_c(const struct csk* a, const struct csk* b, uint64_t theta) __CPROVER_assigns(g_setdiff_calls, g_res_n) __CPROVER_ensures(g_setdiff_calls == __CPROVER_old(g_setdiff_calls) + 1);
void sort_c(void) __CPROVER_assigns(g_sort_calls) __CPROVER_ensures(g_sort_calls == __CPROVER_old(g_sort_calls) + 1);
#define hash_table_REBUILD_THRESHOLD (15.0 / 16.0)
#define theta_constants_MAX_THETA ((uint64_t)0x7fffffffffffffffULL)
'''
ACC2 = [(r"\b([ab])\.is_empty\(\)", r"\1->is_empty", "any"), (r"\b([ab])\.get_num_retained\(\)", r"\1->n", "any"), (r"\b([ab])\.get_seed_hash\(\)", r"\1->seed_hash", "any"),
        (r"\b([ab])\.get_theta64\(\)", r"\1->theta", "any"), (r"\b([ab])\.is_ordered\(\)", r"\1->is_ordered", "any"), (r"std::min\(", "VMIN64(", "any")]
anb_compute = {
    "name": "anb_compute", "file": SD, "members": ["seed_hash_"],
    "match": r"CS theta_set_difference_base<EN, EK, CS, A>::compute\(FwdSketch&& a, const Sketch& b, bool ordered\) const",
    "sig": "void anb_compute(const struct anb* self, const struct csk* a, const struct csk* b, bool ordered)", "nloops": 2,
    "rules": ACC2 + [
        (r"return CS\(a, ordered\);", "{ g_ret_copy_a = 1; return; }", 1),
        (r"std::vector<EN, A> entries\((?:self->)?allocator_\);", "uint32_t entries_n_ = 0;", 1),
        (r"std::copy_if\(forward_begin\([^;]*?key_less_than<uint64_t, EN, EK>\(theta\)\);", "copy_if_less_c(a, theta);", 1),
        (r"std::set_difference\([^;]*?comparator\(\)\);", "set_difference_c(a, b, theta);", 1),
        (r"hash_table table\(lg_size, lg_size, hash_table::resize_factor::X1, 1, 0, 0, (?:self->)?allocator_\);", "struct theta_base table_s_; struct theta_base* table = &table_s_; table_ctor_c(table, lg_size);", 1),
        (r"for \(const auto& entry: b\) \{", "for (uint32_t bi_ = 0; bi_ < b->n; bi_++) { const EN entry = b->e[bi_]; if (bi_ == g_b) g_b_examined = 1;", 1),
        (r"table\.insert\(table\.find\(hash\)\.first, hash\);", "{ table_insert_found_c(table, hash); if (bi_ == g_b) g_b_inserted = 1; }", 1),
        (r"for \(auto&& entry: a\) \{", "for (uint32_t ai_ = 0; ai_ < a->n; ai_++) { const EN entry = a->e[ai_]; if (ai_ == g_a) g_a_examined = 1;", 1),
        (r"auto result = table\.find\(hash\);", "find_result result = find_a(table, hash, ai_);", 1),
        (r"entries\.push_back\(conditional_forward<FwdSketch>\(entry\)\);", "{ entries_n_++; if (ai_ == g_a) g_a_kept = 1; }", 1),
        (r"entries\.empty\(\)", "(entries_n_ == 0 && g_res_n == 0)", 1),
        (r"std::sort\(entries\.begin\(\), entries\.end\(\), comparator\(\)\);", "sort_c();", 1),
        (r"return CS\(is_empty, a->is_ordered \|\| ordered, self->seed_hash_, theta, std::move\(entries\)\);", "{ g_res_is_empty = is_empty; g_res_ordered = a->is_ordered || ordered; g_res_theta = theta; return; }", 1)],
    "contract": r'''
__CPROVER_requires(__CPROVER_is_fresh(self, sizeof(*self)) && WF_SK(a) && WF_SK(b) && g_a < a->n && g_b < b->n)
__CPROVER_requires(!g_a_examined && !g_a_kept && !g_b_examined && !g_b_inserted && !g_ret_copy_a && g_res_n == 0 && g_insert_calls < 1000 && g_find_calls < 1000 && g_copyif_calls < 10 && g_setdiff_calls < 10 && g_sort_calls < 10)
__CPROVER_assigns(verif_exc, g_ret_copy_a, g_res_is_empty, g_res_ordered, g_res_theta, g_res_n, g_a_examined, g_a_kept, g_b_examined, g_b_inserted, g_find_calls, g_insert_calls, g_copyif_calls, g_setdiff_calls, g_sort_calls)
/* documented shortcuts: an empty A, or a non-empty-result A against an empty B, is returned as is */
__CPROVER_ensures(g_ret_copy_a == (a->is_empty || (a->n > 0 && b->is_empty)))
__CPROVER_ensures((!g_ret_copy_a && (a->seed_hash != self->seed_hash_ || b->seed_hash != self->seed_hash_)) == (verif_exc != 0))
/* theta of the result is the minimum of both thetas */
__CPROVER_ensures((!g_ret_copy_a && verif_exc == 0) ==> g_res_theta == VMIN64(a->theta, b->theta))
/* hash-based path (B has entries, not both ordered): an unordered B is scanned completely and every entry of B below theta goes into the lookup table;
   an unordered A is scanned completely, and an examined entry of A is kept iff it is below theta and not found in B */
__CPROVER_ensures((!g_ret_copy_a && verif_exc == 0 && b->n > 0 && !(a->is_ordered && b->is_ordered) && !b->is_ordered) ==> (g_b_examined && g_b_inserted == (b->e[g_b] < g_res_theta)))
__CPROVER_ensures((!g_ret_copy_a && verif_exc == 0 && b->n > 0 && !(a->is_ordered && b->is_ordered) && !a->is_ordered) ==> g_a_examined)
__CPROVER_ensures(g_a_examined ==> (g_a_kept == (a->e[g_a] < g_res_theta && !g_found_a)))
__CPROVER_ensures(g_b_examined ==> (g_b_inserted == (b->e[g_b] < g_res_theta)))
/* the sorted-merge path is taken exactly when both inputs are ordered; with no entries in B, A is filtered by theta */
__CPROVER_ensures((!g_ret_copy_a && verif_exc == 0) ==> (g_setdiff_calls == __CPROVER_old(g_setdiff_calls) + ((b->n > 0 && a->is_ordered && b->is_ordered) ? 1 : 0) && g_copyif_calls == __CPROVER_old(g_copyif_calls) + (b->n == 0 ? 1 : 0)))
/* the result is sorted on request (A's order is kept otherwise) */
__CPROVER_ensures((!g_ret_copy_a && verif_exc == 0) ==> (g_res_ordered == (a->is_ordered || ordered) && g_sort_calls == __CPROVER_old(g_sort_calls) + ((ordered && !a->is_ordered) ? 1 : 0)))
''',
    "loops": {1: r'''
__CPROVER_assigns(bi_, g_b_examined, g_b_inserted, g_insert_calls)
__CPROVER_loop_invariant(bi_ <= b->n && g_b_examined == (bi_ > g_b) && (g_b_examined ==> (g_b_inserted == (b->e[g_b] < theta))) && (!g_b_examined ==> !g_b_inserted))
__CPROVER_decreases(b->n - bi_)
''', 2: r'''
__CPROVER_assigns(ai_, entries_n_, g_a_examined, g_a_kept, g_find_calls)
__CPROVER_loop_invariant(ai_ <= a->n && entries_n_ <= ai_ && g_a_examined == (ai_ > g_a) && (g_a_examined ==> (g_a_kept == (a->e[g_a] < theta && !g_found_a))) && (!g_a_examined ==> !g_a_kept))
__CPROVER_decreases(a->n - ai_)
'''},
}

UNIT = {
    "id": "theta_setops", "property": "C02",
    "clause": "theta set operations over any input form (sketch view: empty flag, ordered flag, seed hash, theta, entries): union update - empty input is a no-op, foreign seed refused, "
              "theta' = min(theta, input theta, table theta'), the scan stops early only on ordered inputs at an entry not below the threshold, every entry before that is examined and offered "
              "to the table iff below both thresholds; union reset restores the starting theta after the table reset; A-not-B - shortcuts, seed checks, theta = min, an unordered B / A is "
              "scanned completely, an entry of A is kept iff below theta and not found in B, sorted-merge path iff both ordered, result sorted on request",
    "prelude": PRELUDE + "uint64_t g_thr_at_break, g_tth0;\n" + ANB_PRE,
    "parts": [union_update, union_reset, anb_compute],
    "harness": r'''
void h_union_update(void) { struct theta_union* u; const struct csk* s; verif_exc = 0; union_update(u, s); VERIF_CANARY_POINT; }
void h_union_reset(void) { struct theta_union* u; union_reset(u); VERIF_CANARY_POINT; }
void h_anb(void) { const struct anb* d; const struct csk* a; const struct csk* b; bool o; verif_exc = 0; anb_compute(d, a, b, o); VERIF_CANARY_POINT; }
''',
    "jobs": [
        {"name": "union_update", "entry": "h_union_update", "enforce": "union_update", "replace": ["compute_seed_hash", "find_m", "insert", "policy_"], "loops": True, "expect_loop_steps": 1, "timeout": 600},
        {"name": "union_reset", "entry": "h_union_reset", "enforce": "union_reset", "replace": ["table_reset"]},
        {"name": "a_not_b_compute", "entry": "h_anb", "enforce": "anb_compute", "loops": True, "expect_loop_steps": 2, "timeout": 600, "object_bits": 10,
         "replace": ["lg_size_from_count", "table_ctor_c", "table_insert_found_c", "find_a", "copy_if_less_c", "set_difference_c", "sort_c"]},
    ],
    "assumptions": ["input sketches are seen through (is_empty, is_ordered, seed_hash, theta, entries[n]); range-for over a sketch is rendered as an indexed loop in iteration order",
                    "table operations (find/insert, proved in C01) are used by contract; insert only ever lowers the table's theta (rebuild)",
                    "that entries after an early stop on an ordered input are all >= the stopping entry is sortedness of ordered sketches (paper step, not a contract here)",
                    "std::copy_if / std::set_difference / std::sort and the result construction are replaced by recording contracts; exact set algebra over whole results is not decided here",
                    "Jaccard index and its bounds: floating point ratios, not decided"],
}
