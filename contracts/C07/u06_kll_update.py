KS = "kll/include/kll_sketch_impl.hpp"
M = ["k_", "m_", "min_k_", "num_levels_", "is_level_zero_sorted_", "n_", "levels_", "items_", "items_size_", "min_item_", "max_item_", "sorted_view_"]
PRELUDE = r'''
typedef uint64_t T;
struct optT { bool has; T v; };
struct kll { uint16_t k_; uint8_t m_; uint16_t min_k_; uint8_t num_levels_; bool is_level_zero_sorted_; uint64_t n_; uint32_t* levels_; T* items_; uint32_t items_size_;
             struct optT min_item_; struct optT max_item_; void* sorted_view_; };
#define comparator_(a, b) ((a) < (b))     /* C = std::less<T> */
uint32_t g_reset_calls, g_compress_calls; T g_min0, g_max0;
bool kll_is_empty(const struct kll* s) __CPROVER_assigns() __CPROVER_ensures(__CPROVER_return_value == (s->n_ == 0));
/* check_update_item: for integral T every item is accepted (the NaN refusal exists for floating-point T only) */
bool check_update_item(T item) __CPROVER_assigns() __CPROVER_ensures(__CPROVER_return_value);
/* compress_while_updating: ASSUMED to make room at level 0 (levels_[0] > 0 afterwards) inside the items array; its halving kernels are C08, its level arithmetic is not under contract */
void compress_while_updating(struct kll* self) __CPROVER_assigns(g_compress_calls, self->levels_[0], self->num_levels_)
  __CPROVER_ensures(g_compress_calls == __CPROVER_old(g_compress_calls) + 1 && self->levels_[0] > 0 && self->levels_[0] <= self->items_size_);
void reset_sorted_view(struct kll* self) __CPROVER_assigns(g_reset_calls, self->sorted_view_)
  __CPROVER_ensures(g_reset_calls == __CPROVER_old(g_reset_calls) + 1 && self->sorted_view_ == NULL);
#define HAS_EXTREMES(s) ((s)->n_ > 0 ==> ((s)->min_item_.has && (s)->max_item_.has && (s)->min_item_.v <= (s)->max_item_.v))
'''
OPT = [(r"(?<![\w.>])is_empty\(\)", "kll_is_empty(self)", "any"),
       (r"self->(min|max)_item_\.emplace\(([^;]*)\);", r"self->\1_item_ = (struct optT){true, \2};", "any"),
       (r"\*self->(min|max)_item_", r"self->\1_item_.v", "any")]
update_min_max = {
    "name": "update_min_max", "file": KS, "members": M, "match": r"void kll_sketch<T, C, A>::update_min_max\(const T& item\)", "sig": "void update_min_max(struct kll* self, T item)", "nloops": 0,
    "rules": OPT,
    "contract": r'''
__CPROVER_requires(__CPROVER_rw_ok(self, sizeof(*self)) && HAS_EXTREMES(self) && g_min0 == self->min_item_.v && g_max0 == self->max_item_.v)
__CPROVER_assigns(self->min_item_, self->max_item_)
/* min and max are the exact extremes of what was there and the new item */
__CPROVER_ensures(self->min_item_.has && self->max_item_.has)
__CPROVER_ensures(self->min_item_.v == (self->n_ == 0 ? item : (item < g_min0 ? item : g_min0)))
__CPROVER_ensures(self->max_item_.v == (self->n_ == 0 ? item : (g_max0 < item ? item : g_max0)))
__CPROVER_ensures(self->min_item_.v <= item && item <= self->max_item_.v)
''',
}
internal_update = {
    "name": "internal_update", "file": KS, "members": M, "match": r"uint32_t kll_sketch<T, C, A>::internal_update\(\)", "sig": "uint32_t internal_update(struct kll* self)", "nloops": 0,
    "methods": ["compress_while_updating"],
    "contract": r'''
__CPROVER_requires(__CPROVER_rw_ok(self, sizeof(*self)) && __CPROVER_rw_ok(self->levels_, 2 * sizeof(uint32_t)) && self->levels_[0] <= self->items_size_ && self->n_ < UINT64_MAX && g_compress_calls == 0)
__CPROVER_assigns(self->n_, self->is_level_zero_sorted_, self->levels_[0], self->num_levels_, g_compress_calls)
/* n counts the item; the slot handed out is the new start of level 0, inside the items array; a compaction happens exactly when level 0 had no room */
__CPROVER_ensures(self->n_ == __CPROVER_old(self->n_) + 1 && !self->is_level_zero_sorted_ && __CPROVER_return_value == self->levels_[0] && __CPROVER_return_value < self->items_size_)
__CPROVER_ensures(g_compress_calls == (__CPROVER_old(self->levels_[0]) == 0 ? 1 : 0))
__CPROVER_ensures(__CPROVER_old(self->levels_[0]) != 0 ==> (self->levels_[0] == __CPROVER_old(self->levels_[0]) - 1 && self->num_levels_ == __CPROVER_old(self->num_levels_)))
''',
}
update = {
    "name": "kll_update", "file": KS, "members": M, "match": r"void kll_sketch<T, C, A>::update\(FwdT&& item\)", "sig": "void kll_update(struct kll* self, T item)", "nloops": 0,
    "pre_rules": [(r"static_cast<const T&>\(item\)", "item", 1)],
    "rules": [(r"new \(&self->items_\[index\]\) T\(std::forward<FwdT>\(item\)\);", "self->items_[index] = item;", 1)],
    "methods": ["update_min_max", "internal_update", "reset_sorted_view"],
    "contract": r'''
__CPROVER_requires(__CPROVER_rw_ok(self, sizeof(*self)) && __CPROVER_rw_ok(self->levels_, 2 * sizeof(uint32_t)) && self->items_size_ >= 1 && self->items_size_ <= (1u << 24) && __CPROVER_rw_ok(self->items_, (size_t)self->items_size_ * sizeof(T)))
__CPROVER_requires(self->levels_[0] <= self->items_size_ && self->n_ < UINT64_MAX && g_compress_calls == 0 && g_reset_calls == 0 && HAS_EXTREMES(self) && g_min0 == self->min_item_.v && g_max0 == self->max_item_.v)
__CPROVER_assigns(self->n_, self->is_level_zero_sorted_, self->levels_[0], self->num_levels_, g_compress_calls, self->min_item_, self->max_item_, g_reset_calls, self->sorted_view_, __CPROVER_object_whole(self->items_))
/* an accepted item: n + 1, the item sits at the new start of level 0 (weight 1), the extremes are exact, the cached sorted view is dropped */
__CPROVER_ensures(self->n_ == __CPROVER_old(self->n_) + 1 && self->levels_[0] < self->items_size_ && self->items_[self->levels_[0]] == item && g_reset_calls == 1 && self->sorted_view_ == NULL)
__CPROVER_ensures(self->min_item_.has && self->max_item_.has && self->min_item_.v == (__CPROVER_old(self->n_) == 0 ? item : (item < g_min0 ? item : g_min0)) && self->max_item_.v == (__CPROVER_old(self->n_) == 0 ? item : (g_max0 < item ? item : g_max0)))
''',
}
UNIT = {
    "id": "kll_update", "property": "C07",
    "clause": "kll_sketch::update, update_min_max and internal_update (uint64_t items): n grows by exactly one per accepted item, min and max are the exact extremes of the old extremes and the item, "
              "the item is stored at the new start of level 0 inside the items array, a compaction is triggered exactly when level 0 has no room, and the cached sorted view is dropped",
    "prelude": PRELUDE, "parts": [update_min_max, internal_update, update],
    "harness": r'''
static struct kll* mk_k(void) { struct kll* s = malloc(sizeof(*s)); __CPROVER_assume(s != NULL); s->levels_ = malloc(sizeof(uint32_t) * 2); __CPROVER_assume(s->levels_ != NULL);
  uint32_t n = nondet_u32(); __CPROVER_assume(n >= 1 && n <= (1u << 24)); s->items_ = malloc(sizeof(T) * (size_t)n); __CPROVER_assume(s->items_ != NULL); s->items_size_ = n; return s; }
void h_umm(void) { struct kll* s = mk_k(); update_min_max(s, nondet_u64()); VERIF_CANARY_POINT; }
void h_iu(void) { struct kll* s = mk_k(); (void)internal_update(s); VERIF_CANARY_POINT; }
void h_upd(void) { struct kll* s = mk_k(); kll_update(s, nondet_u64()); VERIF_CANARY_POINT; }
''',
    "jobs": [{"name": "update_min_max", "entry": "h_umm", "enforce": "update_min_max", "replace": ["kll_is_empty"], "timeout": 300},
             {"name": "internal_update", "entry": "h_iu", "enforce": "internal_update", "replace": ["compress_while_updating"], "timeout": 300},
             {"name": "update", "entry": "h_upd", "enforce": "kll_update", "replace": ["check_update_item", "update_min_max", "internal_update", "reset_sorted_view"], "timeout": 300}],
    "assumptions": ["compress_while_updating enters by an assumed contract (makes room at level 0 inside the items array); its halving kernels are decided in C08, its level arithmetic is not under contract",
                    "items are uint64_t with std::less: check_update_item accepts every item (the NaN refusal of floating-point items is not exercised); optional<T> is (has, value); placement new is an assignment"],
}
