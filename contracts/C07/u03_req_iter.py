RS = "req/include/req_sketch_impl.hpp"
RC = "req/include/req_compactor_impl.hpp"
M = ["levels_it_", "levels_end_", "compactor_it_"]
CM = ["lg_weight_", "hra_", "coin_", "sorted_", "section_size_raw_", "section_size_", "num_sections_", "state_", "num_items_", "capacity_", "items_"]

PRELUDE = r'''
typedef uint64_t T;
struct reqc { uint8_t lg_weight_; bool hra_; bool coin_; bool sorted_; float section_size_raw_; uint32_t section_size_; uint8_t num_sections_;
              uint64_t state_; uint32_t num_items_; uint32_t capacity_; T* items_; };
struct req_it { const struct reqc* levels_it_; const struct reqc* levels_end_; const T* compactor_it_; };
#ifndef NCOMP
#define NCOMP 4
#endif
const struct reqc* g_levels;   /* the sketch's compactor array (ghost base pointer) */
#define LEVEL_INDEX(p) ((size_t)((p) - g_levels))
/* iterator validity: at the end, or pointing at a live item of the current compactor */
#define RIT_OK(it) ((it)->levels_it_ == (it)->levels_end_ || \
    ((it)->compactor_it_ >= req_begin((it)->levels_it_) && (it)->compactor_it_ < req_end((it)->levels_it_)))
'''

begin_c = {"name": "req_begin", "file": RC, "members": CM, "match": r"const T\* req_compactor<T, C, A>::begin\(\) const",
           "sig": "const T* req_begin(const struct reqc* self)"}
end_c = {"name": "req_end", "file": RC, "members": CM, "match": r"const T\* req_compactor<T, C, A>::end\(\) const",
         "sig": "const T* req_end(const struct reqc* self)"}

ITER_RULES = [(r"\(\*self->levels_it_\)\.begin\(\)", "req_begin(self->levels_it_)", "any"), (r"\(\*self->levels_it_\)\.end\(\)", "req_end(self->levels_it_)", "any")]

ctor = {
    "name": "req_const_iterator_ctor", "file": RS, "ctor": True, "members": M,
    "match": r"req_sketch<T, C, A>::const_iterator::const_iterator\(LevelsIterator begin, LevelsIterator end\)",
    "sig": "void req_const_iterator_ctor(struct req_it* self, const struct reqc* begin, const struct reqc* end)",
    "rules": [(r"CTOR_INIT\(begin == end \? NULL : \(\*self->levels_it_\)\.begin\(\)\)", "CTOR_INIT(begin == end ? NULL : req_begin(self->levels_it_))", 1)] + ITER_RULES,
    "nloops": 1, "loops": {},
}
incr = {
    "name": "req_const_iterator_incr", "file": RS, "members": M,
    "match": r"auto req_sketch<T, C, A>::const_iterator::operator\+\+\(\)",
    "sig": "void req_const_iterator_incr(struct req_it* self)", "rules": ITER_RULES + [(r"return \*this;", "return;", 1)], "nloops": 1,
}

HARNESS = r'''
/* NCOMP compactors with arbitrary (well-formed) fill, any of them may be empty; begin/end of the sketch's compactor vector */
static struct reqc comps[NCOMP]; static T storage[NCOMP][8];
static void setup(void) {
  g_levels = comps;
  for (int c = 0; c < NCOMP; c++) {
    comps[c].hra_ = nondet_bool(); comps[c].capacity_ = 8; comps[c].num_items_ = nondet_u32(); comps[c].items_ = storage[c]; comps[c].lg_weight_ = (uint8_t)c;
    __CPROVER_assume(comps[c].num_items_ <= 8);
  }
}
void h_ctor(void) {
  setup(); struct req_it it; uint32_t nb = nondet_u32(); __CPROVER_assume(nb <= NCOMP);
  req_const_iterator_ctor(&it, comps + nb, comps + NCOMP);   /* begin() passes nb == 0, end() passes nb == NCOMP */
  __CPROVER_assert(RIT_OK(&it), "after construction the iterator is at the end or points at a live item");
  /* begin() == end() exactly when nothing is retained from there on (ghost compactor g_c) */
  uint32_t g_c = nondet_u32(); __CPROVER_assume(g_c >= nb && g_c < NCOMP);
  __CPROVER_assert((it.levels_it_ == it.levels_end_) ==> comps[g_c].num_items_ == 0, "iterator is at the end only if every remaining compactor is empty");
  __CPROVER_assert((it.levels_it_ != it.levels_end_ && g_c < LEVEL_INDEX(it.levels_it_)) ==> comps[g_c].num_items_ == 0, "only empty compactors are skipped");
  VERIF_CANARY_POINT;
}
void h_incr(void) {
  setup(); struct req_it it; uint32_t lv = nondet_u32(); uint32_t off = nondet_u32(); __CPROVER_assume(lv < NCOMP && off < comps[lv].num_items_);
  it.levels_it_ = comps + lv; it.levels_end_ = comps + NCOMP; it.compactor_it_ = req_begin(comps + lv) + off;
  const T* before = it.compactor_it_;
  req_const_iterator_incr(&it);
  __CPROVER_assert(RIT_OK(&it), "after ++ the iterator is at the end or points at a live item");
  __CPROVER_assert((it.levels_it_ == comps + lv) ==> it.compactor_it_ == before + 1, "within a compactor ++ advances by one item");
  uint32_t g_c = nondet_u32(); __CPROVER_assume(g_c > lv && g_c < NCOMP);
  __CPROVER_assert((it.levels_it_ != comps + lv && (it.levels_it_ == it.levels_end_ || g_c < LEVEL_INDEX(it.levels_it_))) ==> comps[g_c].num_items_ == 0, "only empty compactors are skipped");
  __CPROVER_assert((it.levels_it_ != comps + lv && it.levels_it_ != it.levels_end_) ==> it.compactor_it_ == req_begin(it.levels_it_), "a new compactor is entered at its first item");
  VERIF_CANARY_POINT;
}
'''

UNIT = {
    "id": "req_iterator", "property": "C07",
    "clause": "REQ iterator (bounded: 4..6 compactors of capacity 8, any fill incl. empty ones, both accuracy modes): after construction and after ++ it is at the end or "
              "points at a live item; empty compactors - including the single empty compactor of an empty sketch - are skipped, so begin() == end() exactly when nothing is retained",
    "prelude": PRELUDE,
    "parts": [begin_c, end_c, ctor, incr],
    "harness": HARNESS,
    "jobs": [
        {"name": "ctor_%dcompactors" % n, "entry": "h_ctor", "defines": {"NCOMP": n}, "unwind": n + 2, "timeout": 600, "kind": "bounded",
         "bound": "%d compactors of capacity 8 (the loops walk std::vector iterators = pointers; loop contracts cannot close pointer-walking loops in this cbmc)" % n,
         "tier": "quick" if n == 4 else "thorough"} for n in (4, 6)] + [
        {"name": "incr_%dcompactors" % n, "entry": "h_incr", "defines": {"NCOMP": n}, "unwind": n + 2, "timeout": 600, "kind": "bounded",
         "bound": "%d compactors of capacity 8" % n, "tier": "quick" if n == 4 else "thorough"} for n in (4, 6)],
    "replay": {"*": {"template": "quantiles_object.cpp", "vars": {}}},
    "assumptions": ["std::vector<Compactor>::const_iterator is modelled as a pointer into an array of compactors"],
}
