KS = "kll/include/kll_sketch_impl.hpp"
KH = "kll/include/kll_helper_impl.hpp"
import os
NL = int(os.environ.get("VERIF_KLL_NL", "61"))   # levels arrays have at most 61 levels (ub_on_num_levels of a 64-bit n)

MONO = " && ".join("(%d >= (n) || (L)[%d] <= (L)[%d])" % (h, h, h + 1) for h in range(NL))
SUMW = " + ".join("(%d < (n) ? ((uint64_t)1 << %d) * ((L)[%d] - (L)[%d]) : 0)" % (h, h, h + 1, h) for h in range(NL))
PRELUDE = r'''
typedef uint64_t T;
struct kll_it { const T* items; const uint32_t* levels; uint8_t num_levels; uint32_t index; uint8_t level; uint64_t weight; };
#define MAXLV %d
/* levels[0..n] is non-decreasing (written out: n <= MAXLV) */
#define MONO(L, n) (%s)
/* total weight of the retained items: sum over levels h of 2^h * (levels[h+1] - levels[h]) */
#define SUMW(L, n) (%s)
#define WF_LEVELS(L, n) ((n) >= 1 && (n) <= MAXLV && __CPROVER_is_fresh(L, ((size_t)MAXLV + 1) * sizeof(uint32_t)) && (L)[n] <= (1u << 30))
/* level boundaries are non-decreasing: stated for one arbitrary ghost level g_h (universally quantified by the harness); the level-h conclusions below are claimed for h == g_h */
#define MONO_G(L, n) (g_h < (n) ==> (L)[g_h] <= (L)[g_h + 1])
/* iterator coherence (the property: every visited item carries weight 2^level of the level that contains it) */
#define IT_OK(it) ((it)->index == (it)->levels[(it)->num_levels] || \
   ((it)->level < (it)->num_levels && (it)->levels[(it)->level] <= (it)->index && (it)->index < (it)->levels[(it)->level + 1] && (it)->weight == ((uint64_t)1 << (it)->level)))
/* the same, with the upper end of the level claimed for the ghost level only */
#define IT_OK_G(it) ((it)->index == (it)->levels[(it)->num_levels] || \
   ((it)->level < (it)->num_levels && (it)->levels[(it)->level] <= (it)->index && ((it)->level == g_h ==> (it)->index < (it)->levels[(it)->level + 1]) && (it)->weight == ((uint64_t)1 << (it)->level)))
''' % (NL, MONO, SUMW)

ctor = {
    "name": "kll_const_iterator_ctor", "file": KS, "ctor": True, "members": ["index", "level", "weight"],
    "match": r"kll_sketch<T, C, A>::const_iterator::const_iterator\(const T\* items, const uint32_t\* levels, const uint8_t num_levels\)",
    "sig": "void kll_const_iterator_ctor(struct kll_it* self, const T* items, const uint32_t* levels, const uint8_t num_levels)", "nloops": 1,
    "contract": r'''
__CPROVER_requires(__CPROVER_is_fresh(self, sizeof(*self)) && WF_LEVELS(levels, num_levels) && MONO_G(levels, num_levels))
__CPROVER_assigns(__CPROVER_object_whole(self))
__CPROVER_ensures(self->levels == levels && self->num_levels == num_levels && self->items == items)
/* begin (items != null): positioned at the first retained item with the weight of ITS level, or at the end if nothing is retained; end (items == null): at the end */
__CPROVER_ensures(IT_OK_G(self))
__CPROVER_ensures(items != NULL ==> self->index == levels[0])
__CPROVER_ensures(items == NULL ==> self->index == levels[num_levels])
''',
    "loops": {1: r'''
__CPROVER_assigns(self->level, self->weight)
__CPROVER_loop_invariant(self->level <= num_levels && self->weight == ((uint64_t)1 << self->level))
__CPROVER_loop_invariant(items != NULL ==> self->index == levels[self->level])
__CPROVER_decreases(num_levels - self->level)
'''},
}

incr = {
    "name": "kll_const_iterator_incr", "file": KS, "members": ["items", "levels", "num_levels", "index", "level", "weight"],
    "match": r"typename kll_sketch<T, C, A>::const_iterator& kll_sketch<T, C, A>::const_iterator::operator\+\+\(\)",
    "sig": "void kll_const_iterator_incr(struct kll_it* self)", "nloops": 1,
    "rules": [(r"return \*this;", "return;", 1)],
    "contract": r'''
__CPROVER_requires(__CPROVER_is_fresh(self, sizeof(*self)) && WF_LEVELS(self->levels, self->num_levels) && MONO_G(self->levels, self->num_levels))
__CPROVER_requires(IT_OK(self) && self->index != self->levels[self->num_levels])
__CPROVER_assigns(self->index, self->level, self->weight, g_first)
/* next retained item (empty levels skipped), again with the weight of its level; or the end */
__CPROVER_ensures(self->index == __CPROVER_old(self->index) + 1 && IT_OK_G(self))
''',
    "loops": {1: r'''
__CPROVER_assigns(self->level, self->weight, g_first)
__CPROVER_loop_invariant(self->level <= self->num_levels && self->weight == ((uint64_t)1 << self->level))
/* do-while: the loop head is reached initially (g_first) or through the back edge, i.e. with the guard true */
__CPROVER_loop_invariant(self->level < self->num_levels && (g_first ? self->index == self->levels[self->level + 1] : (self->index == self->levels[self->level] && self->levels[self->level] == self->levels[self->level + 1])))
__CPROVER_decreases(self->num_levels - self->level)
'''},
    "inserts": [(r"if \(self->index == self->levels\[self->level \+ 1\]\) \{", "g_first = 1;", "after", 1), (r"self->weight \*= 2;", "g_first = 0;", "after", 1)],
}

sum_weights = {
    "name": "sum_the_sample_weights", "file": KH, "match": r"uint64_t kll_helper::sum_the_sample_weights\(uint8_t num_levels, const uint32_t\* levels\)",
    "sig": "uint64_t sum_the_sample_weights(uint8_t num_levels, const uint32_t* levels)", "nloops": 1,
    "contract": r'''
__CPROVER_requires(WF_LEVELS(levels, num_levels))
__CPROVER_assigns()
__CPROVER_ensures(__CPROVER_return_value == SUMW(levels, num_levels))
''',
    "loops": {1: r'''
__CPROVER_assigns(lvl, total, weight)
__CPROVER_loop_invariant(lvl <= num_levels && weight == ((uint64_t)1 << lvl) && total == SUMW(levels, lvl))
__CPROVER_decreases(num_levels - lvl)
'''},
}

UNIT = {
    "id": "kll_iterator", "property": "C07",
    "clause": "KLL: for every levels array (1..61 levels, any boundaries), the iterator is positioned - after construction and after every ++ - at a retained item "
              "carrying weight 2^level of the level that contains it, skipping empty levels (also an empty level 0), or at the end; it advances by exactly one item; "
              "sum_the_sample_weights equals the sum over levels of 2^h * population (so weights of a well-formed sketch sum to n)",
    "prelude": "uint8_t g_h;\n" + PRELUDE + "bool g_first;\n",
    "parts": [ctor, incr, sum_weights],
    "harness": r'''
void h_ctor(void) { struct kll_it* it; const T* items; const uint32_t* lv; uint8_t n; kll_const_iterator_ctor(it, items, lv, n); VERIF_CANARY_POINT; }
void h_incr(void) { struct kll_it* it; kll_const_iterator_incr(it); VERIF_CANARY_POINT; }
void h_sum(void) { const uint32_t* lv; uint8_t n; sum_the_sample_weights(n, lv); VERIF_CANARY_POINT; }
''',
    "jobs": [
        {"name": "const_iterator_ctor", "entry": "h_ctor", "enforce": "kll_const_iterator_ctor", "loops": True, "expect_loop_steps": 1, "timeout": 600},
        {"name": "const_iterator_incr", "entry": "h_incr", "enforce": "kll_const_iterator_incr", "loops": True, "expect_loop_steps": 1, "timeout": 600},
        {"name": "sum_the_sample_weights", "entry": "h_sum", "enforce": "sum_the_sample_weights", "loops": True, "expect_loop_steps": 1, "timeout": 600},
    ],
    "replay": {"*": {"template": "quantiles_object.cpp", "vars": {}}},
    "assumptions": ["'iterating yields exactly num_retained entries whose weights sum to n' follows from the per-step coherence + sum_the_sample_weights == n (checked by the sketch itself) by induction over the iteration (paper step)"],
}
