KS = "kll/include/kll_sketch_impl.hpp"
KH = "kll/include/kll_sketch.hpp"
M = ["k_", "m_", "min_k_", "num_levels_", "is_level_zero_sorted_", "n_", "levels_", "items_", "items_size_", "min_item_", "max_item_", "sorted_view_"]

PRELUDE = r'''
typedef uint64_t T;
struct optT { bool has; T v; };
struct kll { uint16_t k_; uint8_t m_; uint16_t min_k_; uint8_t num_levels_; bool is_level_zero_sorted_; uint64_t n_; uint32_t* levels_; T* items_; uint32_t items_size_;
             struct optT min_item_; struct optT max_item_; void* sorted_view_; };
#define comparator_(a, b) ((a) < (b))     /* C = std::less<T> */
uint32_t g_upd_calls, g_mhl_calls, g_reset_calls, g_assert_calls; uint64_t g_mhl_n; uint32_t g_idx;
bool kll_is_empty(const struct kll* s) __CPROVER_assigns() __CPROVER_ensures(__CPROVER_return_value == (s->n_ == 0));
bool kll_is_estimation_mode(const struct kll* s) __CPROVER_assigns() __CPROVER_ensures(__CPROVER_return_value == (s->num_levels_ > 1));
uint32_t internal_update(struct kll* self) __CPROVER_assigns(g_upd_calls) __CPROVER_ensures(g_upd_calls == __CPROVER_old(g_upd_calls) + 1 && __CPROVER_return_value == g_idx);
void merge_higher_levels(struct kll* self, const struct kll* other, uint64_t final_n)
  __CPROVER_assigns(g_mhl_calls, g_mhl_n) __CPROVER_ensures(g_mhl_calls == __CPROVER_old(g_mhl_calls) + 1 && g_mhl_n == final_n);
void assert_correct_total_weight(struct kll* self) __CPROVER_assigns(g_assert_calls) __CPROVER_ensures(g_assert_calls == __CPROVER_old(g_assert_calls) + 1);
void reset_sorted_view(struct kll* self) __CPROVER_assigns(g_reset_calls, self->sorted_view_)
  __CPROVER_ensures(g_reset_calls == __CPROVER_old(g_reset_calls) + 1 && self->sorted_view_ == NULL);
#define VMIN16(a, b) ((uint16_t)((b) < (a) ? (b) : (a)))
'''

merge = {
    "name": "kll_merge", "file": KS, "members": M,
    "match": r"void kll_sketch<T, C, A>::merge\(FwdSk&& other\)",
    "sig": "void kll_merge(struct kll* self, const struct kll* other)",
    "rules": [(r"conditional_forward<FwdSk>\(", "(", None),
              (r"other\.is_empty\(\)", "kll_is_empty(other)", 1), (r"other\.is_estimation_mode\(\)", "kll_is_estimation_mode(other)", 1),
              (r"(?<![\w.>])is_empty\(\)", "kll_is_empty(self)", 1),
              (r"self->(min|max)_item_\.emplace\(([^;]*)\);", r"self->\1_item_ = (struct optT){true, \2};", 2),
              (r"\*other\.(min|max)_item_", r"other->\1_item_.v", None), (r"\*self->(min|max)_item_", r"self->\1_item_.v", None),
              (r"new \(&self->items_\[index\]\) T\(\(other\.items_\[i\]\)\);", "g_last_src = i; (void)index;", 1),
              (r"other\.", "other->", None), (r"std::min\(", "VMIN16(", 1)],
    "methods": ["internal_update", "merge_higher_levels", "assert_correct_total_weight", "reset_sorted_view"], "nloops": 1,
    "contract": r'''
__CPROVER_requires(__CPROVER_is_fresh(self, sizeof(*self)) && __CPROVER_is_fresh(other, sizeof(*other)) && __CPROVER_is_fresh(other->levels_, 8 * sizeof(uint32_t)))
__CPROVER_requires(other->levels_[0] <= other->levels_[1] && other->levels_[1] <= (1u << 20) && self->n_ < ((uint64_t)1 << 62) && other->n_ < ((uint64_t)1 << 62))
__CPROVER_requires(g_upd_calls < 1000 && g_reset_calls < 1000 && g_mhl_calls < 1000 && g_min0 == self->min_item_.v && g_max0 == self->max_item_.v)
/* a non-empty sketch carries its extremes */
__CPROVER_requires((self->n_ > 0 ==> (self->min_item_.has && self->max_item_.has && self->min_item_.v <= self->max_item_.v)) && (other->n_ > 0 ==> (other->min_item_.has && other->max_item_.has && other->min_item_.v <= other->max_item_.v)))
__CPROVER_assigns(verif_exc, self->min_item_, self->max_item_, self->n_, self->min_k_, self->sorted_view_, g_upd_calls, g_mhl_calls, g_mhl_n, g_reset_calls, g_assert_calls, g_last_src, g_upd0)
/* merging an empty sketch changes nothing; incompatible m is refused */
__CPROVER_ensures(other->n_ == 0 ==> (verif_exc == 0 && self->n_ == __CPROVER_old(self->n_) && g_upd_calls == __CPROVER_old(g_upd_calls) && g_reset_calls == __CPROVER_old(g_reset_calls)))
__CPROVER_ensures((other->n_ != 0 && self->m_ != other->m_) == (verif_exc != 0))
/* n adds up; min and max are exactly the extremes of both operands */
__CPROVER_ensures((verif_exc == 0 && other->n_ != 0) ==> self->n_ == __CPROVER_old(self->n_) + other->n_)
__CPROVER_ensures((verif_exc == 0 && other->n_ != 0) ==> (self->min_item_.has && self->min_item_.v == (__CPROVER_old(self->n_) == 0 ? other->min_item_.v : (other->min_item_.v < g_min0 ? other->min_item_.v : g_min0))))
__CPROVER_ensures((verif_exc == 0 && other->n_ != 0) ==> (self->max_item_.has && self->max_item_.v == (__CPROVER_old(self->n_) == 0 ? other->max_item_.v : (other->max_item_.v > g_max0 ? other->max_item_.v : g_max0))))
/* every level-0 item of the operand is re-inserted one by one, higher levels are merged iff the operand has any, the total-weight check runs, the cached sorted view is dropped */
__CPROVER_ensures((verif_exc == 0 && other->n_ != 0) ==> g_upd_calls == __CPROVER_old(g_upd_calls) + (other->levels_[1] - other->levels_[0]))
__CPROVER_ensures((verif_exc == 0 && other->n_ != 0) ==> g_mhl_calls == __CPROVER_old(g_mhl_calls) + (other->num_levels_ >= 2 ? 1 : 0))
__CPROVER_ensures((verif_exc == 0 && other->n_ != 0 && other->num_levels_ >= 2) ==> g_mhl_n == __CPROVER_old(self->n_) + other->n_)
__CPROVER_ensures((verif_exc == 0 && other->n_ != 0) ==> (g_reset_calls == __CPROVER_old(g_reset_calls) + 1 && self->sorted_view_ == NULL && g_assert_calls == __CPROVER_old(g_assert_calls) + 1))
__CPROVER_ensures((verif_exc == 0 && other->n_ != 0) ==> self->min_k_ == (other->num_levels_ > 1 ? VMIN16(__CPROVER_old(self->min_k_), other->min_k_) : __CPROVER_old(self->min_k_)))
''',
    "loops": {1: r'''
__CPROVER_assigns(i, g_upd_calls, g_last_src)
__CPROVER_loop_invariant(i >= other->levels_[0] && i <= other->levels_[1] && g_upd_calls == g_upd0 + (i - other->levels_[0]))
__CPROVER_decreases(other->levels_[1] - i)
'''},
    "inserts": [(r"const uint64_t final_n = self->n_ \+ other->n_;", "g_upd0 = g_upd_calls;", "after", 1)],
}

UNIT = {
    "id": "kll_merge", "property": "C07",
    "clause": "KLL merge (bookkeeping): n adds up, min/max become exactly the extremes of both operands (also when the operand's range encloses the receiver's), an empty operand "
              "changes nothing, incompatible m is refused, every level-0 item of the operand is re-inserted, higher levels merged iff present with the summed n, the "
              "total-weight self-check runs and the cached sorted view is dropped",
    "prelude": PRELUDE + "uint32_t g_upd0, g_last_src; T g_min0, g_max0;\n",
    "member_checks": [{"file": KH, "members": ["min_k_", "num_levels_", "is_level_zero_sorted_", "levels_", "items_size_", "min_item_", "sorted_view_"]}],
    "parts": [merge],
    "harness": r'''
void h_merge(void) { struct kll* a; const struct kll* b; verif_exc = 0; kll_merge(a, b); VERIF_CANARY_POINT; }
''',
    "jobs": [{"name": "merge", "entry": "h_merge", "enforce": "kll_merge", "loops": True, "expect_loop_steps": 1, "timeout": 300,
              "replace": ["kll_is_empty", "kll_is_estimation_mode", "internal_update", "merge_higher_levels", "assert_correct_total_weight", "reset_sorted_view"]}],
    "replay": {"*": {"template": "quantiles_object.cpp", "vars": {}}},
    "assumptions": ["T = uint64_t with std::less; optional<T> is (has, value); conditional_forward is identity for trivially copyable T",
                    "internal_update / merge_higher_levels / assert_correct_total_weight / reset_sorted_view are replaced by recording contracts here"],
}
