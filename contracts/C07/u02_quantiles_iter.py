QS = "quantiles/include/quantiles_sketch_impl.hpp"
M = ["base_buffer_", "levels_", "level_", "index_", "bb_count_", "bit_pattern_", "weight_", "k_"]

PRELUDE = r'''
typedef uint64_t T;
struct level { T* data; size_t size; size_t cap; };
struct levels_vec { struct level* data; size_t size; };
struct q_it { const struct level* base_buffer_; const struct levels_vec* levels_; int level_; uint32_t index_; uint32_t bb_count_;
              uint64_t bit_pattern_; uint64_t weight_; uint16_t k_; };
uint64_t g_bp0; uint32_t g_bb0;   /* bit pattern n/(2k) and base-buffer count n%(2k) of the sketch (ghost) */
uint32_t compute_base_buffer_items(uint16_t k, uint64_t n) __CPROVER_assigns() __CPROVER_ensures(__CPROVER_return_value == g_bb0);
uint64_t compute_bit_pattern(uint16_t k, uint64_t n) __CPROVER_assigns() __CPROVER_ensures(__CPROVER_return_value == g_bp0);
#define AT_END(it) (((it)->level_ >= 0 && (it)->bit_pattern_ == 0) || ((it)->level_ == -1 && g_bp0 == 0 && (it)->index_ == g_n))
/* iterator coherence: base-buffer items weigh 1; a visited level h has its bit set in n/(2k) and its items weigh 2^(h+1) */
#define QIT_OK(it) ((it)->level_ >= -1 && (it)->level_ <= 64 && \
   ((it)->level_ == -1 ? ((it)->weight_ == 1 && (it)->bit_pattern_ == g_bp0) \
                       : ((it)->level_ < 64 && (it)->bit_pattern_ == (g_bp0 >> (it)->level_) && ((it)->bit_pattern_ == 0 || (((it)->bit_pattern_ & 1) == 1 && (it)->weight_ == ((uint64_t)2 << (it)->level_))))))
uint64_t g_n;
'''

ctor = {
    "name": "quantiles_const_iterator_ctor", "file": QS, "ctor": True, "members": M,
    "match": r"quantiles_sketch<T, C, A>::const_iterator::const_iterator\(const Level& base_buffer,\s*const std::vector<Level, AllocLevel>& levels,\s*uint16_t k,\s*uint64_t n,\s*bool is_end\)",
    "sig": "void quantiles_const_iterator_ctor(struct q_it* self, const struct level* base_buffer, const struct levels_vec* levels, uint16_t k, uint64_t n, bool is_end)",
    "rules": [(r"self->levels_\.size\(\)", "self->levels_->size", 1)], "nloops": 1,
    "contract": r'''
__CPROVER_requires(__CPROVER_is_fresh(self, sizeof(*self)) && __CPROVER_is_fresh(levels, sizeof(*levels)) && g_bp0 < ((uint64_t)1 << 62) && n == g_n)
/* the sketch holds one Level per bit position up to the highest set bit of n/(2k) */
__CPROVER_requires(levels->size <= 63 && (g_bp0 >> levels->size) == 0 && (levels->size == 0 || (g_bp0 >> (levels->size - 1)) == 1))
__CPROVER_assigns(__CPROVER_object_whole(self))
__CPROVER_ensures((!is_end ==> QIT_OK(self)) && self->k_ == k && self->bb_count_ == g_bb0)
/* begin: the first retained item - in the base buffer if it has items, else in the lowest level whose bit is set; end: the end position */
__CPROVER_ensures(!is_end ==> (self->index_ == 0 && ((g_bb0 > 0 || g_bp0 == 0) ? self->level_ == -1 : (self->level_ >= 0 && (self->bit_pattern_ & 1) == 1))))
__CPROVER_ensures(is_end ==> (g_bp0 == 0 ? (self->level_ == -1 && self->index_ == (uint32_t)n) : self->level_ == (int)levels->size))
''',
    "loops": {1: r'''
__CPROVER_assigns(self->weight_, self->level_, self->bit_pattern_)
__CPROVER_loop_invariant(self->level_ >= 0 && self->level_ < 63 && self->bit_pattern_ == (g_bp0 >> self->level_) && self->bit_pattern_ != 0 && self->weight_ == ((uint64_t)2 << self->level_))
__CPROVER_decreases(63 - self->level_)
'''},
}

incr = {
    "name": "quantiles_const_iterator_incr", "file": QS, "members": M,
    "match": r"typename quantiles_sketch<T, C, A>::const_iterator& quantiles_sketch<T, C, A>::const_iterator::operator\+\+\(\)",
    "sig": "void quantiles_const_iterator_incr(struct q_it* self)", "nloops": 1,
    "rules": [(r"return \*this;", "return;", 2), (r"self->base_buffer_\.size\(\)", "self->base_buffer_->size", 1), (r"self->levels_\.size\(\)", "self->levels_->size", 1)],
    "contract": r'''
__CPROVER_requires(__CPROVER_is_fresh(self, sizeof(*self)) && __CPROVER_is_fresh(self->base_buffer_, sizeof(struct level)) && __CPROVER_is_fresh(self->levels_, sizeof(struct levels_vec)))
__CPROVER_requires(g_bp0 < ((uint64_t)1 << 62) && self->levels_->size <= 63 && (g_bp0 >> self->levels_->size) == 0 && (g_bp0 != 0 ==> self->levels_->size >= 1))
__CPROVER_requires(QIT_OK(self) && !(self->level_ >= 0 && self->bit_pattern_ == 0) && self->k_ >= 1)
__CPROVER_requires(self->level_ == -1 ? self->index_ < self->base_buffer_->size : self->index_ < self->k_)
__CPROVER_requires(self->base_buffer_->size <= 2u * self->k_)
__CPROVER_assigns(self->index_, self->level_, self->bit_pattern_, self->weight_, g_first, g_lvl_old)
/* stays inside the current buffer, or moves to index 0 of the next level whose bit is set (weight doubled per level), or to the end */
__CPROVER_ensures(QIT_OK(self))
__CPROVER_ensures(self->level_ == __CPROVER_old(self->level_) ? self->index_ == __CPROVER_old(self->index_) + 1 : (self->index_ == 0 && self->level_ > __CPROVER_old(self->level_)))
''',
    "loops": {1: r'''
__CPROVER_assigns(self->level_, self->bit_pattern_, self->weight_, g_first)
__CPROVER_loop_invariant(self->level_ >= -1 && self->level_ < 63 && self->index_ == 0 && (g_first ? self->level_ == g_lvl_old : self->level_ > g_lvl_old))
__CPROVER_loop_invariant(g_first ? (self->level_ == -1 ? (self->weight_ == 1 && self->bit_pattern_ == g_bp0 && g_bp0 != 0) : (self->bit_pattern_ == (g_bp0 >> self->level_) && (self->bit_pattern_ & 1) == 1 && self->weight_ == ((uint64_t)2 << self->level_)))
                                 : (self->level_ >= 0 && self->bit_pattern_ == (g_bp0 >> self->level_) && self->bit_pattern_ != 0 && (self->bit_pattern_ & 1) == 0 && self->weight_ == ((uint64_t)2 << self->level_)))
__CPROVER_decreases(63 - self->level_)
'''},
    "inserts": [(r"self->index_ = 0;", "g_first = 1; g_lvl_old = self->level_;", "after", 1), (r"self->weight_ \*= 2;", "g_first = 0;", "after", 1)],
}

UNIT = {
    "id": "quantiles_iterator", "property": "C07",
    "clause": "classic quantiles iterator: base-buffer items carry weight 1; after construction and every ++ the iterator is in the base buffer, at the end, or in a level h "
              "whose bit is set in n/(2k) with weight 2^(h+1) - levels whose bit is clear are skipped; it advances by one item or to index 0 of the next valid level",
    "prelude": PRELUDE + "bool g_first; int g_lvl_old;\n",
    "parts": [ctor, incr],
    "harness": r'''
void h_ctor(void) { struct q_it* it; const struct level* b; const struct levels_vec* l; uint16_t k; uint64_t n; bool e; quantiles_const_iterator_ctor(it, b, l, k, n, e); VERIF_CANARY_POINT; }
void h_incr(void) { struct q_it* it; quantiles_const_iterator_incr(it); VERIF_CANARY_POINT; }
''',
    "jobs": [
        {"name": "const_iterator_ctor", "entry": "h_ctor", "enforce": "quantiles_const_iterator_ctor", "replace": ["compute_base_buffer_items", "compute_bit_pattern"],
         "loops": True, "expect_loop_steps": 1, "timeout": 600},
        {"name": "const_iterator_incr", "entry": "h_incr", "enforce": "quantiles_const_iterator_incr", "loops": True, "expect_loop_steps": 1, "timeout": 600},
    ],
    "replay": {"*": {"template": "quantiles_object.cpp", "vars": {}}},
    "assumptions": ["compute_base_buffer_items / compute_bit_pattern (n mod 2k, n div 2k) are used by contract (ghost values g_bb0, g_bp0)",
                    "n < 2^62 * 2k so that weights 2^(h+1) do not overflow 64 bits"],
}
