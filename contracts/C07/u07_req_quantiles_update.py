RS = "req/include/req_sketch_impl.hpp"
QS = "quantiles/include/quantiles_sketch_impl.hpp"
RM = ["k_", "hra_", "max_nom_size_", "num_retained_", "n_", "compactors_", "min_item_", "max_item_", "sorted_view_"]
QM = ["k_", "n_", "bit_pattern_", "base_buffer_", "levels_", "min_item_", "max_item_", "sorted_view_", "is_base_buffer_sorted_"]
COMMON = r'''
typedef uint64_t T;
struct optT { bool has; T v; };
#define comparator_(a, b) ((a) < (b))     /* C = std::less<T> */
uint32_t g_reset_calls, g_compress_calls, g_append_calls, g_grow_calls, g_process_calls; T g_min0, g_max0, g_appended;
bool check_update_item(T item) __CPROVER_assigns() __CPROVER_ensures(__CPROVER_return_value);   /* integral T: every item is accepted */
#define HAS_EXTREMES(s) ((s)->n_ > 0 ==> ((s)->min_item_.has && (s)->max_item_.has && (s)->min_item_.v <= (s)->max_item_.v))
#define EXTREMES_AFTER(s, n0) ((s)->min_item_.has && (s)->max_item_.has && (s)->min_item_.v == ((n0) == 0 ? item : (item < g_min0 ? item : g_min0)) && (s)->max_item_.v == ((n0) == 0 ? item : (g_max0 < item ? item : g_max0)))
'''
OPT = [(r"static_cast<const T&>\(item\)", "item", "any"), (r"(?<![\w.>])is_empty\(\)", "xx_is_empty(self)", "any"),
       (r"self->(min|max)_item_\.emplace\(([^;]*)\);", r"self->\1_item_ = (struct optT){true, \2};", "any"),
       (r"\*self->(min|max)_item_", r"self->\1_item_.v", "any")]
REQ_PRELUDE = COMMON + r'''
struct req { uint16_t k_; bool hra_; uint32_t max_nom_size_; uint32_t num_retained_; uint64_t n_; struct optT min_item_; struct optT max_item_; void* sorted_view_; };
bool xx_is_empty(const struct req* s) __CPROVER_assigns() __CPROVER_ensures(__CPROVER_return_value == (s->n_ == 0));
/* compactors_[0].append(item): recorded (the compactor's append / compact are C08 req_compact) */
void append0(struct req* self, T item) __CPROVER_assigns(g_append_calls, g_appended) __CPROVER_ensures(g_append_calls == __CPROVER_old(g_append_calls) + 1 && g_appended == item);
/* compress(): ASSUMED frame (changes the retained count and the nominal size; never n, min, max) */
void compress(struct req* self) __CPROVER_assigns(g_compress_calls, self->num_retained_, self->max_nom_size_) __CPROVER_ensures(g_compress_calls == __CPROVER_old(g_compress_calls) + 1);
void reset_sorted_view(struct req* self) __CPROVER_assigns(g_reset_calls, self->sorted_view_) __CPROVER_ensures(g_reset_calls == __CPROVER_old(g_reset_calls) + 1 && self->sorted_view_ == NULL);
'''
req_update = {
    "name": "req_update", "file": RS, "members": RM, "match": r"void req_sketch<T, C, A>::update\(FwdT&& item\)", "sig": "void req_update(struct req* self, T item)", "nloops": 0,
    "rules": OPT + [(r"self->compactors_\[0\]\.append\(std::forward<FwdT>\(item\)\);", "append0(self, item);", 1)],
    "methods": ["compress", "reset_sorted_view"],
    "contract": r'''
__CPROVER_requires(__CPROVER_rw_ok(self, sizeof(*self)) && HAS_EXTREMES(self) && g_min0 == self->min_item_.v && g_max0 == self->max_item_.v && self->n_ < UINT64_MAX && self->num_retained_ < UINT32_MAX)
__CPROVER_requires(g_append_calls == 0 && g_compress_calls == 0 && g_reset_calls == 0)
__CPROVER_assigns(self->n_, self->num_retained_, self->max_nom_size_, self->min_item_, self->max_item_, self->sorted_view_, g_append_calls, g_appended, g_compress_calls, g_reset_calls)
/* an accepted item: n + 1, exact extremes, the item goes to compactor 0 exactly once, compression exactly when the retained count reaches the nominal size, the cached sorted view is dropped */
__CPROVER_ensures(self->n_ == __CPROVER_old(self->n_) + 1 && EXTREMES_AFTER(self, __CPROVER_old(self->n_)) && g_append_calls == 1 && g_appended == item && g_reset_calls == 1 && self->sorted_view_ == NULL)
__CPROVER_ensures(g_compress_calls == (__CPROVER_old(self->num_retained_) + 1 == __CPROVER_old(self->max_nom_size_) ? 1 : 0))
__CPROVER_ensures(g_compress_calls == 0 ==> self->num_retained_ == __CPROVER_old(self->num_retained_) + 1)
''',
}
REQ_UNIT = {
    "id": "req_update", "property": "C07",
    "clause": "req_sketch::update (uint64_t items): n grows by exactly one per accepted item, min and max are the exact extremes, the item is appended to compactor 0 exactly once, the retained count grows by one and "
              "compression runs exactly when it reaches the nominal size, the cached sorted view is dropped",
    "prelude": REQ_PRELUDE, "parts": [req_update],
    "harness": "void h_req_update(void) { struct req* s = malloc(sizeof(*s)); __CPROVER_assume(s != NULL); req_update(s, nondet_u64()); VERIF_CANARY_POINT; }\n",
    "jobs": [{"name": "req_update", "entry": "h_req_update", "enforce": "req_update", "replace": ["check_update_item", "xx_is_empty", "append0", "compress", "reset_sorted_view"], "timeout": 300}],
    "assumptions": ["compress() enters by an assumed frame contract; compactor append / compact are decided in C08 (unit req_compact)", "items are uint64_t with std::less (the NaN refusal of floating-point items is not exercised); optional<T> is (has, value)"],
}
Q_PRELUDE = COMMON + r'''
struct qs { uint16_t k_; uint64_t n_; uint64_t bit_pattern_; T* base_buffer_; size_t base_buffer_size; size_t base_buffer_cap; struct optT min_item_; struct optT max_item_; void* sorted_view_; bool is_base_buffer_sorted_; };
bool xx_is_empty(const struct qs* s) __CPROVER_assigns() __CPROVER_ensures(__CPROVER_return_value == (s->n_ == 0));
/* grow_base_buffer(): ASSUMED to reserve more room (capacity strictly larger, content and size kept); std::vector reserve */
void grow_base_buffer(struct qs* self) __CPROVER_assigns(g_grow_calls, self->base_buffer_cap)
  __CPROVER_ensures(g_grow_calls == __CPROVER_old(g_grow_calls) + 1 && self->base_buffer_cap > __CPROVER_old(self->base_buffer_cap));
/* process_full_base_buffer(): ASSUMED frame (empties the base buffer into the levels; its zip/merge kernels are C08) */
void process_full_base_buffer(struct qs* self) __CPROVER_assigns(g_process_calls, self->base_buffer_size, self->bit_pattern_, self->is_base_buffer_sorted_) __CPROVER_ensures(g_process_calls == __CPROVER_old(g_process_calls) + 1);
void reset_sorted_view(struct qs* self) __CPROVER_assigns(g_reset_calls, self->sorted_view_) __CPROVER_ensures(g_reset_calls == __CPROVER_old(g_reset_calls) + 1 && self->sorted_view_ == NULL);
'''
q_update = {
    "name": "quantiles_update", "file": QS, "members": QM, "match": r"void quantiles_sketch<T, C, A>::update\(FwdT&& item\)", "sig": "void quantiles_update(struct qs* self, T item)", "nloops": 0,
    "rules": OPT + [(r"self->base_buffer_\.size\(\)", "self->base_buffer_size", "any"), (r"self->base_buffer_\.capacity\(\)", "self->base_buffer_cap", "any"),
                    (r"self->base_buffer_\.push_back\(std::forward<FwdT>\(item\)\);", "{ g_appended = item; g_append_calls++; g_size_at_push = self->base_buffer_size; g_cap_at_push = self->base_buffer_cap; self->base_buffer_size++; }", 1)],
    "methods": ["grow_base_buffer", "process_full_base_buffer", "reset_sorted_view"],
    "contract": r'''
__CPROVER_requires(__CPROVER_rw_ok(self, sizeof(*self)) && HAS_EXTREMES(self) && g_min0 == self->min_item_.v && g_max0 == self->max_item_.v && self->n_ < UINT64_MAX && self->k_ >= 1)
__CPROVER_requires(self->base_buffer_size <= self->base_buffer_cap && self->base_buffer_size < 2 * (size_t)self->k_ && g_append_calls == 0 && g_grow_calls == 0 && g_process_calls == 0 && g_reset_calls == 0)
__CPROVER_assigns(self->n_, self->min_item_, self->max_item_, self->sorted_view_, self->base_buffer_size, self->base_buffer_cap, self->bit_pattern_, self->is_base_buffer_sorted_,
                  g_append_calls, g_appended, g_size_at_push, g_cap_at_push, g_grow_calls, g_process_calls, g_reset_calls)
/* an accepted item: n + 1, exact extremes, the item is pushed once into the base buffer with room for it (grown first exactly when it was full), the cached sorted view is dropped */
__CPROVER_ensures(self->n_ == __CPROVER_old(self->n_) + 1 && EXTREMES_AFTER(self, __CPROVER_old(self->n_)) && g_append_calls == 1 && g_appended == item && g_reset_calls == 1 && self->sorted_view_ == NULL)
__CPROVER_ensures(g_size_at_push == __CPROVER_old(self->base_buffer_size) && g_size_at_push < g_cap_at_push && g_grow_calls == (__CPROVER_old(self->base_buffer_size) == __CPROVER_old(self->base_buffer_cap) ? 1 : 0))
/* the full base buffer (2k items) is processed exactly when the push filled it; a buffer of more than one item is no longer known to be sorted */
__CPROVER_ensures(g_process_calls == (__CPROVER_old(self->base_buffer_size) + 1 == 2 * (size_t)self->k_ ? 1 : 0))
__CPROVER_ensures(g_process_calls == 0 ==> (self->base_buffer_size == __CPROVER_old(self->base_buffer_size) + 1 && (self->base_buffer_size > 1 ==> !self->is_base_buffer_sorted_)))
''',
}
Q_UNIT = {
    "id": "quantiles_update", "property": "C07",
    "clause": "quantiles_sketch::update (uint64_t items): n grows by exactly one per accepted item, min and max are the exact extremes, the item is pushed once into the base buffer which has room for it "
              "(grown first exactly when full), the full base buffer of 2k items is processed exactly when the push filled it, the sortedness flag is cleared, the cached sorted view is dropped",
    "prelude": Q_PRELUDE + "size_t g_size_at_push, g_cap_at_push;\n", "parts": [q_update],
    "harness": "void h_q_update(void) { struct qs* s = malloc(sizeof(*s)); __CPROVER_assume(s != NULL); quantiles_update(s, nondet_u64()); VERIF_CANARY_POINT; }\n",
    "jobs": [{"name": "quantiles_update", "entry": "h_q_update", "enforce": "quantiles_update", "replace": ["check_update_item", "xx_is_empty", "grow_base_buffer", "process_full_base_buffer", "reset_sorted_view"], "timeout": 300}],
    "assumptions": ["grow_base_buffer and process_full_base_buffer enter by assumed frame contracts (capacity strictly larger; buffer emptied into the levels - zip/merge kernels are C08)",
                    "base_buffer_ is (size, capacity): the stored items are not modelled here; items are uint64_t with std::less; optional<T> is (has, value)"],
}
UNITS = [REQ_UNIT, Q_UNIT]
