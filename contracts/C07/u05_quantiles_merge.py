QS = "quantiles/include/quantiles_sketch_impl.hpp"
M = ["k_", "n_", "bit_pattern_", "base_buffer_", "levels_", "min_item_", "max_item_", "sorted_view_", "is_base_buffer_sorted_"]

PRELUDE = r'''
typedef uint64_t T;
struct bbuf { T* data; uint32_t size_; };
struct qsk { uint16_t k_; uint64_t n_; uint64_t bit_pattern_; struct bbuf base_buffer_; void* levels_; bool is_base_buffer_sorted_; void* sorted_view_; };
uint32_t g_update_calls, g_std_calls, g_down_calls, g_move_calls, g_copy_calls, g_reset_calls;
bool q_is_empty(const struct qsk* s) __CPROVER_assigns() __CPROVER_ensures(__CPROVER_return_value == (s->n_ == 0));
bool q_is_estimation_mode(const struct qsk* s) __CPROVER_assigns() __CPROVER_ensures(__CPROVER_return_value == (s->bit_pattern_ != 0));
/* update(): ends with reset_sorted_view() (quantiles_sketch_impl.hpp update) */
void q_update(struct qsk* s, T item) __CPROVER_assigns(g_update_calls, s->n_, s->sorted_view_, s->bit_pattern_)
  __CPROVER_ensures(g_update_calls == __CPROVER_old(g_update_calls) + 1 && s->sorted_view_ == NULL);
/* static standard_merge / downsampling_merge(tgt, src): rewrite tgt's levels and counts, never touch a cached sorted view */
void standard_merge(struct qsk* tgt, const struct qsk* src) __CPROVER_assigns(g_std_calls, tgt->n_, tgt->bit_pattern_) __CPROVER_ensures(g_std_calls == __CPROVER_old(g_std_calls) + 1);
void downsampling_merge(struct qsk* tgt, const struct qsk* src) __CPROVER_assigns(g_down_calls, tgt->n_, tgt->bit_pattern_) __CPROVER_ensures(g_down_calls == __CPROVER_old(g_down_calls) + 1);
/* copy construction starts without a cached view; move assignment ends with reset_sorted_view() */
void q_copy_ctor(struct qsk* self, const struct qsk* other) __CPROVER_assigns(g_copy_calls, __CPROVER_object_whole(self))
  __CPROVER_ensures(g_copy_calls == __CPROVER_old(g_copy_calls) + 1 && self->sorted_view_ == NULL && self->k_ == other->k_ && self->n_ == other->n_ && self->bit_pattern_ == other->bit_pattern_);
void q_move_assign(struct qsk* self, struct qsk* other) __CPROVER_assigns(g_move_calls, self->k_, self->n_, self->bit_pattern_, self->sorted_view_)
  __CPROVER_ensures(g_move_calls == __CPROVER_old(g_move_calls) + 1 && self->sorted_view_ == NULL && self->n_ == other->n_ && self->k_ == other->k_);
'''

reset_sv = {
    "name": "reset_sorted_view", "file": QS, "members": M, "match": r"void quantiles_sketch<T, C, A>::reset_sorted_view\(\)",
    "sig": "void reset_sorted_view(struct qsk* self)",
    "rules": [(r"self->sorted_view_->~quantiles_sorted_view\(\);", "(void)0;", 1), (r"using AllocSortedView = [^;]*;", "", 1),
              (r"AllocSortedView\(self->allocator_\)\.deallocate\(self->sorted_view_, 1\);|AllocSortedView\(allocator_\)\.deallocate\(self->sorted_view_, 1\);", "g_reset_calls++;", 1)],
    "contract": r'''
__CPROVER_requires(__CPROVER_is_fresh(self, sizeof(*self)) && g_reset_calls < 1000)
__CPROVER_assigns(self->sorted_view_, g_reset_calls)
__CPROVER_ensures(self->sorted_view_ == NULL)
''',
}

merge = {
    "name": "quantiles_merge", "file": QS, "members": M,
    "match": r"void quantiles_sketch<T, C, A>::merge\(FwdSk&& other\)",
    "sig": "void quantiles_merge(struct qsk* self, const struct qsk* other)",
    "rules": [(r"other\.is_empty\(\)", "q_is_empty(other)", 1), (r"other\.is_estimation_mode\(\)", "q_is_estimation_mode(other)", 1),
              (r"(?<![\w.>])is_estimation_mode\(\)", "q_is_estimation_mode(self)", 1), (r"(?<![\w.>])is_empty\(\)", "q_is_empty(self)", 1),
              (r"other\.get_k\(\)", "other->k_", None),
              (r"for \(auto item : other\.base_buffer_\) \{\s*update\(conditional_forward<FwdSk>\(item\)\);", "for (uint32_t bi_ = 0; bi_ < other->base_buffer_.size_; bi_++) { q_update(self, other->base_buffer_.data[bi_]);", 1),
              (r"standard_merge\(\*this, std::forward<FwdSk>\(other\)\);", "standard_merge(self, other);", 1),
              (r"quantiles_sketch sk_copy\(std::forward<FwdSk>\(other\)\);", "struct qsk sk_copy_; struct qsk* sk_copy = &sk_copy_; q_copy_ctor(sk_copy, other);", 2),
              (r"downsampling_merge\(sk_copy, std::move\(\*this\)\);", "downsampling_merge(sk_copy, self);", 2),
              (r"downsampling_merge\(\*this, std::forward<FwdSk>\(other\)\);", "downsampling_merge(self, other);", 1),
              (r"\*this = std::move\(sk_copy\);", "q_move_assign(self, sk_copy);", 2),
              (r"self->base_buffer_\.size\(\)", "self->base_buffer_.size_", 1),
              (r"sk_copy\.update\(std::move\(self->base_buffer_\[i\]\)\);", "q_update(sk_copy, self->base_buffer_.data[i]);", 1)],
    "methods": ["reset_sorted_view"], "nloops": 2,
    "contract": r'''
__CPROVER_requires(__CPROVER_is_fresh(self, sizeof(*self)) && __CPROVER_is_fresh(other, sizeof(*other)))
__CPROVER_requires(self->base_buffer_.size_ <= 4096 && other->base_buffer_.size_ <= 4096 && __CPROVER_is_fresh(self->base_buffer_.data, 4096 * sizeof(T)) && __CPROVER_is_fresh(other->base_buffer_.data, 4096 * sizeof(T)))
__CPROVER_requires(g_update_calls < 100000 && g_std_calls < 1000 && g_down_calls < 1000 && g_move_calls < 1000 && g_copy_calls < 1000 && g_reset_calls < 1000)
__CPROVER_assigns(self->k_, self->n_, self->bit_pattern_, self->sorted_view_, g_update_calls, g_std_calls, g_down_calls, g_move_calls, g_copy_calls, g_reset_calls, g_upd0)
/* whatever path is taken, a non-empty operand leaves no cached sorted view behind: later rank/quantile/CDF/PMF queries see the merged content */
__CPROVER_ensures(other->n_ != 0 ==> self->sorted_view_ == NULL)
/* an empty operand changes nothing */
__CPROVER_ensures(other->n_ == 0 ==> (self->n_ == __CPROVER_old(self->n_) && g_update_calls == __CPROVER_old(g_update_calls) && g_std_calls == __CPROVER_old(g_std_calls) && g_down_calls == __CPROVER_old(g_down_calls)))
/* an exact operand is streamed in item by item */
__CPROVER_ensures((other->n_ != 0 && other->bit_pattern_ == 0) ==> g_update_calls == __CPROVER_old(g_update_calls) + other->base_buffer_.size_)
''',
    "loops": {1: r'''
__CPROVER_assigns(bi_, g_update_calls, self->n_, self->sorted_view_, self->bit_pattern_)
__CPROVER_loop_invariant(bi_ <= other->base_buffer_.size_ && g_update_calls == g_upd0 + bi_)
__CPROVER_decreases(other->base_buffer_.size_ - bi_)
''', 2: r'''
__CPROVER_assigns(i, g_update_calls, sk_copy_.n_, sk_copy_.sorted_view_, sk_copy_.bit_pattern_)
__CPROVER_loop_invariant(i <= self->base_buffer_.size_)
__CPROVER_decreases(self->base_buffer_.size_ - i)
'''},
    "inserts": [(r"\{", "g_upd0 = g_update_calls;", "after", None)],
}
merge["inserts"] = [(r"^\{", "g_upd0 = g_update_calls;", "after", 1)]

UNIT = {
    "id": "quantiles_merge", "property": "C07",
    "clause": "classic quantiles merge (every path: exact operand streamed in, equal k, down-sampling either way, exact receiver): a non-empty operand never leaves a cached "
              "sorted view behind, so rank/quantile/CDF/PMF after a merge are answered from the merged content; an empty operand changes nothing",
    "prelude": PRELUDE + "uint32_t g_upd0;\n",
    "parts": [reset_sv, merge],
    "harness": r'''
void h_reset(void) { struct qsk* s; reset_sorted_view(s); VERIF_CANARY_POINT; }
void h_merge(void) { struct qsk* a; const struct qsk* b; quantiles_merge(a, b); VERIF_CANARY_POINT; }
''',
    "jobs": [
        {"name": "reset_sorted_view", "entry": "h_reset", "enforce": "reset_sorted_view"},
        {"name": "merge", "entry": "h_merge", "enforce": "quantiles_merge", "loops": True, "expect_loop_steps": 2, "timeout": 300, "object_bits": 10,
         "replace": ["q_is_empty", "q_is_estimation_mode", "q_update", "standard_merge", "downsampling_merge", "q_copy_ctor", "q_move_assign", "reset_sorted_view"]},
    ],
    "replay": {"*": {"template": "quantiles_object.cpp", "vars": {}}},
    "assumptions": ["update(), the static standard_merge/downsampling_merge, the copy constructor and the move assignment are ASSUMED contracts written from their code: "
                    "update and move assignment end with reset_sorted_view(), the copy starts with no cached view, the static merges do not touch the cached view",
                    "range-for over the operand's base buffer is rendered as an indexed loop"],
}
