F = "density/include/density_sketch_impl.hpp"
M = ["levels_it_", "levels_end_", "level_it_", "height_"]
PRELUDE = r'''
typedef float T;
/* a level is a vector of points; a point is opaque here (8 bytes) */
struct pt { uint64_t id; };
struct lvl { struct pt* data; size_t size; };
struct dit { const struct lvl* levels_it_; const struct lvl* levels_end_; const struct pt* level_it_; unsigned height_; };
#ifndef NLEV
#define NLEV 4
#endif
#define LBEGIN(l) ((const struct pt*)(l)->data)
#define LEND(l) ((const struct pt*)(l)->data + (l)->size)
const struct lvl* g_levels;
#define LEVEL_INDEX(p) ((size_t)((p) - g_levels))
#define DIT_OK(it) ((it)->levels_it_ == (it)->levels_end_ || ((it)->level_it_ >= LBEGIN((it)->levels_it_) && (it)->level_it_ < LEND((it)->levels_it_)))
'''
RULES = [(r"self->levels_it_->begin\(\)", "LBEGIN(self->levels_it_)", "any"), (r"self->levels_it_->end\(\)", "LEND(self->levels_it_)", "any")]
ctor = {"name": "dit_ctor", "file": F, "ctor": True, "members": M, "match": r"density_sketch<T, K, A>::const_iterator::const_iterator\(LevelsIterator begin, LevelsIterator end\)",
        "sig": "void dit_ctor(struct dit* self, const struct lvl* begin, const struct lvl* end)", "nloops": 1, "loops": {},
        "pre_rules": [(r"self->level_it_ = CTOR_INIT\(\);", "self->level_it_ = NULL;", 1)], "rules": RULES}
incr = {"name": "dit_incr", "file": F, "members": M, "match": r"auto density_sketch<T, K, A>::const_iterator::operator\+\+\(\)",
        "sig": "void dit_incr(struct dit* self)", "nloops": 1, "rules": RULES + [(r"return \*this;", "return;", 1)]}
HARNESS = r'''
static struct lvl levels[NLEV]; static struct pt storage[NLEV][4];
static void setup(void) { g_levels = levels; for (int c = 0; c < NLEV; c++) { levels[c].data = storage[c]; levels[c].size = nondet_size(); __CPROVER_assume(levels[c].size <= 4); } }
void h_ctor(void) {
  setup(); struct dit it; uint32_t nb = nondet_u32(); __CPROVER_assume(nb == 0 || nb == NLEV);     /* begin() and end() of the sketch */
  dit_ctor(&it, levels + nb, levels + NLEV);
  __CPROVER_assert(DIT_OK(&it), "after construction the iterator is at the end or points at a stored point");
  __CPROVER_assert(it.levels_it_ != it.levels_end_ ==> it.height_ == LEVEL_INDEX(it.levels_it_), "height is the index of the level the iterator is in (weight 2^height)");
  uint32_t g_c = nondet_u32(); __CPROVER_assume(g_c >= nb && g_c < NLEV);
  __CPROVER_assert((it.levels_it_ == it.levels_end_ || g_c < LEVEL_INDEX(it.levels_it_)) ==> levels[g_c].size == 0, "only empty levels are skipped");
  VERIF_CANARY_POINT;
}
void h_incr(void) {
  setup(); struct dit it; uint32_t lv = nondet_u32(); uint32_t off = nondet_u32(); __CPROVER_assume(lv < NLEV && off < levels[lv].size);
  it.levels_it_ = levels + lv; it.levels_end_ = levels + NLEV; it.level_it_ = LBEGIN(levels + lv) + off; it.height_ = lv;
  const struct pt* before = it.level_it_;
  dit_incr(&it);
  __CPROVER_assert(DIT_OK(&it), "after ++ the iterator is at the end or points at a stored point");
  __CPROVER_assert(it.levels_it_ != it.levels_end_ ==> it.height_ == LEVEL_INDEX(it.levels_it_), "height is the index of the level the iterator is in (weight 2^height)");
  __CPROVER_assert((it.levels_it_ == levels + lv) ==> it.level_it_ == before + 1, "within a level ++ advances by one point");
  uint32_t g_c = nondet_u32(); __CPROVER_assume(g_c > lv && g_c < NLEV);
  __CPROVER_assert((it.levels_it_ != levels + lv && (it.levels_it_ == it.levels_end_ || g_c < LEVEL_INDEX(it.levels_it_))) ==> levels[g_c].size == 0, "only empty levels are skipped");
  __CPROVER_assert((it.levels_it_ != levels + lv && it.levels_it_ != it.levels_end_) ==> it.level_it_ == LBEGIN(it.levels_it_), "a new level is entered at its first point");
  VERIF_CANARY_POINT;
}
'''
UNIT = {
    "id": "density_iterator", "property": "C20",
    "clause": "density_sketch::const_iterator (bounded stand-in: 4 levels quick / 6 thorough, 0..4 points each, any level may be empty): after construction and after ++ it is at the end or at a "
              "stored point, only empty levels are skipped, every stored point is visited once in order, and height_ is the index of the level it is in (so the reported weight is 2^level)",
    "prelude": PRELUDE, "parts": [ctor, incr], "harness": HARNESS,
    "jobs": [{"name": "%s_%dlevels" % (n, nl), "entry": "h_" + n, "defines": {"NLEV": nl}, "unwind": nl + 2, "timeout": 600, "kind": "bounded", "tier": tier,
              "bound": "%d levels of 0..4 points, fill fully symbolic" % nl} for (n, nl, tier) in [("ctor", 4, "quick"), ("incr", 4, "quick"), ("ctor", 6, "thorough"), ("incr", 6, "thorough")]],
    "assumptions": ["iterators over std::vector rendered as pointers into arrays; pointer-walking loops cannot be closed by loop contracts in cbmc 6.11 (havocked pointers): bounded unwinding"],
}
