F = "density/include/density_sketch_impl.hpp"
H = "density/include/density_sketch.hpp"
MEMBERS = ["kernel_", "k_", "dim_", "num_retained_", "n_", "levels_"]
DS = "density_sketch<T, K, A>"

PRELUDE = r"""
typedef float T;
/* levels_ (vector of vectors of points) is represented by the sizes of its levels: the point data itself is dropped (the contracts are about counts); a point is its dimension */
struct point { size_t size_; };
#define LCAP ((size_t)64)   /* model restriction: at most 64 levels; pushing one more is the exception path (std::vector growth failure) */
struct density { uint16_t k_; uint32_t dim_; uint32_t num_retained_; uint64_t n_; uint64_t level_size[LCAP]; size_t num_levels; };
/* ghost: number of points held in all levels = what iteration visits; every statement that changes a level's size updates it (rules below, must-fire) */
uint64_t g_total;
size_t g_h;   /* ghost: an arbitrary level (used modulo LCAP) */
#define LEVEL_PUSH(s, h) do { (s)->level_size[h]++; g_total++; } while (0)
#define LEVEL_APPEND(s, h, cnt) do { (s)->level_size[h] += (cnt); g_total += (cnt); } while (0)
/* ghost for merge: prefix sums of the other sketch's level sizes; snapshots taken after the copy loop */
uint64_t g_prefix[LCAP + 1]; uint64_t g_after_copy, g_lvl_after_copy, g_lvl_before; size_t g_levels_after_copy;
#define LEVEL_CLEAR(s, h) do { g_total -= (s)->level_size[h]; (s)->level_size[h] = 0; } while (0)
/* representation invariant: the retained count is the number of points held (num_retained_ is 32 bits wide: equality of the low 32 bits; see assumptions) */
#define INV(s) ((s)->num_levels >= 1 && (s)->num_levels <= LCAP && (s)->num_retained_ == (uint32_t)g_total)
#define DS_FRESH(s) ((s)->num_levels <= LCAP)
_Bool random_bit(void) __CPROVER_assigns() __CPROVER_ensures(1);
T kernel_eval(void) __CPROVER_assigns() __CPROVER_ensures(1);    /* user kernel: any value */
"""
LV = [(r"self->levels_\.size\(\)", "self->num_levels", "any"),
      (r"self->levels_\.push_back\(Level\(self->levels_\.get_allocator\(\)\)\);", "{ if (self->num_levels >= LCAP) VERIF_THROW; self->level_size[self->num_levels++] = 0; }", "any"),
      (r"self->levels_\[([^\]]*)\]\.size\(\)", r"self->level_size[\1]", "any")]
BASE = "__CPROVER_requires(__CPROVER_is_fresh(self, sizeof(*self)) && DS_FRESH(self) && verif_exc == 0)\n"
FRAME = "__CPROVER_assigns(verif_exc, self->num_retained_, self->num_levels, g_total, __CPROVER_object_upto(self->level_size, sizeof(self->level_size)))\n"
SNAP = [(r"^\{", "for (size_t gi_ = 0; gi_ < LCAP; gi_++) g_old[gi_] = self->level_size[gi_];", "after", 1)]

compact_level = {
    "name": "compact_level", "file": F, "members": MEMBERS, "match": r"void %s::compact_level\(unsigned height\)" % DS,
    "sig": "void compact_level(struct density* self, unsigned height)", "nloops": 4,
    "pre_rules": [(r"auto& level = levels_\[height\];", "const uint64_t level_n = self->level_size[height];", 1), (r"level\.size\(\)", "level_n", 3),
                  (r"std::vector<bool> bits\(level_n\);", "bool* bits = malloc(level_n ? level_n : 1); __CPROVER_assume(bits != NULL);", 1),
                  (r"random_utils::random_bit\(\)", "random_bit()", 1), (r"std::shuffle\(level\.begin\(\), level\.end\(\), random_utils::rand\);", "", 1),
                  (r"kernel_\(level\[i\], level\[j\]\)", "kernel_eval()", 1),
                  (r"levels_\[height \+ 1\]\.push_back\(std::move\(level\[i\]\)\);", "LEVEL_PUSH(self, height + 1);", 1),
                  (r"level\.clear\(\);", "LEVEL_CLEAR(self, height); free(bits);", 1)],
    "rules": LV, "inserts": SNAP,
    "contract": BASE + r'''
__CPROVER_requires(INV(self) && (size_t)height + 1 < self->num_levels && self->level_size[height] >= 1)
''' + FRAME + r'''
/* the level is emptied; the selected points move one level up, the others are dropped; the retained count again matches the points held; no other level changes */
__CPROVER_ensures(verif_exc == 0 && INV(self) && self->level_size[height] == 0 && self->num_levels == __CPROVER_old(self->num_levels))
__CPROVER_ensures(self->level_size[height + 1] - __CPROVER_old(self->level_size[height + 1]) <= __CPROVER_old(self->level_size[height]))
__CPROVER_ensures(g_total == __CPROVER_old(g_total) - __CPROVER_old(self->level_size[height]) + (self->level_size[height + 1] - __CPROVER_old(self->level_size[height + 1])))
__CPROVER_ensures(g_total <= __CPROVER_old(g_total) || __CPROVER_old(g_total) < __CPROVER_old(self->level_size[height]))
__CPROVER_ensures((g_h % LCAP != height && g_h % LCAP != (size_t)height + 1) ==> self->level_size[g_h % LCAP] == __CPROVER_old(self->level_size[g_h % LCAP]))
''',
    "loops": {1: r'''
__CPROVER_assigns(gi_, __CPROVER_object_whole(g_old))
__CPROVER_loop_invariant(gi_ <= LCAP)
__CPROVER_decreases(LCAP - gi_)
''', 2: r'''
__CPROVER_assigns(i, __CPROVER_object_whole(bits))
__CPROVER_loop_invariant(i <= level_n && level_n >= 1)
''', 3: r'''
__CPROVER_assigns(j, delta)
__CPROVER_loop_invariant(j <= i)
__CPROVER_decreases(i - j)
''', 4: r'''
__CPROVER_assigns(i, g_total, self->num_retained_, self->level_size[height + 1])
__CPROVER_loop_invariant(i <= level_n)
__CPROVER_loop_invariant(self->level_size[height + 1] - __CPROVER_loop_entry(self->level_size[height + 1]) <= i)
__CPROVER_loop_invariant(g_total == __CPROVER_loop_entry(g_total) + (self->level_size[height + 1] - __CPROVER_loop_entry(self->level_size[height + 1])))
__CPROVER_loop_invariant((uint32_t)(self->num_retained_ + (uint32_t)i) == (uint32_t)(__CPROVER_loop_entry(self->num_retained_) + (uint32_t)(self->level_size[height + 1] - __CPROVER_loop_entry(self->level_size[height + 1]))))
'''},
}
# the snapshot loop is a fixed-length ghost loop: unwound, not under loop contract -> simpler: snapshot by struct copy
compact_level["inserts"] = []
compact_level["nloops"] = 3
compact_level["loops"] = {1: compact_level["loops"][2], 2: compact_level["loops"][3], 3: compact_level["loops"][4]}

compact = {
    "name": "compact", "file": F, "members": MEMBERS, "match": r"void %s::compact\(\)" % DS, "sig": "void compact(struct density* self)", "nloops": 1,
    "rules": LV, "methods": ["compact_level"], "propagate": ["compact_level"],
    "contract": BASE + "__CPROVER_requires(INV(self) && self->k_ >= 1)\n" + FRAME + r'''
/* a compaction keeps the representation invariant, never removes a level and adds at most one */
__CPROVER_ensures(verif_exc == 0 ==> (INV(self) && self->num_levels >= __CPROVER_old(self->num_levels) && self->num_levels <= __CPROVER_old(self->num_levels) + 1))
''',
    "loops": {1: r'''
__CPROVER_assigns(height, verif_exc, self->num_retained_, self->num_levels, g_total, __CPROVER_object_upto(self->level_size, sizeof(self->level_size)))
__CPROVER_loop_invariant(height <= self->num_levels && verif_exc == 0 && INV(self) && self->num_levels == __CPROVER_loop_entry(self->num_levels) && self->num_retained_ == __CPROVER_loop_entry(self->num_retained_))
__CPROVER_decreases(self->num_levels - height)
'''},
}

update = {
    "name": "update", "file": F, "members": MEMBERS, "match": r"void %s::update\(FwdVector&& point\)" % DS, "sig": "void update(struct density* self, const struct point* point)", "refs": ["point"], "nloops": 1, "loop_heads": {1: r"while\s*\(self->num_retained_ >="},
    "pre_rules": [(r"point\.size\(\)", "point.size_", 1), (r"levels_\[0\]\.push_back\(std::forward<FwdVector>\(point\)\);", "LEVEL_PUSH(self, 0);", 1)],
    "rules": LV, "methods": ["compact"], "propagate": ["compact"],
    "contract": BASE + "__CPROVER_requires(__CPROVER_is_fresh(point, sizeof(*point)) && INV(self) && self->k_ >= 1 && self->n_ < UINT64_MAX)\n" + FRAME.replace("verif_exc,", "verif_exc, self->n_,") + r'''
/* a point of the wrong dimension is refused and nothing changes */
__CPROVER_ensures(point->size_ != self->dim_ ==> (verif_exc != 0 && self->n_ == __CPROVER_old(self->n_) && self->num_retained_ == __CPROVER_old(self->num_retained_)))
/* an accepted point: n counts it, it is retained at level 0, the retained count is exactly the number of points held and does not exceed k times the number of levels */
__CPROVER_ensures(verif_exc == 0 ==> (self->n_ == __CPROVER_old(self->n_) + 1 && INV(self) && (uint64_t)self->num_retained_ <= (uint64_t)self->k_ * self->num_levels))
''',
    "loops": {1: r'''
__CPROVER_assigns(verif_exc, self->num_retained_, self->num_levels, g_total, __CPROVER_object_upto(self->level_size, sizeof(self->level_size)))
__CPROVER_loop_invariant(verif_exc == 0 && INV(self))
'''},
}

is_empty = {
    "name": "is_empty", "file": F, "members": MEMBERS, "match": r"bool %s::is_empty\(\) const" % DS, "sig": "bool is_empty(const struct density* self)", "nloops": 0,
    "contract": "__CPROVER_requires(__CPROVER_r_ok(self, sizeof(*self)))\n__CPROVER_assigns()\n__CPROVER_ensures(__CPROVER_return_value == (self->num_retained_ == 0))\n",
}

merge = {
    "name": "merge", "file": F, "members": MEMBERS, "match": r"void %s::merge\(FwdSketch&& other\)" % DS, "sig": "void merge(struct density* self, const struct density* other)", "refs": ["other"], "nloops": 3,
    "loop_heads": {1: r"while\s*\(self->num_levels <", 2: r"for\s*\(unsigned height", 3: r"while\s*\(self->num_retained_ >="},
    "pre_rules": [(r"other\.is_empty\(\)", "is_empty(&other)", 1), (r"other\.levels_\.size\(\)", "other.num_levels", 2),
                  (r"std::copy\(\s*forward_begin\(conditional_forward<FwdSketch>\(other\.levels_\[([^\]]*)\]\)\),\s*forward_end\(conditional_forward<FwdSketch>\(other\.levels_\[\1\]\)\),\s*back_inserter\(levels_\[([^\]]*)\]\)\s*\);",
                   r"LEVEL_APPEND(self, \2, other.level_size[\1]);", 1)],
    "rules": LV, "methods": ["compact"], "propagate": ["compact"],
    "inserts": [(r"self->num_retained_ \+= \(\*other\)\.num_retained_;", "g_after_copy = g_total; g_lvl_after_copy = self->level_size[g_h % LCAP]; g_levels_after_copy = self->num_levels;", "before", 1)],
    "contract": BASE + r"""
__CPROVER_requires(__CPROVER_is_fresh(other, sizeof(*other)) && INV(self) && self->k_ >= 1 && other->num_levels >= 1 && other->num_levels <= LCAP)
/* the other sketch satisfies the same representation invariant: its retained count is the number of points it holds (g_prefix = prefix sums of its level sizes) */
__CPROVER_requires(g_prefix[0] == 0 && __CPROVER_forall { size_t qi; (qi < LCAP) ==> g_prefix[qi + 1] == g_prefix[qi] + other->level_size[qi] })
__CPROVER_requires(other->num_retained_ == (uint32_t)g_prefix[other->num_levels])
/* ghost view of one arbitrary level of this sketch before the call (a level that does not exist yet holds nothing) */
__CPROVER_requires(g_lvl_before == ((g_h % LCAP) < self->num_levels ? self->level_size[g_h % LCAP] : 0))
""" + FRAME.replace("verif_exc,", "verif_exc, self->n_, g_after_copy, g_lvl_after_copy, g_levels_after_copy,") + r"""
/* merging an empty sketch changes nothing */
__CPROVER_ensures(other->num_retained_ == 0 ==> (verif_exc == 0 && self->n_ == __CPROVER_old(self->n_) && self->num_retained_ == __CPROVER_old(self->num_retained_) && self->num_levels == __CPROVER_old(self->num_levels) && g_total == __CPROVER_old(g_total)))
/* a sketch of another dimension is refused and nothing changes */
__CPROVER_ensures((other->num_retained_ != 0 && other->dim_ != self->dim_) ==> (verif_exc != 0 && self->n_ == __CPROVER_old(self->n_) && self->num_retained_ == __CPROVER_old(self->num_retained_) && self->num_levels == __CPROVER_old(self->num_levels) && g_total == __CPROVER_old(g_total)))
/* an accepted merge: n is the sum, the retained count is exactly the number of points held and does not exceed k times the number of levels */
__CPROVER_ensures((verif_exc == 0 && other->num_retained_ != 0) ==> (other->dim_ == self->dim_ && self->n_ == __CPROVER_old(self->n_) + other->n_ && INV(self) && (uint64_t)self->num_retained_ <= (uint64_t)self->k_ * self->num_levels
    && self->num_levels >= __CPROVER_old(self->num_levels) && self->num_levels >= other->num_levels))
/* before the closing compactions every point of the other sketch has been taken over at its own level: the points held are the sum, and an arbitrary level holds its own points plus the other's */
__CPROVER_ensures((verif_exc == 0 && other->num_retained_ != 0) ==> (g_after_copy == __CPROVER_old(g_total) + g_prefix[other->num_levels]
    && ((g_h % LCAP) < g_levels_after_copy ==> g_lvl_after_copy == g_lvl_before + ((g_h % LCAP) < other->num_levels ? other->level_size[g_h % LCAP] : 0))
    && g_levels_after_copy == (__CPROVER_old(self->num_levels) > other->num_levels ? __CPROVER_old(self->num_levels) : other->num_levels)))
""",
    "loops": {1: r"""
__CPROVER_assigns(verif_exc, self->num_levels, __CPROVER_object_upto(self->level_size, sizeof(self->level_size)))
__CPROVER_loop_invariant(verif_exc == 0 && self->num_levels >= __CPROVER_loop_entry(self->num_levels) && self->num_levels <= LCAP)
__CPROVER_loop_invariant(self->num_levels == __CPROVER_loop_entry(self->num_levels) || self->num_levels <= other->num_levels)
__CPROVER_loop_invariant(g_lvl_before == ((g_h % LCAP) < self->num_levels ? self->level_size[g_h % LCAP] : 0))
__CPROVER_decreases(LCAP - self->num_levels)
""", 2: r"""
__CPROVER_assigns(height, g_total, __CPROVER_object_upto(self->level_size, sizeof(self->level_size)))
__CPROVER_loop_invariant(height <= other->num_levels && g_total == __CPROVER_loop_entry(g_total) + g_prefix[height])
__CPROVER_loop_invariant((g_h % LCAP) < self->num_levels ==> self->level_size[g_h % LCAP] == g_lvl_before + ((g_h % LCAP) < height ? other->level_size[g_h % LCAP] : 0))
__CPROVER_decreases(other->num_levels - height)
""", 3: r"""
__CPROVER_assigns(verif_exc, self->num_retained_, self->num_levels, g_total, __CPROVER_object_upto(self->level_size, sizeof(self->level_size)))
__CPROVER_loop_invariant(verif_exc == 0 && INV(self) && self->num_levels >= g_levels_after_copy)
"""},
}

HARNESS = r'''
void h_compact_level(void) { struct density* s = malloc(sizeof(*s)); verif_exc = 0; compact_level(s, nondet_u32()); VERIF_CANARY_POINT; }
void h_compact(void) { struct density* s = malloc(sizeof(*s)); verif_exc = 0; compact(s); VERIF_CANARY_POINT; }
void h_merge(void) { struct density* s = malloc(sizeof(*s)); struct density* o = malloc(sizeof(*o)); verif_exc = 0; merge(s, o); VERIF_CANARY_POINT; }
void h_is_empty(void) { struct density* s = malloc(sizeof(*s)); is_empty(s); VERIF_CANARY_POINT; }
void h_update(void) { struct density* s = malloc(sizeof(*s)); struct point* p = malloc(sizeof(*p)); verif_exc = 0; update(s, p); VERIF_CANARY_POINT; }
'''
UNIT = {
    "id": "density_counts", "property": "C20",
    "clause": "density_sketch update, compact and compact_level on the level sizes: a point of the wrong dimension is refused with nothing changed; an accepted point adds 1 to n and is held "
              "at level 0; the retained count always equals the number of points held in the levels (what iteration visits) and after an update does not exceed k times the number of levels; "
              "compact_level empties its level, moves the selected points one level up, drops the others and changes no other level",
    "prelude": PRELUDE, "parts": [compact_level, compact, update, is_empty, merge], "harness": HARNESS,
    "jobs": [{"name": "compact_level", "entry": "h_compact_level", "enforce": "compact_level", "replace": ["random_bit", "kernel_eval"], "loops": True, "expect_loop_steps": 3, "timeout": 900},
             {"name": "compact", "entry": "h_compact", "enforce": "compact", "replace": ["compact_level"], "loops": True, "expect_loop_steps": 1, "timeout": 900},
             {"name": "update", "entry": "h_update", "enforce": "update", "replace": ["compact"], "loops": True, "expect_loop_steps": 1, "timeout": 900},
             {"name": "is_empty", "entry": "h_is_empty", "enforce": "is_empty", "timeout": 300},
             {"name": "merge", "entry": "h_merge", "enforce": "merge", "replace": ["compact", "is_empty"], "loops": True, "expect_loop_steps": 3, "timeout": 900}],
    "assumptions": ["levels_ is represented by its level sizes (point data, shuffle and kernel values dropped: the kernel returns any value, every selection pattern is covered)",
                    "at most 64 levels (a sketch needs at least 64 * k retained points to get there): pushing one more level is treated as the container's exception path", "num_retained_ is 32 bits wide: the invariant is equality with the low 32 bits of the number of points held (g_total, 64 bits); equality as integers needs fewer than 2^32 points held, which is not proved (each point is a heap-allocated vector)",
                    "termination of compact_level's loops over a level is not proved (they use a 32-bit counter against a size_t size; sizes below 2^32 are not an invariant the contracts can carry)",
                    "termination of the 'while (num_retained_ >= k_ * levels_.size()) compact()' loop is not proved (no decreases clause): it depends on the selection pattern"],
}
